"""Lazily built shared analysis state for the polytune engine crate."""
from mir import Program
from flow import FlowGraph
from chan import ChannelInventory, PRIMS
from an import CallGraph

CTX = "polytune::mpc::protocol::Context"
CIRC = "garble_lang::register_circuit::Circuit"
FIELD_BASED = {CTX, CIRC}


def engine(ctx):
    """(bodies of crate polytune, flow graph, channel inventory, call graph)"""
    def build():
        prog = ctx.prog
        bodies = set(b for b in prog.bodies.values() if b.krate == "polytune")
        fg = FlowGraph(prog, bodies=bodies, primitives=set(PRIMS), field_based=FIELD_BASED)
        inv = ChannelInventory(prog, "polytune")
        cg = CallGraph(fg)
        return bodies, fg, inv, cg
    return ctx.get("engine", build)


def server(ctx):
    def build():
        prog = ctx.prog
        bodies = set(b for b in prog.bodies.values() if b.krate == "polytune_server_core")
        fg = FlowGraph(prog, bodies=bodies, primitives=set(), field_based=set())
        cg = CallGraph(fg)
        return bodies, fg, cg
    return ctx.get("server", build)


def user_bodies(fg, owner, krate="polytune"):
    """Bodies of a function family, keyed."""
    return {k: b for k, b in fg.bodies.items() if b.owner == owner and b.krate == krate}


def find_owner(prog, suffix, krate="polytune"):
    r = prog.find_fns(suffix, krate)
    return r[0][1] if len(r) == 1 else None
