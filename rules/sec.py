"""Security analysis core for the engine crate: message components, abort checks, loops.

Concepts
  message component (structural PEER taint): a value that *is* (part of) a received message -
      reached from the result of a receive primitive through structure-preserving edges only
      (moves, borrows, field/index projections, iterator plumbing, closure parameter passing),
      inside the function family that performed the receive.
  abort check: a branch whose condition depends on a message component and one of whose edges
      cannot reach an `Ok(..)` construction (fail-closed) while another can.
  ingredients of a check: message components (by type), Delta / Key typed values, calls
      (open_commitment, hash_vec, convert_vec_to_point, len ...), literals.
"""
from collections import defaultdict
from mir import callee, callee_names
from an import (edge_fail_closed, control_deps, where, defs_of, ret_blocks)
from chan import PRIMS
from common import fl

DT = "polytune::mpc::data_types::"
T_DELTA = DT + "Delta"
T_MAC = DT + "Mac"
T_KEY = DT + "Key"
T_LABEL = DT + "Label"

# iterator / container plumbing that hands out parts of its receiver unchanged
STRUCT_TAIL = {
    "iter", "iter_mut", "into_iter", "next", "enumerate", "zip", "get", "get_mut", "index", "index_mut",
    "deref", "deref_mut", "copied", "cloned", "clone", "flatten", "pop", "ok_or", "branch", "as_ref", "as_mut",
    "skip", "take", "rev", "try_into", "unwrap", "expect", "first", "last", "as_slice", "borrow", "into_inner",
    "ok", "unwrap_or_default", "by_ref", "split_at", "chunks", "chunks_exact", "to_vec", "into", "from", "map_err",
    "as_chunks", "peekable", "filter", "step_by", "drain", "remove", "swap_remove", "take_while", "skip_while", "nth",
    "unzip", "collect", "map", "to_owned", "from_residual", "poll", "into_future", "new_unchecked", "get_context", "try_join_all",
    "try_join", "from_iter", "lock", "into_iter_sorted", "lift", "get_or_insert", "get_or_insert_with", "new",
    "and_then", "as_deref", "as_deref_mut", "inspect", "then_some", "ok_or_else", "find", "filter_map", "chain",
}
STRUCT_KINDS = {"copy", "ref", "base2field", "field2whole", "upvar", "callarg", "ret", "closarg", "closret", "future", "cast", "agg", "index"}


def struct_edge(e):
    if e.kind in STRUCT_KINDS:
        return True
    if e.kind == "call":
        names = (e.info or {}).get("names") or []
        for n in names:
            tail = n.rsplit("::", 1)[-1]
            if tail in STRUCT_TAIL:
                return True
        return False
    return False


def natural_loops(b):
    """[(header, body set)] from back edges (target dominates source)."""
    loops = {}
    succ = b.succ()
    live = b.live_blocks()
    for x in live:
        for y in succ[x]:
            if b.dominates(y, x):
                body = loops.setdefault(y, {y})
                st = [x]
                while st:
                    z = st.pop()
                    if z in body:
                        continue
                    body.add(z)
                    st.extend(b.pred()[z])
    return sorted(loops.items())


class Check:
    __slots__ = ("bk", "body", "block", "bad_edges", "good_edges", "cond_nodes", "comp", "ing", "labels", "sp", "ctrl_bits", "calls", "kind")

    def where(self):
        return fl(self.sp)

    def __repr__(self):
        return "Check(%s %s labels=%s ing=%s)" % (self.body.owner.rsplit("::", 1)[-1], fl(self.sp), sorted(self.labels), sorted(self.ing))


class Sec:
    def __init__(self, fg, inv, cg):
        self.fg = fg
        self.inv = inv
        self.cg = cg
        self.recv_sites = [s for s in inv.direct_sites() if PRIMS[s.prim][2]]
        # the echo round inside the verification layer is a receive with obligations of its own
        self.recv_sites += [s for s in inv.sites if s.body.owner == "polytune::mpc::faand::broadcast_verification" and PRIMS[s.prim][2]]
        self.send_sites = [s for s in inv.direct_sites() if PRIMS[s.prim][1]]
        # decrypt plaintext is peer data as well (label: "decrypt")
        self.comp = {}     # label -> {node: pred edge}
        self.comp_by_site = {}
        self._components()
        self._checks = None
        self._ctrl_bool_nodes = set()
        self._ctrl_value_nodes = set()
        self._loops = {}
        self._cdeps = {}

    # ------------------------------------------------------------ components
    def _reach_components(self, seed, fam):
        """Structure-preserving forward closure from a receive result: inside the receiving function
        family, plus one-way descent into plain (non-async) helper functions that are handed a
        component as argument (their results are not followed back)."""
        fg = self.fg

        def fam_of(n):
            return fg.bodies[n[0]].owner if n[0] != "F" else None
        plain = {}

        def is_plain(k):
            if k not in plain:
                bb = fg.bodies[k]
                plain[k] = bb.kind in ("Fn", "AssocFn") and not bb.j.get("async") and bb.krate == "polytune"
            return plain[k]

        def edge_ok(e):
            if not struct_edge(e):
                return False
            if e.src[0] == "F" or e.dst[0] == "F":
                return True
            fs, fd = fam_of(e.src), fam_of(e.dst)
            if fs == fd:
                return True
            if fs == fam and e.kind == "callarg" and is_plain(e.dst[0]):
                return True     # descend into a helper
            if fs != fam and fd != fam and e.kind == "callarg" and is_plain(e.dst[0]):
                return True     # helper calling helper
            return False
        return fg.forward([seed], edge_ok=edge_ok)

    def _components(self):
        fg = self.fg
        for s in self.recv_sites:
            fam = s.body.owner
            seed = fg.node_of_place(s.bk, s.term["d"])
            reach = self._reach_components(seed, fam)
            self.comp_by_site[id(s)] = reach
            for lab in (s.label or ["?"]):
                d = self.comp.setdefault(lab, {})
                for n, e in reach.items():
                    d.setdefault(n, e)
        # plaintext of garble::decrypt
        for bk, bi, t, targets in fg.calls:
            if "polytune::mpc::garble::decrypt" in callee_names(t):
                b = fg.bodies[bk]
                fam = b.owner
                seed = fg.node_of_place(bk, t["d"])
                reach = self._reach_components(seed, fam)
                d = self.comp.setdefault("decrypt", {})
                for n, e in reach.items():
                    d.setdefault(n, e)

    def node_ty(self, n):
        return self.fg.node_type(n)

    def labels_of(self, n):
        return {lab for lab, d in self.comp.items() if n in d}

    def loops(self, b):
        k = id(b)
        if k not in self._loops:
            self._loops[k] = natural_loops(b)
        return self._loops[k]

    def outer_loop(self, b, block):
        best = None
        for h, body in self.loops(b):
            if block in body:
                if best is None or len(body) > len(best[1]):
                    best = (h, body)
        return best

    def inner_loop(self, b, block):
        best = None
        for h, body in self.loops(b):
            if block in body:
                if best is None or len(body) < len(best[1]):
                    best = (h, body)
        return best

    def cdeps(self, b):
        k = id(b)
        if k not in self._cdeps:
            self._cdeps[k] = control_deps(b)
        return self._cdeps[k]

    # ------------------------------------------------------------ abort checks
    def checks(self):
        if self._checks is not None:
            return self._checks
        fg = self.fg
        out = []
        all_comp = set()
        for d in self.comp.values():
            all_comp |= set(d.keys())
        fam_has_comp = {fg.bodies[n[0]].owner for n in all_comp if n[0] != "F"}
        for bk, b in fg.bodies.items():
            if b.owner not in fam_has_comp:
                continue
            live = b.live_blocks()
            for bi, blk in enumerate(b.blocks):
                t = blk["t"]
                if t["k"] != "switch" or t["o"]["k"] == "const" or bi not in live:
                    continue
                sp = t["sp"]
                if "|" in sp and any(m in sp for m in ("m:debug", "m:trace", "m:instrument", "m:info", "m:warn", "m:error")):
                    continue
                targets = list(dict.fromkeys([tb for _, tb in t["ts"]] + [t["else"]]))
                targets = [x for x in targets if b.blocks[x]["t"]["k"] != "unreachable" or b.blocks[x]["s"]]
                if len(targets) < 2:
                    continue
                fc = {x: edge_fail_closed(b, bi, x)[0] for x in targets}
                if not any(fc.values()) or all(fc.values()):
                    continue
                fam = b.owner
                back = fg.backward(fg.operand_nodes(bk, t["o"]), node_ok=lambda n: n[0] == "F" or n[0] == bk, local=True)
                # a condition computed by a searching adaptor (`(0..n).all(|k| open_commitment(&commitments[k][0], ..))`): the
                # message data the predicate looks at are its captured variables
                locs0 = {n[1] for n in back if n[0] == bk}
                extra = []
                for cbi, ct in b.calls():
                    if ct["d"]["l"] not in locs0:
                        continue
                    cn0 = callee_names(ct)
                    if not cn0 or cn0[-1].rsplit("::", 1)[-1] not in ("any", "all", "find", "position", "find_map"):
                        continue
                    for a in ct["args"]:
                        if a["k"] == "const" or "{closure:" not in a["p"]["ty"] or a["p"]["pr"]:
                            continue
                        for blk2 in b.blocks:
                            for st2 in blk2["s"]:
                                if st2["k"] == "assign" and st2["p"]["l"] == a["p"]["l"] and not st2["p"]["pr"] and st2["r"]["k"] == "agg" and st2["r"].get("def"):
                                    for o2 in st2["r"]["ops"]:
                                        if o2["k"] != "const":
                                            extra += fg.operand_nodes(bk, o2)
                if extra:
                    more = fg.backward(extra, node_ok=lambda n: n[0] == "F" or n[0] == bk, local=True)
                    for n_, e_ in more.items():
                        back.setdefault(n_, e_)
                comp_nodes = [n for n in back if n in all_comp]
                # control ingredients: switches this block's condition defs are control dependent on,
                # limited to the innermost loop body / straight-line region of the check
                ctrl = self._control_bits(bk, b, bi, back, all_comp)
                if not comp_nodes and not ctrl:
                    continue
                c = Check()
                c.bk, c.body, c.block, c.sp = bk, b, bi, sp
                c.bad_edges = [(bi, x) for x in targets if fc[x]]
                c.good_edges = [(bi, x) for x in targets if not fc[x]]
                c.cond_nodes = back
                c.comp = set(comp_nodes) | set(ctrl)
                c.ctrl_bits = set(ctrl)
                c.labels = set()
                for n in c.comp:
                    c.labels |= self.labels_of(n)
                c.ing = set()
                c.calls = []
                for n in back:
                    if n[0] == "F":
                        continue
                    ty = self.node_ty(n)
                    if ty == T_DELTA or ty == "&" + T_DELTA:
                        c.ing.add("DELTA")
                    if ty in (T_KEY, "&" + T_KEY) or "(polytune::mpc::data_types::Mac, polytune::mpc::data_types::Key)" in ty:
                        c.ing.add("KEY")
                    if ty in (T_LABEL, "&" + T_LABEL):
                        c.ing.add("LABEL")
                for n in c.comp:
                    ty = self.node_ty(n)
                    if ty in ("bool", "&bool") or (n in c.ctrl_bits and n in self._ctrl_bool_nodes):
                        c.ing.add("PEER_BIT")
                        c.ing.add("BIT_BOUND")
                    if T_MAC in ty or ty in ("u128", "&u128"):
                        c.ing.add("PEER_MAC")
                # `match byte { 0 => .., 1 => .., _ => return Err(..) }`: the arms enumerate the accepted values; a
                # contiguous range from 0 is the range test `byte > max` with the same fail-closed edge
                oty = t["o"].get("p", {}).get("ty", "")
                if oty in ("u8", "u16", "u32", "u64", "usize", "u128") and fc.get(t["else"]) and len(t["ts"]) >= 2:
                    try:
                        vals = sorted(int(v) for v, tb in t["ts"] if not fc.get(tb))
                    except (TypeError, ValueError):
                        vals = []
                    if vals and vals == list(range(0, len(vals))) and len(vals) == len(t["ts"]):
                        c.ing.add("CMP")
                        c.ing.add("LIT:%d" % vals[-1])
                # calls feeding the condition (same body)
                locs = {n[1] for n in back if n[0] == bk}
                for cbi, ct in b.calls():
                    if ct["d"]["l"] in locs:
                        names = callee_names(ct)
                        c.calls.append((cbi, names))
                        for n in names:
                            tail = n.rsplit("::", 1)[-1]
                            if n.endswith("faand::open_commitment"):
                                c.ing.add("COMMIT")
                            if tail in ("len", "is_empty"):
                                c.ing.add("LEN")
                            if n.endswith("convert_vec_to_point") or tail in ("decompress", "from_slice"):
                                c.ing.add("POINT")
                            if tail in ("ne", "eq"):
                                c.ing.add("CMP")
                                # the received (bit, x) pair is compared as a whole: the bit is bound
                                for a in ct["args"]:
                                    if a["k"] == "const":
                                        continue
                                    if "(bool, " in a["p"]["ty"]:
                                        an = fg.backward(fg.operand_nodes(bk, a), node_ok=lambda n: n[0] == bk, edge_ok=lambda e: e.kind in ("ref", "copy") or (e.kind == "call" and struct_edge(e)))
                                        if any(x in all_comp for x in an):
                                            c.ing.add("BIT_BOUND")
                            if n.endswith("faand::hash_vec"):
                                c.ing.add("HASHVEC")
                            if tail == "clmul":
                                c.ing.add("CLMUL")
                            if tail in ("is_none", "is_some"):
                                c.ing.add("PRESENCE")
                # a comparison whose result was stored in a flag before it is branched on
                for xb, blk_ in enumerate(b.blocks):
                    for s_ in blk_["s"]:
                        if s_["k"] == "assign" and not s_["p"]["pr"] and s_["p"]["l"] in locs and s_["r"]["k"] == "bin" and s_["r"]["op"] in ("Ne", "Eq") and xb != bi:
                            c.ing.add("CMP")
                for s in blk["s"]:
                    if s["k"] == "assign" and s["p"]["l"] == t["o"]["p"]["l"]:
                        r = s["r"]
                        if r["k"] == "bin" and r["op"] in ("Ne", "Eq", "Gt", "Lt", "Ge", "Le"):
                            c.ing.add("CMP")
                            for o in (r["a"], r["b"]):
                                if o["k"] == "const" and "v" in o:
                                    c.ing.add("LIT:" + o["v"])
                        if r["k"] == "discr":
                            c.ing.add("DISCR")
                            if r["p"].get("ty", "").lstrip("&").startswith("mut core::option::Option<") or r["p"].get("ty", "").lstrip("&").startswith("core::option::Option<"):
                                c.ing.add("PRESENCE")     # `match slot { Some(_) => .., None => .. }` is the is_some() test
                out.append(c)
        self._checks = out
        return out

    def _control_bits(self, bk, b, bi, back, all_comp):
        """Message-component bools that steer (by control dependence) how the condition's inputs are
        computed: `key ^ if bit { delta } else { 0 }`, `bit && mac != key ^ delta || ...`."""
        fg = self.fg
        cd = self.cdeps(b)
        blocks = {bi}
        locs = {n[1] for n in back if n[0] == bk}
        for xb, blk in enumerate(b.blocks):
            for s in blk["s"]:
                if s["k"] == "assign" and not s["p"]["pr"] and s["p"]["l"] in locs:
                    blocks.add(xb)
            t = blk["t"]
            if t["k"] == "call" and t["d"]["l"] in locs:
                blocks.add(xb)
        lp = self.inner_loop(b, bi)
        out = set()
        seen = set()
        for xb in blocks:
            for (sw, succ_) in cd.get(xb, ()):
                if sw in seen:
                    continue
                seen.add(sw)
                if lp is not None and sw not in lp[1]:
                    continue
                if lp is not None and sw == lp[0]:
                    continue
                t = b.blocks[sw]["t"]
                if t["k"] != "switch" or t["o"]["k"] == "const":
                    continue
                bs = fg.backward(fg.operand_nodes(bk, t["o"]), node_ok=lambda n: n[0] == bk, edge_ok=lambda e: e.kind in ("copy", "un", "ref", "base2field", "field2whole"))
                for n in bs:
                    if n in all_comp and self.node_ty(n) in ("bool", "&bool"):
                        out.add(n)
                # a short-circuit condition stored in a flag (`let ok = open(c0, d) || open(c1, d); match (ok && .., ..)`):
                # the message values that decide the steering flag take part in the check
                if t["o"]["p"].get("ty") == "bool" and not t["o"]["p"]["pr"]:
                    full = fg.backward(fg.operand_nodes(bk, t["o"]), node_ok=lambda n: n[0] == bk, local=True)
                    for n in full:
                        if n in all_comp:
                            out.add(n)
                            self._ctrl_value_nodes.add(n)
                # a pattern on the bool inside a received tuple (`Some((true, label)) if ..`): the switch reads the
                # projected place directly
                if t["o"]["p"].get("ty") == "bool" and t["o"]["p"]["pr"]:
                    for n in fg.operand_nodes(bk, t["o"]):
                        if n in all_comp:
                            out.add(n)
                            self._ctrl_bool_nodes.add(n)
        return out
