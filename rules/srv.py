"""Rules over the extracted server state machine (C13 - C17)."""
from collections import defaultdict
from mir import callee, callee_names
from an import where, defs_of, single_def, root_local, edge_fail_closed
from common import fl
import sm

STATES = ["Init", "AwaitingValidation", "ValidateRequested", "Validated", "SendingConsts",
          "SendingConstsCompleted", "Running", "Executing"]

BREAK = lambda e: e.kind == "flow" and e.detail in ("Break", "Residual")
CONT = lambda e: e.kind == "flow" and e.detail == "Continue"


def K(kind, detail=None, extra=None):
    def f(e):
        if e.kind != kind:
            return False
        if detail is not None and e.detail != detail:
            return False
        if extra is not None and (e.extra or "") != extra:
            return False
        return True
    return f


def permit_binding(b):
    """(named locals of the body that hold the OwnedSemaphorePermit, True if one of them is moved out of
    the closure environment `_1.<upvar>`) - by type, independent of variable names."""
    locs = [i for i, l in enumerate(b.locals) if "OwnedSemaphorePermit" in l["ty"] and l["name"] and i != 1]
    from_env = False
    for blk in b.blocks:
        for st in blk["s"]:
            if st["k"] == "assign" and not st["p"]["pr"] and st["p"]["l"] in locs and st["r"]["k"] == "use" and st["r"]["o"]["k"] != "const" and st["r"]["o"]["p"]["l"] == 1 and st["r"]["o"]["p"]["pr"]:
                from_env = True
    return locs, from_env


def executing_field_names(hs):
    """local / upvar name -> field name of PolicyStateKind::Executing, for the body that builds the state
    (run: `Executing { cancel: Arc::clone(&x), .. }`) and the bodies that take it apart (cancel)."""
    out = {}
    for name, h in hs.items():
        for k, b in h.bodies.items():
            for blk in b.blocks:
                for st in blk["s"]:
                    if st["k"] != "assign":
                        continue
                    r = st["r"]
                    if r["k"] == "agg" and r.get("variant") == "Executing" and r.get("fields"):
                        for fi, o in enumerate(r["ops"]):
                            if o["k"] == "const":
                                continue
                            nm = sm.name_of_operand(b, o)
                            if nm:
                                out[nm.split(".")[-1]] = r["fields"][fi]
                    pl = r["o"]["p"] if r["k"] == "use" and r["o"]["k"] != "const" else (r["p"] if r["k"] in ("ref",) else None)
                    if pl is not None and not st["p"]["pr"]:
                        fl_ = [e for e in pl["pr"] if isinstance(e, dict) and e.get("n") and "PolicyStateKind" in (e.get("a") or "")]
                        if fl_ and b.locals[st["p"]["l"]]["name"]:
                            out[b.locals[st["p"]["l"]]["name"]] = fl_[-1]["n"]
    return out


def field_origin(b, o, depth=0):
    """(ADT, field name) an operand is a copy / borrow / clone of, or ("call", callee) for a call result."""
    if o is None or o["k"] == "const" or depth > 8:
        return None
    pl = o["p"]
    fl_ = [e for e in pl["pr"] if isinstance(e, dict) and e.get("n") and e.get("a") and not (e["a"] or "").startswith(("core::option::Option", "core::result::Result"))]
    if fl_:
        return (fl_[-1]["a"].rsplit("::", 1)[-1].split("<")[0], fl_[-1]["n"])
    # a field of a local tuple / the payload of a locally built Some(..) / Ok(..): the operand that was put there
    prj = [e for e in pl["pr"] if isinstance(e, dict) and "f" in e]
    if prj:
        d0 = single_def(b, pl["l"])
        if d0 is not None and d0[1] != "t":
            r0 = d0[2]
            if r0["k"] == "agg" and r0.get("ak") in ("tuple", "adt") and prj[-1]["f"] < len(r0.get("ops") or []):
                return field_origin(b, r0["ops"][prj[-1]["f"]], depth + 1)
            if r0["k"] in ("use", "ref"):
                inner = r0["o"]["p"] if r0["k"] == "use" and r0["o"]["k"] != "const" else (r0["p"] if r0["k"] == "ref" else None)
                if inner is not None:
                    return field_origin(b, {"k": "copy", "p": {"l": inner["l"], "pr": list(inner["pr"]) + [e for e in pl["pr"] if e != "*"], "ty": pl.get("ty", "")}}, depth + 1)
        return None
    d = single_def(b, pl["l"])
    if d is None:
        return None
    bi, si, r = d
    if si == "t":
        cn = callee_names(r)
        tl = cn[-1].rsplit("::", 1)[-1] if cn else ""
        if tl in ("deref", "clone", "as_ref", "borrow", "as_str", "to_owned", "to_string") and r["args"] and r["args"][0]["k"] != "const":
            return field_origin(b, r["args"][0], depth + 1)
        return ("call", cn[-1] if cn else "?")
    if r["k"] == "use":
        return field_origin(b, r["o"], depth + 1)
    if r["k"] in ("ref", "rawptr"):
        return field_origin(b, {"k": "copy", "p": r["p"]}, depth + 1)
    return None


def compat_kind(b, oa, ob):
    """Which compatibility test compares these two operands: "leader" (ValidateRequest.leader vs
    Policy.leader), "program_hash" (ValidateRequest.program_hash vs Policy::program_hash()), or None."""
    fa, fb = field_origin(b, oa), field_origin(b, ob)
    kinds = {fa, fb}
    if None in kinds:
        kinds.discard(None)
    if {("ValidateRequest", "leader"), ("Policy", "leader")} <= kinds:
        return "leader"
    has_req_hash = ("ValidateRequest", "program_hash") in kinds
    has_pol_hash = any(k_[0] == "call" and k_[1].endswith("Policy::program_hash") for k_ in kinds)
    if has_req_hash and has_pol_hash:
        return "program_hash"
    return None


class Srv:
    def __init__(self, ctx, res):
        import env
        self.ctx = ctx
        self.res = res
        self.bodies, self.fg, self.cg = env.server(ctx)
        self.hs = sm.extract(self.fg)
        self.prog = ctx.prog

    # ------------------------------------------------------------ helpers
    def h(self, name):
        h = self.hs.get(name)
        if h is None or h.user is None:
            self.res.bad("R9.anchor", name, "cannot locate handler PolicyState::%s" % name)
            return None
        return h

    def blocks(self, h, pred):
        return h.blocks_with(pred)

    def dom_region(self, h, entry):
        k, b = h.user
        return {x for x in b.reachable_from(entry) if b.dominates(entry, x)}

    def first_where(self, h, pred):
        evs = h.evs(pred)
        return evs[0] if evs else None

    def must(self, h, entry, pred, avoid_break=True):
        """every path from entry to return (not ending in Break when avoid_break) hits pred."""
        tb = self.blocks(h, pred)
        if not tb:
            return False
        av = (self.blocks(h, BREAK) | self.blocks(h, K("reply_err"))) if avoid_break else set()
        return h.every_path_hits(entry, tb | av)

    def never_in(self, h, region, pred):
        return not h.events_in(region, pred)

    def leader_branches(self, h):
        """(leader entry, follower entry) of schedule: the switch on `is_leader`."""
        k, b = h.user
        for bi, blk in enumerate(b.blocks):
            t = blk["t"]
            if t["k"] != "switch" or t["o"]["k"] == "const" or bi not in b.live_blocks():
                continue
            # operand is a copy of the local named is_leader
            l = t["o"]["p"]["l"]
            src = None
            for s in blk["s"]:
                if s["k"] == "assign" and s["p"]["l"] == l and s["r"]["k"] == "use" and s["r"]["o"]["k"] != "const":
                    src = s["r"]["o"]["p"]["l"]
            cand = src if src is not None else l
            if self._is_leader_flag(b, cand):
                # skip the early-reject selector (`if is_leader { matches!(..) } else { matches!(..) }`):
                # the leader branch we want is the one that contains new_client / client events
                tm = {v: tb for v, tb in t["ts"]}
                lead, foll = t["else"], tm.get("0")
                reg = b.reachable_from(lead, frozenset([foll]) if foll is not None else frozenset())
                if foll is None:
                    continue
                if h.events_in(self.dom_region(h, lead), K("acquire")) and h.events_in(self.dom_region(h, foll), K("set_state", "AwaitingValidation")) \
                        and not h.events_in(self.dom_region(h, lead), K("set_state", "AwaitingValidation")):
                    return lead, foll
        return None, None

    def _is_leader_flag(self, b, local):
        """local = (policy.party == policy.leader)"""
        from an import defs_of
        for (bi, si, r) in defs_of(b, local):
            if si != "t" and r["k"] == "bin" and r["op"] in ("Eq", "Ne"):
                names = ((sm.name_of_operand(b, r["a"]) or "") + " " + (sm.name_of_operand(b, r["b"]) or ""))
                if "party" in names and "leader" in names:
                    return True
        return False

    def join_result_edge(self, h, ev, js):
        """(join event, (switch block, err target, ok target) or None) for the join of the RPC calls `ev` belongs to:
        the first join in dominance order behind the call; when the fan-out was moved into an async helper, the
        handler's test of the helper's Result (provided the helper cannot turn a failed join into Ok)."""
        k, b = h.user
        cand = [x for x in js if b.dominates(ev.block, x.block)]
        if not cand:
            return None, None
        j = next((x for x in cand if all(b.dominates(x.block, y.block) for y in cand)), cand[0])
        if j.via:
            vb = self.fg.bodies[j.via[0]]
            inner = self.result_err_edge(h, j.via[1], body=vb, bk=j.via[0])
            if inner and edge_fail_closed(vb, inner[0], inner[1])[0]:
                return j, self.result_err_edge(h, j.block, any_result=True)
            return j, None
        return j, self.result_err_edge(h, j.block)

    def result_err_edge(self, h, after_block, body=None, bk=None, any_result=False):
        """After the block holding a join_all call: the switch on the awaited Result; returns
        (switch block, err target, ok target)."""
        if body is None:
            bk, body = h.user
        b = body
        best = None
        for bi, blk in enumerate(b.blocks):
            t = blk["t"]
            if t["k"] != "switch" or bi not in b.live_blocks() or not b.dominates(after_block, bi) or bi == after_block:
                continue
            for s in blk["s"]:
                if s["k"] == "assign" and s["r"]["k"] == "discr" and t["o"]["k"] != "const" and s["p"]["l"] == t["o"]["p"]["l"]:
                    ty = s["r"]["p"].get("ty", "")
                    if ty.startswith("core::result::Result<alloc::vec::Vec<") or (any_result and ty.startswith("core::result::Result<")):
                        tm = {v: tb for v, tb in t["ts"]}
                        err = tm.get("1")
                        ok = tm.get("0", t["else"])
                        if err is None:
                            continue
                        # nearest in dominance order: fewest blocks reachable between
                        d = len(b.reachable_from(after_block, frozenset([bi])))
                        if best is None or d < best[0]:
                            best = (d, bi, err, ok)
        return best[1:] if best else None

    # ============================================================ C13
    def c13(self):
        res = self.res
        R = "R9.edge"
        # ---- schedule (leader): validate all -> reply Ok -> acquire -> run all -> Validated -> self Run
        h = self.h("schedule")
        if h:
            lead, foll = self.leader_branches(h)
            if lead is None:
                res.bad(R, "schedule|leader", "cannot locate the leader branch of schedule (switch on is_leader)")
            else:
                chain = [("client", "validate"), ("reply_ok", "ScheduleError"), ("acquire", None), ("permit_store", None),
                         ("client", "run"), ("set_state", "Validated"), ("self_cmd", "Run")]
                k, b = h.user
                reg = self.dom_region(h, lead)
                prev = None
                okc = True
                for kind, det in chain:
                    evs = h.events_in(reg, K(kind, det))
                    if not evs:
                        res.bad(R, "schedule|leader|%s(%s)" % (kind, det or ""), "leader path of schedule lacks %s(%s)" % (kind, det or ""), where(b, lead))
                        okc = False
                        prev = None
                        continue
                    e = evs[0]
                    if not self.must(h, lead, K(kind, det)):
                        res.bad(R, "schedule|leader|%s(%s)" % (kind, det or ""), "%s(%s) is not reached on every successful path of the leader" % (kind, det or ""), fl(e.sp))
                        okc = False
                    if prev is not None and not b.dominates(prev.block, e.block):
                        res.bad(R, "schedule|leader|order", "%s(%s) must come after %s(%s)" % (kind, det or "", prev.kind, prev.detail or ""), fl(e.sp))
                        okc = False
                    prev = e
                if okc:
                    res.ok(R, "schedule|leader", where(b, lead), "validate all -> reply Ok -> acquire -> run all -> Validated -> self Run, in dominance order on every successful path")
            # follower arms
            sw = h.switch_with("ValidateRequested", "Init")
            if not sw:
                res.bad(R, "schedule|follower", "cannot locate the follower's match on the state (arm ValidateRequested)")
            else:
                ent, ex = h.arm("Init", sw)
                self.edge_simple(h, "schedule×Init(follower)", ent, ex, must=[("set_state", "AwaitingValidation")], never=["reply_ok", "reply_err", "reply"], no_break=True)
                ent, ex = h.arm("ValidateRequested", sw)
                self.edge_validated(h, "schedule×ValidateRequested", ent, ex, ("ValidateError", "ScheduleError"))
            # the per-peer queues exist before this party tells anybody (scheduler, peers, itself) that the
            # policy is accepted: peers start sending MPC messages as soon as *they* are told to run, which
            # can be before this party handles its own Run
            k, b = h.user
            inits = h.evs(K("init_channel"))
            outward = [e for e in h.evs(lambda e: (e.kind == "set_state" and not (e.detail or "").startswith("restore")) or e.kind in ("client", "reply_ok", "self_cmd"))]
            late = [e for e in outward if not any(b.dominates(i.block, e.block) for i in inits)]
            if not inits:
                res.bad("R9.queues-first", "schedule|init_channel", "schedule does not create the per-peer message queues: a peer that starts its MPC before this party handles Run gets UnknownSender for its first messages", fl(b.span))
            elif late:
                res.bad("R9.queues-first", "schedule|init_channel", "%s(%s) can happen before the per-peer message queues exist" % (late[0].kind, late[0].detail or ""), fl(late[0].sp))
            else:
                res.ok("R9.queues-first", "schedule|init_channel", fl(inits[0].sp), "init_channel dominates all %d accepting effects of schedule (state changes, RPCs, Ok reply, self command)" % len(outward))
        other = [(name, e) for name, hh in self.hs.items() if name not in ("schedule", "init_channel") and hh.user for e in hh.evs(K("init_channel"))]
        for name, e in other:
            res.bad("R9.queues-first", "%s|init_channel" % name, "the message queues are (re)created in %s: messages that peers already delivered are lost / rejected" % name, fl(e.sp))
        self.consts_count_rules()
        h = self.h("validate")
        if h:
            ent, ex = h.arm("Init")
            self.edge_simple(h, "validate×Init", ent, ex, must=[("set_state", "ValidateRequested")], never=["reply_ok", "reply_err", "reply"], no_break=True, state="Init")
            ent, ex = h.arm("AwaitingValidation")
            self.edge_validated(h, "validate×AwaitingValidation", ent, ex, ("ScheduleError", "ValidateError"))
        h = self.h("run")
        if h:
            ent, ex = h.arm("Validated")
            self.edge_simple(h, "run×Validated", ent, ex, must=[("insert_consts", None), ("set_state", "SendingConsts"), ("self_cmd", "InternalConstsSent")],
                             some=[("reply_ok", None), ("client", "consts")], never=["reply_err"], no_break=True, state="Validated")
            ent, ex = h.arm("Running")
            self.edge_simple(h, "run×Running", ent, ex, must=[("permit_take", None), ("set_state", "Executing"), ("spawn", None), ("mpc", None)],
                             some=[("self_cmd", "Stop"), ("client", "output")], never=["reply_err"], no_break=False, state="Running")
            self.task_rules(h)
        h = self.h("consts")
        if h:
            ent, ex = h.arm("Validated")
            ent2, ex2 = h.arm("SendingConsts")
            if ent != ent2 or not (ex and ex2):
                res.bad(R, "consts×Validated/SendingConsts", "constants must be accepted alike in Validated and SendingConsts")
            self.edge_simple(h, "consts×Validated|SendingConsts", ent, ex and ex2, must=[("set_state", None), ("insert_consts", None), ("reply_ok", None)], never=["reply_err", "check_consts"], no_break=True, restore=True, state="Validated")
            if len(h.switches) >= 2:
                self.edge_simple(h, "consts×SendingConsts", ent2, ex and ex2, must=[("set_state", None), ("insert_consts", None), ("reply_ok", None)], never=["reply_err", "check_consts"], no_break=True, restore=True, state="SendingConsts")
            ent, ex = h.arm("SendingConstsCompleted")
            self.edge_simple(h, "consts×SendingConstsCompleted", ent, ex, must=[("insert_consts", None), ("reply_ok", None), ("check_consts", None)], never=["reply_err"], no_break=True, state="SendingConstsCompleted")
        h = self.h("internal_consts_sent")
        if h:
            ent, ex = h.arm("SendingConsts")
            self.edge_simple(h, "internal_consts_sent×SendingConsts", ent, ex, must=[("check_consts", None)], never=[], no_break=False)
        h = self.h("check_consts")
        if h:
            k, b = h.user
            r1 = h.evs(K("set_state", "Running"))
            r2 = h.evs(K("set_state", "SendingConstsCompleted"))
            sc = h.evs(K("self_cmd", "Run"))
            if r1 and r2 and sc and b.dominates(r1[0].block, sc[0].block) and h.every_path_hits(0, {r1[0].block, r2[0].block}) \
                    and h.every_path_hits(r1[0].block, {sc[0].block}):
                res.ok(R, "check_consts", fl(r1[0].sp), "all constants present -> Running + self Run, else -> SendingConstsCompleted; one of them on every path")
            else:
                res.bad(R, "check_consts", "check_consts must move to Running (and queue Run) or to SendingConstsCompleted on every path", fl(b.span))
        h = self.h("msg")
        if h:
            k, b = h.user
            qs = h.evs(K("queue_send"))
            ro = h.evs(K("reply_ok"))
            if qs and ro and b.dominates(qs[0].block, ro[0].block) and h.every_path_hits(ro[0].block, self.blocks(h, CONT)) and not (b.reachable_from(ro[0].block) & self.blocks(h, BREAK)):
                res.ok(R, "msg×*", fl(qs[0].sp), "data is queued for the sender's channel, reply Ok, Continue")
            else:
                res.bad(R, "msg×*", "an accepted MPC message must be queued, answered Ok and keep the actor running", fl(b.span))
        h = self.h("handle_cmd")
        if h:
            self.dispatch_rules(h)

    def edge_simple(self, h, inst, ent, explicit, must=(), some=(), never=(), no_break=False, restore=False, state=None):
        res = self.res
        R = "R9.edge"
        if state is not None:
            h = h.for_state(state)
        k, b = h.user
        if ent is None or not explicit:
            res.bad(R, inst, "the required transition has no arm of its own (state not handled, or only by the error fallback)", fl(b.span))
            return
        reg = self.dom_region(h, ent)
        probs = []
        for kind, det in must:
            if not h.events_in(b.reachable_from(ent), K(kind, det)):
                probs.append("%s(%s) missing" % (kind, det or ""))
            elif not self.must(h, ent, K(kind, det)):
                probs.append("%s(%s) not on every path" % (kind, det or ""))
        for kind, det in some:
            if not h.events_in(b.reachable_from(ent), K(kind, det)):
                probs.append("%s(%s) missing" % (kind, det or ""))
        for kind in never:
            ev = h.events_in(reg, K(kind))
            if ev:
                probs.append("unexpected %s(%s)" % (kind, ev[0].detail))
        if no_break and h.events_in(reg, BREAK):
            probs.append("the arm can stop the state machine (Break)")
        if restore:
            st = h.events_in(reg, K("set_state"))
            if not st or not all(e.detail.startswith("restore") for e in st):
                probs.append("state must be kept (restored) in this arm")
        if not (b.reachable_from(ent) & self.blocks(h, CONT)):
            probs.append("arm never continues")
        if probs:
            res.bad(R, inst, "; ".join(probs), where(b, ent))
        else:
            res.ok(R, inst, where(b, ent), "must: %s" % ", ".join("%s(%s)" % (a, c or "") for a, c in list(must) + list(some)))

    def edge_validated(self, h, inst, ent, explicit, rets):
        res = self.res
        R = "R9.edge"
        k, b = h.user
        if ent is None or not explicit:
            res.bad(R, inst, "no arm handles the second half of the validate/schedule rendezvous", fl(b.span))
            return
        reg = self.dom_region(h, ent)
        v = h.events_in(reg, K("set_state", "Validated"))
        probs = []
        if not v:
            probs.append("arm never reaches Validated")
        else:
            vb = v[0].block
            for r in rets:
                ro = h.events_in(reg, K("reply_ok", r))
                if not ro:
                    probs.append("deferred reply `%s` is not answered Ok" % r)
                elif not (b.dominates(vb, ro[0].block) and h.every_path_hits(vb, {ro[0].block})):
                    probs.append("reply Ok to `%s` is not sent on every path after Validated" % r)
            if not h.every_path_hits(vb, self.blocks(h, CONT)) or (b.reachable_from(vb) & self.blocks(h, BREAK)):
                probs.append("after Validated the actor must continue")
        if probs:
            res.bad(R, inst, "; ".join(probs), where(b, ent))
        else:
            res.ok(R, inst, where(b, ent), "-> Validated, both deferred replies (%s) answered Ok, Continue" % ", ".join(rets))

    def task_bodies(self, h):
        """(fut body, mpc_fut body): the spawned future of run×Running and the inner future that
        awaits polytune::mpc."""
        mpcb = None
        for k, b in h.bodies.items():
            if any(e.kind == "mpc" and not e.nested for e in h.events[k]):
                mpcb = (k, b)
        if mpcb is None:
            return None, None
        parent = None
        for k, b in h.bodies.items():
            if b.id == mpcb[1].parent:
                parent = (k, b)
        return parent, mpcb

    def task_rules(self, h):
        res = self.res
        fut, mpcf = self.task_bodies(h)
        if mpcf is None:
            res.bad("R9.task", "run|mpc-task", "cannot locate the future that awaits polytune::mpc")
            return
        k, b = mpcf
        evs = [e for e in h.events[k] if not e.nested]
        mpc = [e for e in evs if e.kind == "mpc"][0]
        outs = [e for e in evs if e.kind == "client" and e.detail == "output"]
        stops = [e for e in evs if e.kind == "self_cmd" and e.detail == "Stop"]
        mpc_b, mpc_k = b, k
        avoid_extra = set()
        if not outs and fut:
            # the result is delivered by the task body itself, after the future that awaits mpc
            fk, fb = fut
            fevs = [e for e in h.events[fk] if not e.nested]
            fouts = [e for e in fevs if e.kind == "client" and e.detail == "output"]
            created = [bi for bi, blk in enumerate(fb.blocks) for s_ in blk["s"] if s_["k"] == "assign" and s_["r"]["k"] == "agg" and s_["r"].get("def") == b.id]
            if fouts and created:
                class _A:
                    pass
                a_ = _A()
                a_.block, a_.sp = created[0], mpc.sp
                k, b, evs, outs, mpc = fk, fb, fevs, fouts, a_
                stops = [e for e in fevs if e.kind == "self_cmd" and e.detail == "Stop"]
                avoid_extra = {e.block for e in fevs if e.kind == "send_cancel"}
        rets = {bi for bi, blk in enumerate(b.blocks) if blk["t"]["k"] == "return" and bi in b.live_blocks()}
        # at most one output per path
        multi = [(o1, o2) for o1 in outs for o2 in outs if o1 is not o2 and o2.block in b.reachable_from(b.succ()[o1.block][0] if b.succ()[o1.block] else o1.block)]
        if multi:
            res.bad("R9.task", "run|output-once", "a path of the MPC task calls client.output twice", fl(multi[0][1].sp))
        elif not outs:
            res.bad("R9.task", "run|output-once", "the MPC task never delivers a result (no client.output)", fl(mpc.sp))
        else:
            res.ok("R9.task", "run|output-once", fl(outs[0].sp), "%d output call sites, no path contains two" % len(outs))
        # every output after mpc
        if all(b.dominates(mpc.block, o.block) for o in outs):
            res.ok("R9.task", "run|output-after-mpc", fl(mpc.sp), "every client.output of the task is dominated by the mpc call")
        else:
            res.bad("R9.task", "run|output-after-mpc", "client.output may be called before polytune::mpc has run", fl(mpc.sp))
        # Stop on every path after mpc
        sb = {e.block for e in stops}
        if sb and not (b.reachable_from(mpc.block, frozenset(sb | avoid_extra)) & rets):
            res.ok("R9.task", "run|stop", fl(stops[0].sp), "PolicyCmd::Stop is sent on every path after polytune::mpc completes")
        else:
            res.bad("R9.task", "run|stop", "a path of the MPC task ends without sending PolicyCmd::Stop (state machine and permit linger)", fl(mpc.sp))
        self.permit_task_rule(h, fut, (mpc_k, mpc_b), mpc)

    def permit_task_rule(self, h, fut=None, mpcf=None, mpc=None):
        res = self.res
        if mpcf is None:
            fut, mpcf = self.task_bodies(h)
            if mpcf is None:
                res.bad("R9.permit", "run|permit-in-mpc-future", "cannot locate the future that awaits polytune::mpc")
                return
            mpc = [e for e in h.events[mpcf[0]] if not e.nested and e.kind == "mpc"][0]
        mpc_k, mpc_b = mpcf
        # permit lives inside the mpc future
        plocs, from_env = permit_binding(mpc_b)
        has_permit = from_env
        moved = bool(plocs)
        dropped = []
        for kk, bb in ((mpc_k, mpc_b), fut if fut else (None, None)):
            if bb is None:
                continue
            for bi, t in bb.calls():
                if any(n.endswith("mem::drop") for n in callee_names(t)) and t["args"] and "OwnedSemaphorePermit" in (t["args"][0]["p"]["ty"] if t["args"][0]["k"] != "const" else ""):
                    dropped.append((bb, bi))
        # the permit outlives everything the task does for this policy: after any (non-unwinding) drop of
        # the bound permit no result delivery and no Stop command is still to come
        early = None
        pl = plocs
        mevs = [e for e in h.events[mpc_k] if not e.nested]
        later = {e.block for e in mevs if (e.kind == "client" and e.detail == "output") or (e.kind == "self_cmd" and e.detail == "Stop")}
        live = mpc_b.live_blocks()
        for bi, blk in enumerate(mpc_b.blocks):
            t = blk["t"]
            if t["k"] == "drop" and bi in live and not blk.get("cleanup") and t["p"]["l"] in pl and not t["p"]["pr"]:
                nxt = t.get("t")
                if nxt is not None and (mpc_b.reachable_from(nxt) & later):
                    early = (bi, mpc_b.locals[t["p"]["l"]]["name"])
        if fut and has_permit and not early:
            fouts = [e for e in h.events[fut[0]] if not e.nested and ((e.kind == "client" and e.detail == "output") or (e.kind == "self_cmd" and e.detail == "Stop"))]
            if fouts:
                early = (fouts[0].block, "permit (owned by the inner future, which has completed by then)")
                res.bad("R9.permit", "run|permit-in-mpc-future", "the task delivers its result / sends Stop after the future that owns the concurrency permit has completed: the permit is released while this policy is still alive (more policies in flight than the configured concurrency)", fl(fouts[0].sp))
                return
        if has_permit and moved and not dropped and early:
            res.bad("R9.permit", "run|permit-in-mpc-future", "the concurrency permit `%s` is released before the task has delivered its result and sent Stop: the next queued policy of this leader starts while this one is still alive (more policies in flight than the configured concurrency)" % early[1], where(mpc_b, early[0]))
        elif has_permit and moved and not dropped:
            res.ok("R9.permit", "run|permit-in-mpc-future", fl(mpc.sp), "the permit is captured by and bound inside the future that awaits polytune::mpc, and is released only after the result delivery and Stop")
        else:
            res.bad("R9.permit", "run|permit-in-mpc-future", "the concurrency permit is not owned by the future that awaits polytune::mpc (captured=%s bound=%s explicit drop=%s)" % (has_permit, moved, bool(dropped)), fl(mpc.sp))

    def dispatch_rules(self, h):
        res = self.res
        k, b = h.user
        hv = h.evs(K("handler"))
        names = {e.detail for e in hv}
        need = {"schedule", "validate", "run", "consts", "internal_consts_sent", "msg", "cancel"}
        if need - names:
            res.bad("R9.edge", "handle_cmd|dispatch", "handle_cmd does not dispatch to %s" % sorted(need - names), fl(b.span))
        else:
            res.ok("R9.edge", "handle_cmd|dispatch", "", "all 7 handler commands dispatched")
        # Stop -> Break : a Break flow block not dominated by any handler call
        hb = {e.block for e in hv}
        stop_ok = False
        for e in h.evs(K("flow", "Break")):
            if not any(b.dominates(x, e.block) for x in hb):
                stop_ok = True
        if stop_ok:
            res.ok("R9.edge", "Stop×*", "", "PolicyCmd::Stop breaks the actor loop")
        else:
            res.bad("R9.edge", "Stop×*", "PolicyCmd::Stop does not unconditionally stop the state machine", fl(b.span))
        # Break of a handler is propagated (`?`): every handler call (but cancel/msg special) followed by residual
        for e in hv:
            if e.detail in ("cancel",):
                continue
            resid = [r for r in h.evs(K("flow", "Residual")) if b.dominates(e.block, r.block)]
            if not resid:
                res.bad("R9.edge", "handle_cmd|%s?" % e.detail, "a Break returned by %s is not propagated (the actor would keep running after a fatal error)" % e.detail, fl(e.sp))
            else:
                res.ok("R9.edge", "handle_cmd|%s?" % e.detail, fl(e.sp), "Break of the handler stops the actor")

    # ============================================================ C14
    MUTATING = ("init_channel", "insert_consts", "permit_store", "mutate", "client", "spawn", "acquire", "self_cmd", "check_consts", "new_client")

    def c14(self):
        res = self.res
        # (a) fallback arms
        for name in ("validate", "run", "consts"):
            h = self.h(name)
            if not h:
                continue
            k, b = h.user
            if not h.switch:
                res.bad("R9.fallback", name, "handler does not match on the state", fl(b.span))
                continue
            bi, tm, other, via, p = h.switch
            missing = [s for s in STATES if s not in tm]
            if other is None:
                if missing:
                    res.bad("R9.fallback", name, "states %s have no arm" % missing, where(b, bi))
                continue
            self.fallback_arm(h, name, other)
        h = self.h("schedule")
        if h:
            k, b = h.user
            # early reject (state check first) + the old fallback arms
            rej = [e for e in h.evs(K("reply_err")) if e.extra and "InvalidState" in e.extra]
            res.floor("schedule_invalid_state_replies", len(rej), 1)
            for e in rej:
                self.reject_site(h, "schedule", e)
            # every state in which schedule is not acceptable must reach a reject: leader accepts Init,
            # follower Init + ValidateRequested -> checked through C13 edges; here: some reject exists
            # that is reached without passing typecheck (a duplicate schedule must not be type-checked
            # into a Break)
            tc = self.first_where(h, K("typecheck"))
            if tc is not None:
                early = [e for e in rej if not b.dominates(tc.block, e.block)]
                brk = [e for e in h.evs(K("reply_err")) if e.extra and "InvalidProgram" in e.extra]
                # the InvalidProgram -> Break path must be unreachable for states other than
                # Init / ValidateRequested: i.e. the typecheck must be dominated by a state test
                sblocks = frozenset(sw[0] for sw in h.switches)
                sws = tc.block not in b.reachable_from(0, sblocks)
                if early and sws:
                    res.ok("R9.reject-first", "schedule|state-before-typecheck", fl(early[0].sp), "the state is tested before the program is type-checked: a duplicate schedule cannot stop a live run")
                else:
                    res.bad("R9.reject-first", "schedule|state-before-typecheck", "an ill-typed duplicate schedule is answered by stopping the state machine in every state (type check precedes the state check)", fl(tc.sp))
        for name in ("validate", "run", "consts", "internal_consts_sent", "msg"):
            h = self.h(name)
            if not h:
                continue
            for e in h.evs(K("reply_err")):
                if e.extra and ("InvalidState" in e.extra or "UnknownSender" in e.extra):
                    self.reject_site(h, name, e)
        # (c) command-supplied scalars used as index
        self.cmd_index_rules()
        self.queue_mapping_rules()
        self.handle_lifecycle_rules()
        self.accept_rules()
        # (d) panics
        self.panic_rules()
        self.internal_consts_unreachable()

    def fallback_arm(self, h, name, ent):
        res = self.res
        k, b = h.user
        reg = self.dom_region(h, ent)
        probs = []
        re_ = h.events_in(reg, K("reply_err"))
        if not re_ and name != "internal_consts_sent":
            # run: reply is optional (internal Run has no ret) -> must exist under `if let Some`
            probs.append("no error reply")
        st = h.events_in(reg, K("set_state"))
        bi, tm, other, via, p = h.switch
        if via == "taken" or h.events_in(reg, lambda e: False):
            pass
        taken_before = [e for e in h.evs(K("take_state")) if ent in b.reachable_from(e.block) or e.block in reg]
        if not st and via == "field" and not taken_before:
            pass    # the state is only inspected on this path (`matches!(self.state_kind, ..)`): nothing to write back
        elif not st:
            # state bound by move (`state => ...`) or taken: must be written back
            probs.append("state is not written back")
        elif not all(e.detail.startswith("restore") for e in st):
            probs.append("fallback arm changes the state to %s" % [e.detail for e in st])
        elif not self.must(h, ent, K("set_state"), avoid_break=False):
            probs.append("state is not written back on every path")
        if h.events_in(reg, BREAK):
            probs.append("fallback arm stops the state machine")
        for kind in self.MUTATING:
            ev = h.events_in(reg, K(kind))
            if ev:
                probs.append("fallback arm performs %s" % kind)
        if not (b.reachable_from(ent) & self.blocks(h, CONT)):
            probs.append("fallback arm does not continue")
        if probs:
            res.bad("R9.fallback", name, "; ".join(probs), where(b, ent))
        else:
            res.ok("R9.fallback", name, where(b, ent), "error reply, state written back, Continue, no side effect")

    def reject_site(self, h, name, e):
        """No mutation of the actor on any path from the handler entry to this reject reply, and
        after it: only restoring the state, then Continue."""
        res = self.res
        k, b = h.user
        pre = {x for x in b.reachable_from(0) if e.block in b.reachable_from(x) and x != e.block}
        bad = []
        for x in h.events_in(pre, lambda ev: ev.kind in self.MUTATING or (ev.kind == "set_state" and not ev.detail.startswith("restore"))):
            bad.append(x)
        inst = "%s|%s" % (name, e.extra)
        if bad:
            res.bad("R9.no-mutation", inst, "the rejected command has already had an effect before the error reply: %s at %s" % (bad[0].kind, fl(bad[0].sp)), fl(e.sp))
            return
        post = b.reachable_from(e.block)
        if post & self.blocks(h, BREAK) and not h.every_path_hits(e.block, self.blocks(h, CONT)):
            res.bad("R9.no-mutation", inst, "after the error reply the state machine stops instead of continuing", fl(e.sp))
            return
        after = h.events_in(self.dom_region(h, e.block), lambda ev: ev.kind in self.MUTATING or (ev.kind == "set_state" and not ev.detail.startswith("restore")))
        if after:
            res.bad("R9.no-mutation", inst, "the rejected command still has an effect after the error reply: %s" % after[0].kind, fl(after[0].sp))
            return
        res.ok("R9.no-mutation", inst, fl(e.sp), "no actor mutation before or after the reject; actor continues")

    def cmd_index_rules(self):
        res = self.res
        n = 0
        for name, h in self.hs.items():
            for k, evs in h.events.items():
                for e in evs:
                    if e.kind == "index" and not e.nested:
                        n += 1
                        idx = e.extra or ""
                        if any(x in idx for x in ("from", "leader", "party", "mpc_msg", "request", "consts_request", "req")):
                            res.bad("R1.cmd", "%s|%s[%s]" % (name, e.detail, idx), "a command-supplied index is used to index %s without a range check (panics the state machine task)" % e.detail, fl(e.sp))
        # bounds-check asserts on arrays/slices with command data
        for name, h in self.hs.items():
            for k, b in h.bodies.items():
                for bi, blk in enumerate(b.blocks):
                    t = blk["t"]
                    if t["k"] == "assert" and t["mk"] == "BoundsCheck" and bi in b.live_blocks():
                        n += 1
                        idxn = sm.name_of_operand(b, t["mops"][1]) or ""
                        if any(x in idxn for x in ("from", "leader", "party")):
                            res.bad("R1.cmd", "%s|bounds[%s]" % (name, idxn), "a command-supplied index is used in a bounds-checked access", fl(t["sp"]))
        # by type, independent of variable names: an index operand that is (a cast / copy of) a field of a
        # command or policy structure
        CMD_ADTS = {"MpcMsg", "RunRequest", "ConstsRequest", "ValidateRequest", "Policy"}
        for name, h in self.hs.items():
            for k, b in h.bodies.items():
                for bi, t in b.calls():
                    cn = callee_names(t)
                    tl = cn[-1].rsplit("::", 1)[-1] if cn else ""
                    if tl in ("index", "index_mut") and len(t["args"]) == 2 and bi in b.live_blocks():
                        o = t["args"][1]
                        # through casts
                        cur = o
                        for _ in range(4):
                            d = single_def(b, cur["p"]["l"]) if cur["k"] != "const" and not cur["p"]["pr"] else None
                            if d and d[1] != "t" and d[2]["k"] == "cast":
                                cur = d[2]["o"]
                            else:
                                break
                        fo = field_origin(b, cur)
                        if fo and fo[0] in CMD_ADTS:
                            res.bad("R1.cmd", "%s|index[%s.%s]" % (name, fo[0], fo[1]), "a field of a command (%s.%s) is used to index a container without a range check (panics the state machine task)" % fo, where(b, bi),
                                    key="R1.cmd|%s|%s.%s" % (name, fo[0], fo[1]))
        self.res.count("index_sites_in_handlers", n)
        msg = self.hs.get("msg")
        if msg:
            k, b = msg.user
            gets = [bi for bi, t in b.calls() if any(x.endswith("<impl [T]>::get") or x.endswith("::get") for x in callee_names(t))]
            if gets:
                res.ok("R1.cmd", "msg|channel_senders.get(from)", where(b, gets[0]), "sender index is looked up with a checked accessor")
            elif not [e for e in msg.evs(K("index"))]:
                res.bad("R1.cmd", "msg|lookup", "cannot locate how msg selects the sender's queue")

    def queue_mapping_rules(self):
        """R9.queue: the per-peer byte queues are selected by the *unmodified* party id on both sides -
        msg() looks the sender up with `from`, the Channel reads with `party` - so distinct ids can
        never share a queue (a message naming any other id, including the own one, cannot be spliced
        into a peer's stream).  A computed index in msg() is accepted only behind a rejecting
        comparison of the id (the ids the computation cannot map injectively), and the Channel side
        must then use the same mapping function."""
        res = self.res
        fg = self.fg
        plain = lambda e: e.kind in ("copy", "ref", "base2field", "field2whole", "upvar", "closarg", "callarg")
        sides = {}
        for k, b in fg.bodies.items():
            if b.krate != "polytune_server_core":
                continue
            for bi, t in b.calls():
                names = callee_names(t)
                if not names or not names[-1].endswith("<impl [T]>::get") or len(t["args"]) != 2 or bi not in b.live_blocks():
                    continue
                a0 = t["args"][0]
                ty = a0["p"]["ty"] if a0["k"] != "const" else ""
                if "tokio::sync::mpsc::bounded::Sender<alloc::vec::Vec<u8" in ty:
                    side = "msg"
                elif "tokio::sync::mpsc::bounded::Receiver<alloc::vec::Vec<u8" in ty:
                    side = "recv"
                else:
                    continue
                idx = t["args"][1]
                if idx["k"] == "const":
                    res.bad("R9.queue", side + "|queue", "the queue is selected by a constant", where(b, bi))
                    continue
                fam = b.owner
                plain_back = fg.backward(fg.operand_nodes(k, idx), node_ok=lambda x: x[0] != "F" and fg.bodies[x[0]].owner == fam, edge_ok=plain)
                computed = [e for x in plain_back for e in fg.inn.get(x, ()) if e.kind in ("bin", "un", "call", "cast", "lcall")]
                how = sorted({((e.info or {}).get("names", [e.kind])[-1] if isinstance(e.info, dict) else e.kind) for e in computed})
                guarded = False
                id_back = set(plain_back)
                if computed:
                    id_back |= set(fg.backward([e.src for e in computed if e.src[0] != "F"], node_ok=lambda x: x[0] != "F" and fg.bodies[x[0]].owner == fam, edge_ok=plain))
                for bj, blk in enumerate(b.blocks):
                    tt = blk["t"]
                    if tt["k"] != "switch" or tt["o"]["k"] == "const" or not b.dominates(bj, bi):
                        continue
                    for st in blk["s"]:
                        if st["k"] == "assign" and st["r"]["k"] == "bin" and st["r"]["op"] in ("Eq", "Ne") and st["p"]["l"] == tt["o"]["p"]["l"]:
                            ids = fg.backward(fg.operand_nodes(k, st["r"]["a"]) + fg.operand_nodes(k, st["r"]["b"]), node_ok=lambda x: x[0] == k, edge_ok=plain)
                            if any(x in id_back for x in ids):
                                tg = [tb for _v, tb in tt["ts"]] + [tt["else"]]
                                if any(bi not in b.reachable_from(x) for x in tg):
                                    guarded = True
                sides.setdefault(side, []).append((b, bi, how, guarded))
        for (b, bi, how, guarded) in sides.get("msg", []):
            if not how:
                res.ok("R9.queue", "msg|sender-queue", where(b, bi), "queue index is the unmodified sender id of the message")
            elif guarded:
                res.ok("R9.queue", "msg|sender-queue", where(b, bi), "queue index is computed from the sender id (%s) behind a rejecting comparison of that id" % how[0])
            else:
                res.bad("R9.queue", "msg|sender-queue", "the queue is selected by a value computed from the sender id (%s) and no comparison of the id rejects the ids the computation maps onto another party's queue: "
                        "a message naming such an id is accepted and spliced into that party's byte stream" % how[0], where(b, bi))
        mhow = sorted({h_ for (_b, _bi, how, _g) in sides.get("msg", []) for h_ in how})
        for (b, bi, how, guarded) in sides.get("recv", []):
            if how == mhow:
                res.ok("R9.queue", "recv|receiver-queue", where(b, bi), "the Channel reads the queue selected by the same mapping of the party id as msg() (%s)" % (how or ["identity"])[0])
            else:
                res.bad("R9.queue", "recv|receiver-queue", "msg() files a message under %s of the sender id but the Channel reads the queue %s of the party id: the two sides disagree on which queue belongs to a party" % (mhow or ["identity"], how or ["identity"]), where(b, bi))
        res.need("R9.queue", "queue_lookups", len(sides.get("msg", [])) + len(sides.get("recv", [])), 2, "checked lookups of the per-peer byte queues (msg and Channel::recv_bytes_from)")
        # msg() reads a failing `send` as "the engine is gone" and stops the state machine: that is only right
        # while every receiver lives exactly as long as the engine's Channel - no queue whose sender stays
        # registered may be closed or dropped by the server core itself
        closed = []
        for k, b in fg.bodies.items():
            if b.krate != "polytune_server_core":
                continue
            for bi, t in b.calls():
                if bi not in b.live_blocks() or not t["args"] or t["args"][0]["k"] == "const":
                    continue
                names = callee_names(t)
                tl = names[-1].rsplit("::", 1)[-1] if names else ""
                ty = t["args"][0]["p"]["ty"]
                if "tokio::sync::mpsc::bounded::Receiver<alloc::vec::Vec<u8" in ty and "Mutex<" not in ty and "Vec<tokio" not in ty and (tl == "close" or names[-1].endswith("mem::drop")):
                    closed.append((b, bi, tl))
        if closed:
            b, bi, tl = closed[0]
            res.bad("R9.queue", "queues|open", "a per-peer byte queue is closed (`%s`) by the server core while its sender stays registered: msg() takes the failing send of a message for that queue for a vanished engine and stops the state machine of a live computation" % tl, where(b, bi))
        else:
            res.ok("R9.queue", "queues|open", "", "no per-peer byte queue is closed or dropped by the server core: a send in msg() fails only when the engine's Channel is gone")

    def handle_lifecycle_rules(self):
        """R9.handle (HTTP layer): a PolicyStateHandle leaves the routing table only after the state
        machine it addresses has finished: every removing operation on the map of handles is dominated
        by the Ready edge of the `.await` of that machine's `PolicyState::start()`.  A route that drops
        the handle of a live machine makes the peers' /run, /consts and /msg fail (404) and thereby
        changes the outcome of a computation that is under way."""
        res = self.res
        prog = self.prog
        REMOVING = ("remove", "remove_entry", "clear", "retain", "drain", "insert", "extract_if", "take")
        n_rm = 0
        n_map = 0
        for k, b in prog.bodies.items():
            if b.krate != "polytune_http_server":
                continue
            rms = []
            for bi, t in b.calls():
                names = callee_names(t)
                if not names or not t["args"] or t["args"][0]["k"] == "const" or bi not in b.live_blocks():
                    continue
                ty = t["args"][0]["p"]["ty"]
                if "HashMap<" in ty and "PolicyStateHandle" in ty and "hash::map::HashMap::<K, V, S, A>::" in names[-1]:
                    n_map += 1
                    if names[-1].rsplit("::", 1)[-1] in REMOVING:
                        rms.append((bi, names[-1].rsplit("::", 1)[-1]))
                elif "PolicyStateHandle" in ty and "HashMap<" in ty and names[-1].endswith("core::mem::take"):
                    rms.append((bi, "mem::take"))
            if not rms:
                continue
            # ready edges of awaited PolicyState::start() futures in this body
            ready = []
            for bi, t in b.calls():
                names = callee_names(t)
                if not names or not any("PolicyState::<B, C>::start" in x or x.endswith("PolicyState::start") for x in names):
                    continue
                L = {t["d"]["l"]}
                changed = True
                while changed:
                    changed = False
                    for blk in b.blocks:
                        for st in blk["s"]:
                            if st["k"] != "assign" or st["p"]["pr"] or st["p"]["l"] in L:
                                continue
                            r = st["r"]
                            src = None
                            if r["k"] == "use" and r["o"]["k"] != "const":
                                src = r["o"]["p"]["l"]
                            elif r["k"] in ("ref", "rawptr"):
                                src = r["p"]["l"]
                            if src in L:
                                L.add(st["p"]["l"])
                                changed = True
                    for bj, tj in b.calls():
                        nj = callee_names(tj)
                        tl = nj[-1].rsplit("::", 1)[-1] if nj else ""
                        if tl in ("into_future", "new_unchecked", "as_mut", "instrument") and tj["args"] and tj["args"][0]["k"] != "const" and tj["args"][0]["p"]["l"] in L and tj["d"]["l"] not in L:
                            L.add(tj["d"]["l"])
                            changed = True
                for bj, tj in b.calls():
                    nj = callee_names(tj)
                    if nj and any(x.endswith("Future::poll") for x in nj) and tj["args"] and tj["args"][0]["k"] != "const" and tj["args"][0]["p"]["l"] in L and tj["t"] is not None:
                        sw = b.blocks[tj["t"]]["t"]
                        if sw["k"] == "switch":
                            tm = {str(v): tb for v, tb in sw["ts"]}
                            if "0" in tm:
                                ready.append((tj["t"], tm["0"]))
            for bi, what in rms:
                n_rm += 1
                fn = b.owner.rsplit("::", 1)[-1]
                if any(b.edge_dominates(s_, d_, bi) for (s_, d_) in ready):
                    res.ok("R9.handle", "%s|%s" % (fn, what), where(b, bi), "the handle is removed only after `PolicyState::start().await` of its state machine has completed")
                else:
                    res.bad("R9.handle", "%s|%s" % (fn, what), "`%s` on the table of state-machine handles is not preceded by the completion of that machine's `start()`: the handle of a computation that may still be running is dropped, "
                            "so later /run, /consts and /msg requests of its peers are answered with UnknownComputationId" % what, where(b, bi))
        res.need("R9.handle", "handle_table_operations", n_map, 5, "operations on the HashMap of PolicyStateHandles in polytune-http-server")
        res.need("R9.handle", "handle_removals", n_rm, 1, "removals from the table of handles")


    # reviewed sets of states in which a command is accepted (every other state is answered by the fallback arm)
    ACCEPT = {
        "validate": {"Init", "AwaitingValidation"},
        "run": {"Validated", "Running"},
        "consts": {"Validated", "SendingConsts", "SendingConstsCompleted"},
        "internal_consts_sent": {"SendingConsts"},
    }

    def accept_rules(self):
        """R9.accept: a command is accepted in exactly the reviewed states; adding a state to an accepting arm
        (e.g. `consts` while Running: a stray request overwrites constants that have already been counted)
        changes a run under way."""
        res = self.res
        for name, want in self.ACCEPT.items():
            h = self.hs.get(name)
            if not h or not h.user or not h.switch:
                continue
            k, b = h.user
            bi, tm, other, via, p = h.switch
            if other is None:
                continue
            got = {st for st in STATES if st in tm and tm[st] != other}
            if got == want:
                res.ok("R9.accept", name, where(b, bi), "accepted in %s, every other state goes to the fallback arm" % sorted(got))
            else:
                extra, missing = got - want, want - got
                res.bad("R9.accept", name, "the set of states in which `%s` is accepted changed: %s%s" % (name, ("also accepted in %s " % sorted(extra)) if extra else "", ("no longer accepted in %s" % sorted(missing)) if missing else ""), where(b, bi))

    def consts_count_rules(self):
        """R9.consts: the party starts (state Running) exactly when it holds constants of as many parties as
        the program depends on: check_consts compares the two counts with `==`, and insert_consts adds
        an entry only for a non-empty constants map (an empty entry would be counted as a supplier)."""
        res = self.res
        fg = self.fg
        h = self.hs.get("check_consts")
        if h and h.user:
            found = None
            for k, b in h.bodies.items():
                for bi, blk in enumerate(b.blocks):
                    for st in blk["s"]:
                        if st["k"] == "assign" and st["r"]["k"] == "bin" and st["r"]["op"] in ("Eq", "Ne", "Ge", "Gt", "Le", "Lt") and blk["t"]["k"] == "switch":
                            lens = 0
                            for o in (st["r"]["a"], st["r"]["b"]):
                                if o["k"] == "const" or o["p"]["pr"]:
                                    continue
                                d = defs_of(b, o["p"]["l"])
                                if len(d) == 1 and d[0][1] == "t" and callee_names(d[0][2]) and callee_names(d[0][2])[-1].rsplit("::", 1)[-1] == "len":
                                    lens += 1
                            if lens == 2:
                                found = (b, bi, st["r"]["op"])
            if not found:
                res.bad("R9.consts", "check_consts|count", "cannot locate the comparison of the number of received constants with the number the program depends on", fl(h.user[1].span))
            elif found[2] not in ("Eq", "Ne"):
                res.bad("R9.consts", "check_consts|count", "the readiness test is `%s`, not an equality of the two counts: the party can start before the constants of every supplier have arrived (entries of non-suppliers, or surplus entries, make up the number)" % found[2], where(found[0], found[1]))
            else:
                res.ok("R9.consts", "check_consts|count", where(found[0], found[1]), "Running is entered when consts.len() == const_deps.len()")
        h = self.hs.get("insert_consts")
        if h and h.user:
            k, b = [(k_, b_) for k_, b_ in h.bodies.items() if any(callee_names(t_) and callee_names(t_)[-1].rsplit("::", 1)[-1] == "insert" for _bi, t_ in b_.calls())][:1] and [(k_, b_) for k_, b_ in h.bodies.items() if any(callee_names(t_) and callee_names(t_)[-1].rsplit("::", 1)[-1] == "insert" for _bi, t_ in b_.calls())][0] or h.user
            ins = [bi for bi, t in b.calls() if callee_names(t) and callee_names(t)[-1].rsplit("::", 1)[-1] == "insert" and "HashMap" in (t["args"][0]["p"]["ty"] if t["args"] and t["args"][0]["k"] != "const" else "")]
            emp = [bi for bi, t in b.calls() if callee_names(t) and callee_names(t)[-1].rsplit("::", 1)[-1] == "is_empty"]
            guarded = False
            for e_ in emp:
                sw = b.blocks[e_]["t"].get("t")
                for _ in range(3):
                    if sw is None:
                        break
                    tt = b.blocks[sw]["t"]
                    if tt["k"] == "switch":
                        tg = [tb for _v, tb in tt["ts"]] + [tt["else"]]
                        if any(all(i_ in b.reachable_from(x) for i_ in ins) for x in tg) and any(not any(i_ in b.reachable_from(x) for i_ in ins) for x in tg):
                            guarded = True
                        break
                    sw = tt.get("t") if tt["k"] == "goto" else None
            if ins and guarded:
                res.ok("R9.consts", "insert_consts|non-empty", where(b, ins[0]), "an entry is inserted only for a non-empty constants map")
            elif ins:
                res.bad("R9.consts", "insert_consts|non-empty", "insert_consts records an entry for an empty constants map: a party without constants is counted as a supplier and check_consts starts the computation before the real constants arrived", where(b, ins[0]))
            else:
                res.bad("R9.consts", "insert_consts|non-empty", "cannot locate the insertion into the constants table", fl(b.span))

    def http_error_rules(self):
        """R9.http-err (HTTP layer): a route never turns an error of the state machine into a success
        response: if the Result of the handle call is matched at all, its Err arm cannot reach an
        `Ok(..)` of the route (the leader would otherwise go on with a follower that refused)."""
        res = self.res
        prog = self.prog
        n = 0
        for k, b in prog.bodies.items():
            if b.krate != "polytune_http_server" or "::api::" not in b.owner:
                continue
            for bi, t in b.calls():
                names = callee_names(t)
                if not names or not any("handle::PolicyStateHandle::" in x for x in names) or bi not in b.live_blocks():
                    continue
                meth = [x for x in names if "handle::PolicyStateHandle::" in x][0].rsplit("::", 1)[-1]
                if meth in ("cancel", "clone"):
                    continue
                n += 1
                inst = "%s|%s" % (b.owner.rsplit("::", 1)[-1], meth)
                # locals holding the awaited Result: type Result<(), HandleError<..>>
                rl = {i for i, l in enumerate(b.locals) if l["ty"].startswith("core::result::Result<(), polytune_server_core::handle::HandleError")}
                badsw = None
                for bj, blk in enumerate(b.blocks):
                    tt = blk["t"]
                    if tt["k"] != "switch" or tt["o"]["k"] == "const" or bj not in b.live_blocks():
                        continue
                    for st in blk["s"]:
                        if st["k"] == "assign" and st["r"]["k"] == "discr" and st["p"]["l"] == tt["o"]["p"]["l"] and st["r"]["p"]["l"] in rl and not st["r"]["p"]["pr"]:
                            tm = {str(v): tb for v, tb in tt["ts"]}
                            err_t = tm.get("1", tt["else"] if "0" in tm else None)
                            if err_t is not None and not edge_fail_closed(b, bj, err_t)[0]:
                                badsw = bj
                if badsw is not None:
                    res.bad("R9.http-err", inst, "the route can answer with success although the state machine returned an error for `%s`: the caller (the leader) goes on with a party that refused the command" % meth, where(b, badsw))
                else:
                    res.ok("R9.http-err", inst, where(b, bi), "an error of the state machine is never converted into a success response")
        res.need("R9.http-err", "route_handle_calls", n, 4, "calls of PolicyStateHandle methods in the HTTP routes")


    def cancel_arm_rules(self):
        """R9.cancel handle_cmd|Cancel-only: between the Cancel arm of handle_cmd and the call of cancel()
        nothing touches the actor (e.g. closing the per-peer queues makes the running MPC fail with a
        channel error that races with the cancel notice)."""
        res = self.res
        h = self.hs.get("handle_cmd")
        if not h or not h.user:
            return
        k, b = h.user
        ce = h.evs(K("handler", "cancel"))
        if not ce:
            return
        cb = ce[0].block
        # blocks from which the cancel call is reached and that are not shared with another handler call
        others = {e.block for e in h.evs(K("handler")) if e.block != cb}
        pre = {x for x in b.reachable_from(0) if cb in b.reachable_from(x) and x != cb and not any(o in b.reachable_from(x) for o in others)}
        touched = None
        for x in sorted(pre):
            t = b.blocks[x]["t"]
            if t["k"] == "call" and t["args"] and t["args"][0]["k"] != "const" and t["args"][0]["p"]["ty"].startswith("&mut ") and x in b.live_blocks():
                nm = callee_names(t)
                fo = field_origin(b, t["args"][0])
                if fo and fo[0].startswith("PolicyState") and nm and not nm[-1].endswith("::cancel"):
                    touched = (x, fo[1], nm[-1].rsplit("::", 1)[-1])
            for st in b.blocks[x]["s"]:
                if st["k"] == "assign" and st["p"]["pr"]:
                    fl_ = [e for e in st["p"]["pr"] if isinstance(e, dict) and e.get("n") and "PolicyState" in (e.get("a") or "")]
                    if fl_:
                        touched = (x, fl_[-1]["n"], "assignment")
        if touched:
            res.bad("R9.cancel", "handle_cmd|Cancel-only", "the Cancel arm changes `self.%s` (%s) before cancel() runs: the running computation is disturbed while it is being cancelled (e.g. closing the message queues makes the MPC task report a channel error instead of, or in a race with, the cancel notice)" % (touched[1], touched[2]), where(b, touched[0]))
        else:
            res.ok("R9.cancel", "handle_cmd|Cancel-only", where(b, cb), "the Cancel arm calls cancel() without touching the actor first")

    def cancel_all_rules(self):
        """R9.cancel-all (HTTP layer): cancel_all waits for every spawned cancel request: the loop over
        JoinSet::join_next is left only when the set is exhausted - an early return (`?`) drops the
        JoinSet, which aborts the cancel requests still in flight."""
        res = self.res
        prog = self.prog
        found = False
        for k, b in prog.bodies.items():
            if b.krate != "polytune_http_server" or "cancel_all" not in b.owner:
                continue
            jn = [bi for bi, t in b.calls() if any(x.endswith("JoinSet::<T>::join_next") or x.endswith("::join_next") for x in callee_names(t)) and bi in b.live_blocks()]
            if not jn:
                continue
            found = True
            # natural loop containing the join_next call
            loops = []
            succ = b.succ()
            for x in b.live_blocks():
                for y in succ[x]:
                    if b.dominates(y, x):
                        body = {y}
                        stack = [x]
                        while stack:
                            z = stack.pop()
                            if z in body:
                                continue
                            body.add(z)
                            stack.extend(b.pred()[z])
                        loops.append((y, body))
            lp = [body for hd, body in loops if jn[0] in body]
            if not lp:
                res.bad("R9.cancel-all", "cancel_all|loop", "join_next is not awaited in a loop: only the first cancel request is waited for", where(b, jn[0]))
                continue
            body = max(lp, key=len)
            exits = []
            for x in body:
                if b.blocks[x].get("cleanup"):
                    continue
                for y in succ[x]:
                    if y not in body and not b.blocks[y].get("cleanup") and b.blocks[y]["t"]["k"] not in ("unreachable",):
                        exits.append((x, y))
            # the legitimate exit: the None arm of the join_next result; others are early returns; yields are
            # suspension points of the await, not exits
            early = []
            for (x, y) in exits:
                t = b.blocks[x]["t"]
                if t["k"] == "yield":
                    continue
                is_none_arm = False
                if t["k"] == "switch":
                    for st in b.blocks[x]["s"]:
                        if st["k"] == "assign" and st["r"]["k"] == "discr" and st["p"]["l"] == (t["o"]["p"]["l"] if t["o"]["k"] != "const" else -1):
                            ty = b.locals[st["r"]["p"]["l"]]["ty"]
                            if ty.startswith("core::option::Option<core::result::Result<") and "JoinError" in ty:
                                tm = {str(v): tb for v, tb in t["ts"]}
                                none_t = tm.get("0", t["else"])
                                if y == none_t:
                                    is_none_arm = True
                if not is_none_arm and "drop" != t["k"]:
                    early.append((x, y))
            early = [e for e in early if b.blocks[e[0]]["t"]["k"] in ("switch", "goto", "call")]
            if early:
                res.bad("R9.cancel-all", "cancel_all|loop", "the loop over JoinSet::join_next can be left before the set is exhausted (an early return / `?`): dropping the JoinSet aborts the cancel requests that are still in flight, so cancel() returns while computations are still being cancelled and their destinations are notified afterwards or never", where(b, early[0][0]))
            else:
                res.ok("R9.cancel-all", "cancel_all|loop", where(b, jn[0]), "the join_next loop is left only when every cancel request has finished")
        if not found:
            res.bad("R9.cancel-all", "cancel_all|loop", "cannot locate the JoinSet::join_next loop of PolytuneState::cancel_all")

    PANIC_OK = {
        ("schedule", "expect"): "acquire_owned on a semaphore checked not-closed in new(); send on own cmd queue whose receiver the actor holds",
        ("check_consts", "expect"): "channel_receivers initialised by init_channel in schedule before any path to check_consts; send on own cmd queue",
        ("internal_consts_sent", "panic"): "arm proven unreachable by R9.unreachable",
        ("run", "panic_fmt"): "tokio::select! internal `unreachable!` branch bookkeeping",
    }

    def panic_rules(self):
        res = self.res
        seen = defaultdict(int)
        spans = set()
        for name, h in self.hs.items():
            for k, evs in h.events.items():
                for e in evs:
                    if e.kind == "panic" and not (e.nested and k != h.user[0] and False):
                        # one source site is one call, however many bodies / block copies show it
                        if (name, e.detail, e.nested or "", e.sp) in spans:
                            continue
                        spans.add((name, e.detail, e.nested or "", e.sp))
                        if not e.nested and (name, e.detail, "*", e.sp) in spans:
                            continue
                        spans.add((name, e.detail, "*", e.sp))
                        seen[(name, e.detail, e.nested or "")] += 1
        for (name, det, nested), c in sorted(seen.items()):
            if nested and (name, det, "") in seen:
                pass
            if (name, det) in self.PANIC_OK:
                res.ok("R9.panic", "%s|%s%s" % (name, det, nested), "", "reviewed: " + self.PANIC_OK[(name, det)])
            else:
                res.bad("R9.panic", "%s|%s%s" % (name, det, nested), "panic-capable call `%s` in the state machine is not in the reviewed table (a stray command could crash the actor)" % det)
        # expected count per reviewed key must not grow
        limits = {("schedule", "expect"): 2, ("check_consts", "expect"): 2, ("internal_consts_sent", "panic"): 1}
        agg = defaultdict(int)
        for (name, det, nested), c in seen.items():
            if not nested:
                agg[(name, det)] += c
        for key, lim in limits.items():
            if agg.get(key, 0) > lim:
                res.bad("R9.panic", "%s|%s|count" % key, "%d panic-capable `%s` calls in %s, reviewed: %d" % (agg[key], key[1], key[0], lim))

    def internal_consts_unreachable(self):
        res = self.res
        # (i) constructed only in run, after the state is SendingConsts
        ok = True
        n = 0
        for name, h in self.hs.items():
            k, b = h.user
            for e in h.evs(K("self_cmd", "InternalConstsSent")):
                n += 1
                if name != "run":
                    res.bad("R9.unreachable", "InternalConstsSent|%s" % name, "PolicyCmd::InternalConstsSent is sent from %s" % name, fl(e.sp))
                    ok = False
                else:
                    ss = h.evs(K("set_state", "SendingConsts"))
                    if not ss or not b.dominates(ss[0].block, e.block):
                        res.bad("R9.unreachable", "InternalConstsSent|order", "InternalConstsSent can be queued before the state is SendingConsts", fl(e.sp))
                        ok = False
        res.need("R9.unreachable", "InternalConstsSent_sites", n, 1, "sites queuing PolicyCmd::InternalConstsSent")
        # (ii) nobody else leaves SendingConsts
        for name in ("schedule", "validate", "run", "consts"):
            h = self.hs.get(name)
            if not h or not h.switch:
                continue
            for sw in h.switches:
                ent, ex = h.arm("SendingConsts", sw)
                if ent is None:
                    continue
                reg = self.dom_region(h, ent)
                st = [e for e in h.events_in(reg, K("set_state")) if not e.detail.startswith("restore")]
                if st:
                    res.bad("R9.unreachable", "SendingConsts|%s" % name, "%s leaves SendingConsts (-> %s): InternalConstsSent could then hit the panic arm" % (name, st[0].detail), fl(st[0].sp))
                    ok = False
        if ok:
            res.ok("R9.unreachable", "internal_consts_sent|panic-arm", "", "InternalConstsSent is only queued by run×Validated after SendingConsts is set; no other handler leaves SendingConsts")

    # ============================================================ C15
    def c15(self):
        res = self.res
        h = self.h("handle_cmd")
        if h:
            k, b = h.user
            ce = h.evs(K("handler", "cancel"))
            if not ce:
                res.bad("R9.cancel", "handle_cmd|Cancel", "handle_cmd does not call cancel")
            else:
                e = ce[0]
                brk = self.blocks(h, K("flow", "Break"))
                if h.every_path_hits(e.block, brk) and not (self.dom_region(h, e.block) & self.blocks(h, CONT)):
                    res.ok("R9.cancel", "handle_cmd|Cancel->Break", fl(e.sp), "after cancel() the actor loop always breaks")
                else:
                    res.bad("R9.cancel", "handle_cmd|Cancel->Break", "after cancel() the state machine may keep processing commands", fl(e.sp))
        h = self.h("cancel")
        if h:
            k, b = h.user
            if b.locals[1]["ty"].startswith("&") if False else False:
                pass
            # consumes self by value
            root = [bb for bb in h.bodies.values() if bb.id == h.owner]
            if root and root[0].locals[1]["ty"].startswith("polytune_server_core::state::PolicyState<"):
                res.ok("R9.cancel", "cancel|by-value", fl(root[0].span), "cancel consumes the actor: a permit still held by it is dropped on return")
            else:
                res.bad("R9.cancel", "cancel|by-value", "cancel does not consume the actor by value (a held permit would survive)", fl(b.span))
            if not h.switch:
                res.bad("R9.cancel", "cancel|match", "cancel does not match on the state")
                return
            bi, tm, other, via, p = h.switch
            sc_blocks = self.blocks(h, K("send_cancel"))
            reply_blocks = self.blocks(h, lambda e: e.kind in ("reply_ok", "reply_err", "reply"))
            for st in STATES:
                ent, ex = h.arm(st)
                inst = "cancel×%s" % st
                if ent is None:
                    res.bad("R9.cancel", inst, "state %s is not handled by cancel" % st, where(b, bi))
                    continue
                if not h.every_path_hits(ent, reply_blocks):
                    res.bad("R9.cancel", inst, "a path through this arm returns without answering the cancel request", where(b, ent))
                    continue
                if st in ("Init", "ValidateRequested"):
                    if b.reachable_from(ent) & sc_blocks:
                        res.bad("R9.cancel", inst, "no client / policy exists in this state, yet send_cancel is reached", where(b, ent))
                    else:
                        res.ok("R9.cancel", inst, where(b, ent), "reply without notification (no policy scheduled yet)")
                elif st == "Executing":
                    if b.reachable_from(ent) & sc_blocks:
                        res.bad("R9.cancel", inst, "cancel notifies the destination itself although the MPC task does (two notifications)", where(b, ent))
                    else:
                        nt = h.events_in(b.reachable_from(ent), K("notify"))
                        if not nt:
                            res.bad("R9.cancel", inst, "the running MPC task is not signalled", where(b, ent))
                        elif any(e.extra == "notify_waiters" for e in nt):
                            # tokio: notify_waiters() wakes only tasks that are already waiting and stores no permit;
                            # the MPC task may not have reached (or been polled into) its `notified()` yet
                            res.bad("R9.cancel", inst, "the MPC task is signalled with notify_waiters(): a task that has not registered its wait yet (cancel right after the spawn) never sees the signal, the run continues and cancel waits for its natural end", where(b, ent),
                                    key="R9.cancel|cancel×Executing|notify_waiters")
                        else:
                            res.ok("R9.cancel", inst, where(b, ent), "signals the MPC task, which sends the notification")
                else:
                    # arms that own a client: send_cancel exactly once before replying Ok
                    # (a reply that forwards a Result of unknown variant - `ret.send(send_cancel(..).await)` - may be Ok)
                    okr = self.blocks(h, K("reply_ok")) | self.blocks(h, K("reply"))
                    reach = b.reachable_from(ent)
                    ok_reach = reach & okr
                    once = len(sc_blocks) == 1 or all(not (s2 in b.reachable_from(b.succ()[s1][0]) if b.succ()[s1] else False) for s1 in sc_blocks for s2 in sc_blocks)
                    # every Ok reply reachable from this arm is dominated-on-path by send_cancel
                    need = all(not (b.reachable_from(ent, frozenset(sc_blocks)) & {o}) for o in ok_reach)
                    if need and once and ok_reach:
                        res.ok("R9.cancel", inst, where(b, ent), "send_cancel exactly once before the Ok reply")
                    else:
                        res.bad("R9.cancel", inst, "cancel can answer Ok without (exactly one) notification of the output destination", where(b, ent))
            # the notification is sent with the one client of the policy: cancel never builds a second
            # one (the first could still be used by a background task -> a second message afterwards);
            # in SendingConsts it waits for the consts task to hand the client back
            nc = h.evs(K("new_client"))
            if nc:
                res.bad("R9.cancel", "cancel|single-client", "cancel creates a new client: the policy's own client can still be in use by a background task (sending constants), which may notify the destination after cancel has returned", fl(nc[0].sp))
            else:
                res.ok("R9.cancel", "cancel|single-client", fl(b.span), "cancel notifies through the client owned by the state, never a new one")
            ent, ex = h.arm("SendingConsts")
            if ent is not None:
                reg = b.reachable_from(ent, frozenset(x for x in (ex or []) if x is not None)) if isinstance(ex, (list, set, tuple)) else b.reachable_from(ent)
                polls = {bi for bi, t in b.calls() if bi in reg and any(x.endswith("Future::poll") for x in callee_names(t)) and t["args"] and t["args"][0]["k"] != "const" and "oneshot::Receiver" in t["args"][0]["p"]["ty"]}
                trys = [bi for bi, t in b.calls() if bi in reg and any(x.endswith("oneshot::Receiver::<T>::try_recv") or x.endswith("::try_recv") for x in callee_names(t))]
                scb = sc_blocks & reg
                waits = bool(polls) and all(not (b.reachable_from(ent, frozenset(polls)) & {x}) for x in scb)
                if waits and not trys:
                    res.ok("R9.cancel", "cancel×SendingConsts|client-returned", where(b, ent), "the client is awaited from the consts-sending task before the notification is sent")
                else:
                    res.bad("R9.cancel", "cancel×SendingConsts|client-returned", "cancel does not wait for the consts-sending task to hand the client back (%s): that task can still report to the destination after cancel returned" % ("try_recv" if trys else "no await of the oneshot receiver before send_cancel"), where(b, ent))
        # the MPC task: cancel branch = notified -> send_cancel (once) -> notify
        hr = self.h("run")
        if hr:
            fut, mpcf = self.task_bodies(hr)
            if fut is None:
                res.bad("R9.cancel", "task|select", "cannot locate the spawned future of run×Running")
            else:
                k, b = fut
                evs = [e for e in hr.events[k] if not e.nested]
                nd = [e for e in evs if e.kind == "notified"]
                sc = [e for e in evs if e.kind == "send_cancel"]
                nf = [e for e in evs if e.kind == "notify"]
                # what cancel() signals / waits for in state Executing
                hc = self.hs.get("cancel")
                c_sig, c_wait = set(), set()
                # identity of a Notify = the field of the Executing state it is stored in (independent of
                # how the locals are called on either side)
                fmap = executing_field_names(self.hs)
                canon = lambda nm: fmap.get((nm or "").split(".")[-1], nm)
                for e in nd + nf:
                    e.detail = canon(e.detail)
                if hc and hc.user:
                    cevs = [e for e in hc.events[hc.user[0]] if not e.nested]
                    c_sig = {canon(e.detail) for e in cevs if e.kind == "notify"}
                    c_wait = {canon(e.detail) for e in cevs if e.kind == "notified"}
                if nd and len(sc) == 1 and any(b.dominates(x.block, sc[0].block) or True for x in nd):
                    res.ok("R9.cancel", "task|cancel-branch", fl(sc[0].sp), "on cancel: exactly one send_cancel in the task")
                else:
                    res.bad("R9.cancel", "task|cancel-branch", "the MPC task's cancel branch must wait for the cancel signal and call send_cancel exactly once", fl(b.span))
                # handshake: the task listens to what cancel() signals, and signals what cancel() waits for on
                # *every* path to its end (after a cancellation and after a normal completion: otherwise a
                # cancel that races with the end of the computation waits forever)
                t_wait = {e.detail for e in nd}
                t_sig = {e.detail for e in nf}
                rets = {bi for bi, blk in enumerate(b.blocks) if blk["t"]["k"] == "return" and bi in b.live_blocks()}
                back = [e for e in nf if e.detail in c_wait]
                if not (c_sig & t_wait):
                    res.bad("R9.cancel", "task|handshake", "cancel() signals %s but the MPC task waits for %s: the task is never told to stop" % (sorted(c_sig), sorted(t_wait)), fl(b.span))
                elif any(e.extra == "notify_waiters" for e in back):
                    res.bad("R9.cancel", "task|handshake", "the MPC task signals its completion with notify_waiters(): a cancel() that has not reached its `notified().await` yet never sees it and waits forever", fl(back[0].sp),
                            key="R9.cancel|task|handshake|notify_waiters")
                elif not back:
                    res.bad("R9.cancel", "task|handshake", "cancel() waits for %s but the MPC task only signals %s: cancel never returns" % (sorted(c_wait), sorted(t_sig)), fl(b.span))
                elif b.reachable_from(0, frozenset(e.block for e in back)) & rets:
                    res.bad("R9.cancel", "task|handshake", "the MPC task can end without signalling `%s`, which cancel() waits for (e.g. after a normal completion): a cancel that arrives at that moment never returns" % back[0].detail, fl(back[0].sp))
                elif any(o.block in b.reachable_from(x.block) for o in evs if o.kind == "send_cancel" or (o.kind == "client" and o.detail == "output") for x in back):
                    res.bad("R9.cancel", "task|handshake", "the completion signal `%s` can be sent before the task has finished talking to the output destination (cancel notice or result): cancel() would return while a message is still to come" % back[0].detail, fl(back[0].sp))
                else:
                    res.ok("R9.cancel", "task|handshake", fl(back[0].sp), "the task waits for `%s`, and signals `%s` on every path to its end, after the cancel notice" % (sorted(c_sig & t_wait)[0], back[0].detail))
                # the mpc future and the cancel branch are alternatives of one select (mpc future is
                # dropped when cancel wins): both awaited in the same body
                if mpcf and any(s["k"] == "assign" and s["r"]["k"] == "agg" and s["r"].get("def") == mpcf[1].id for blk in b.blocks for s in blk["s"]):
                    res.ok("R9.cancel", "task|select", fl(b.span), "the MPC future is owned by the task body that also waits for cancellation")
                else:
                    res.bad("R9.cancel", "task|select", "the MPC future is not raced against the cancel signal in one task", fl(b.span))
        self.cancel_arm_rules()
        self.cancel_all_rules()
        self.notify_rules()

    def notify_rules(self):
        """A body that both signals and awaits the same Notify can consume its own wake-up."""
        res = self.res
        n = 0
        for name, h in self.hs.items():
            for k, b in h.bodies.items():
                evs = [e for e in h.events[k] if not e.nested]
                sig = {e.detail for e in evs if e.kind == "notify"}
                wait = {e.detail for e in evs if e.kind == "notified"}
                n += len(sig) + len(wait)
                both = sig & wait
                if both:
                    role = "task" if k != h.user[0] else name
                    ev = [e for e in evs if e.kind == "notify"][0]
                    res.bad("R9.notify", "%s|%s" % (name, "Executing" if role == name else "mpc-task"),
                            "the tokio::sync::Notify `%s` is used in both directions in this body (notify_one and notified().await): a notify_one permit stored by the own call can satisfy the own notified(), so the wait may return before the other side acted" % sorted(both)[0],
                            fl(ev.sp), key="R9.notify|state::%s|%s" % (name, "Executing" if role == name else "mpc-task"))
        res.count("notify_operations", n)
        if not [v for v in res.violations if v["rule"] == "R9.notify"]:
            res.ok("R9.notify", "all-bodies", "", "%d Notify operations: no body signals and awaits the same Notify" % n)

    # ============================================================ C16
    def program_hash_rule(self):
        """R9.compat|program-hash: the hash the parties compare is computed over the unmodified bytes
        of the program text (injective up to hash collisions): in Policy::program_hash the `program`
        field is only viewed as bytes and handed to the hash function, never transformed first."""
        res = self.res
        fg = self.fg
        fam = [(k, b) for k, b in fg.bodies.items() if b.owner.endswith("policy::Policy::program_hash")]
        if not fam:
            res.bad("R9.compat", "program_hash", "cannot locate Policy::program_hash")
            return
        VIEW = {"as_bytes", "deref", "as_str", "borrow", "as_ref", "as_slice", "clone", "to_owned", "into_bytes", "to_string", "into"}
        hashed = None
        transformed = None
        for k, b in fam:
            # locals that hold (views of) the program text
            prog = set()
            changed = True
            while changed:
                changed = False
                for blk in b.blocks:
                    for st in blk["s"]:
                        if st["k"] != "assign" or st["p"]["pr"] or st["p"]["l"] in prog:
                            continue
                        r = st["r"]
                        pl = r["p"] if r["k"] in ("ref", "rawptr") else (r["o"]["p"] if r["k"] == "use" and r["o"]["k"] != "const" else None)
                        if pl is None:
                            continue
                        fl_ = [e for e in pl["pr"] if isinstance(e, dict) and e.get("n")]
                        if (fl_ and fl_[-1]["n"] == "program" and "Policy" in (fl_[-1].get("a") or "")) or (pl["l"] in prog):
                            prog.add(st["p"]["l"])
                            changed = True
                for bi, t in b.calls():
                    cn = callee_names(t)
                    tl = cn[-1].rsplit("::", 1)[-1] if cn else ""
                    if tl in VIEW and t["args"] and t["args"][0]["k"] != "const" and t["args"][0]["p"]["l"] in prog and t["d"]["l"] not in prog:
                        prog.add(t["d"]["l"])
                        changed = True
            for bi, t in b.calls():
                cn = callee_names(t)
                if not cn or bi not in b.live_blocks():
                    continue
                tl = cn[-1].rsplit("::", 1)[-1]
                uses = [a for a in t["args"] if a["k"] != "const" and a["p"]["l"] in prog]
                if not uses:
                    continue
                if any("blake3" in n and n.rsplit("::", 1)[-1] in ("hash", "update", "keyed_hash", "derive_key") for n in cn) or any("Digest" in n and n.endswith("update") for n in cn):
                    hashed = hashed or (b, bi)
                elif tl not in VIEW:
                    transformed = transformed or (b, bi, cn[-1])
        if transformed:
            b, bi, nm = transformed
            res.bad("R9.compat", "program_hash", "Policy::program_hash transforms the program text (%s) before hashing it: two different programs can have the same hash and are then accepted as compatible" % nm, where(b, bi))
        elif not hashed:
            res.bad("R9.compat", "program_hash", "Policy::program_hash does not hash the bytes of the program field", fl(fam[0][1].span))
        else:
            res.ok("R9.compat", "program_hash", where(hashed[0], hashed[1]), "the hash is computed over the unmodified bytes of Policy.program")

    def c16(self):
        res = self.res
        self.program_hash_rule()
        self.http_error_rules()
        n_cmp = 0
        for name, arm, swv in (("validate", "AwaitingValidation", None), ("schedule", "ValidateRequested", "ValidateRequested")):
            h = self.h(name)
            if not h:
                continue
            sw = h.switch_with(swv, "Init") if swv else h.switch
            ent, ex = h.arm(arm, sw)
            k, b = h.user
            if ent is None or not ex:
                res.bad("R9.compat", "%s×%s" % (name, arm), "arm not found")
                continue
            reg = self.dom_region(h, ent)
            cmps = self.compare_sites(h, reg)
            kinds = {c[0] for c in cmps}
            for want in ("leader", "program_hash"):
                if want not in kinds:
                    res.bad("R9.compat", "%s×%s|%s" % (name, arm, want), "the %s of the validate request is not compared with the scheduled policy in this arm" % want, where(b, ent))
            v = h.events_in(reg, K("set_state", "Validated"))
            oks = h.events_in(reg, K("reply_ok"))
            for what, bi, bad_t, good_t in cmps:
                n_cmp += 1
                inst = "%s×%s|%s" % (name, arm, what)
                bad_reach = b.reachable_from(bad_t)
                probs = []
                if any(e.block in bad_reach for e in v):
                    probs.append("mismatch can still reach Validated")
                if any(e.block in bad_reach for e in oks):
                    probs.append("mismatch can still be answered Ok")
                brk = self.blocks(h, K("flow", "Break"))
                if not h.every_path_hits(bad_t, brk):
                    probs.append("mismatch does not stop the state machine")
                re_ = self.blocks(h, K("reply_err", "ValidateError"))
                if not h.every_path_hits(bad_t, re_):
                    probs.append("the validate caller is not answered with an error")
                if v and not all(b.edge_dominates(bi, good_t, e.block) for e in v):
                    probs.append("Validated is reachable without passing this comparison")
                if probs:
                    res.bad("R9.compat", inst, "; ".join(probs), where(b, bi))
                else:
                    res.ok("R9.compat", inst, where(b, bi), "mismatch edge: error reply, Break, never Validated / Ok; equal edge dominates Validated")
        res.need("R9.compat", "compat_comparisons", n_cmp, 4, "leader / program-hash comparisons of the validate rendezvous")
        # Validated sites
        allv = []
        for name, h in self.hs.items():
            for e in h.evs(K("set_state", "Validated")):
                allv.append((name, e))
        res.count("Validated_assignments", len(allv))
        for name, e in allv:
            if name not in ("schedule", "validate"):
                res.bad("R9.compat", "Validated|%s" % name, "state Validated is assigned in %s" % name, fl(e.sp))
        # leader: Validated only after all followers validated
        h = self.h("schedule")
        if h:
            k, b = h.user
            lead, foll = self.leader_branches(h)
            if lead is not None:
                reg = self.dom_region(h, lead)
                cv = h.events_in(reg, K("client", "validate"))
                js = sorted(h.events_in(reg, K("join_all")), key=lambda e: e.block)
                v = h.events_in(reg, K("set_state", "Validated"))
                ro = h.events_in(reg, K("reply_ok", "ScheduleError"))
                if cv and js and v:
                    j, ee = self.join_result_edge(h, cv[0], js)
                    if not ee:
                        res.bad("R9.compat", "schedule|leader|validate-join", "cannot find the test of the joined validate results", fl(j.sp))
                    else:
                        sb, err_t, ok_t = ee
                        bad_reach = b.reachable_from(err_t)
                        probs = []
                        if v[0].block in bad_reach or any(e.block in bad_reach for e in ro):
                            probs.append("a failed follower validation can still reach Validated / reply Ok")
                        if not h.every_path_hits(err_t, self.blocks(h, K("flow", "Break"))):
                            probs.append("a failed follower validation does not stop the policy")
                        if not h.every_path_hits(err_t, self.blocks(h, K("reply_err", "ScheduleError"))):
                            probs.append("the schedule caller is not answered with an error")
                        if not b.edge_dominates(sb, ok_t, v[0].block) or not all(b.edge_dominates(sb, ok_t, e.block) for e in ro):
                            probs.append("Validated / reply Ok not dominated by the success of all validate calls")
                        # every follower is asked: the fan-out iterates other_parties()
                        if probs:
                            res.bad("R9.compat", "schedule|leader|validate-join", "; ".join(probs), where(b, sb))
                        else:
                            res.ok("R9.compat", "schedule|leader|validate-join", where(b, sb), "Err edge: error reply + Break; Ok edge dominates reply Ok and Validated")
                    self.fanout_all_parties(h, cv[0], "validate")
            # type check first
            tc = self.first_where(h, K("typecheck"))
            if tc is None:
                res.bad("R9.compat", "schedule|typecheck", "schedule does not call garble_lang::check")
            else:
                late = [e for e in h.evs(lambda e: e.kind in ("init_channel", "new_client", "client", "set_state", "reply_ok", "acquire", "self_cmd", "permit_store")) if not b.dominates(tc.block, e.block)]
                if late:
                    res.bad("R9.compat", "schedule|typecheck-first", "%s happens before the program is type-checked" % late[0].kind, fl(late[0].sp))
                else:
                    res.ok("R9.compat", "schedule|typecheck-first", fl(tc.sp), "garble_lang::check dominates every effect of schedule")
                # Err edge of check: error reply and Break, never an effect
                ip = [e for e in h.evs(K("reply_err")) if e.extra and "InvalidProgram" in e.extra]
                if not ip:
                    res.bad("R9.compat", "schedule|typecheck-err", "an ill-typed program is not answered with ScheduleError::InvalidProgram")
                else:
                    e = ip[0]
                    dr = self.dom_region(h, e.block)
                    eff = h.events_in(b.reachable_from(e.block), lambda x: x.kind in ("init_channel", "new_client", "client", "set_state", "reply_ok", "acquire", "self_cmd"))
                    if eff or not h.every_path_hits(e.block, self.blocks(h, K("flow", "Break"))):
                        res.bad("R9.compat", "schedule|typecheck-err", "after an ill-typed program the policy is not refused outright", fl(e.sp))
                    else:
                        res.ok("R9.compat", "schedule|typecheck-err", fl(e.sp), "InvalidProgram reply, Break, no effect")
        # mpc only from run×Running
        n_mpc = 0
        for name, h in self.hs.items():
            for k, evs in h.events.items():
                for e in evs:
                    if e.kind == "mpc" and not e.nested:
                        n_mpc += 1
                        if name != "run":
                            res.bad("R9.compat", "mpc|%s" % name, "polytune::mpc is started from %s" % name, fl(e.sp))
        hr = self.h("run")
        if hr and hr.switch:
            ent, ex = hr.arm("Running")
            k, b = hr.user
            reg = self.dom_region(hr, ent) if ent is not None else set()
            m = hr.evs(K("mpc"))
            if m and all(e.block in reg for e in m) and ex:
                res.ok("R9.compat", "mpc|run×Running", fl(m[0].sp), "the MPC engine is only started from the Running arm of run")
            else:
                res.bad("R9.compat", "mpc|run×Running", "polytune::mpc is reachable outside run×Running")
            # Running is only set by check_consts; SendingConsts only from Validated
            for st, allowed in (("Running", {"check_consts"}), ("SendingConsts", {"run"}), ("SendingConstsCompleted", {"check_consts"}), ("Executing", {"run"})):
                for name, h in self.hs.items():
                    for e in h.evs(K("set_state", st)):
                        if name not in allowed:
                            res.bad("R9.compat", "%s|%s" % (st, name), "state %s is entered from %s" % (st, name), fl(e.sp))
            ents = hr.evs(K("set_state", "SendingConsts"))
            e2, x2 = hr.arm("Validated")
            if ents and e2 is not None and all(e.block in self.dom_region(hr, e2) for e in ents):
                res.ok("R9.compat", "SendingConsts|from-Validated", fl(ents[0].sp), "the constants phase is only entered from Validated")
            else:
                res.bad("R9.compat", "SendingConsts|from-Validated", "SendingConsts is entered from a state other than Validated")
        res.need("R9.compat", "mpc_call_sites", n_mpc, 1, "call of polytune::mpc in the server core")

    def compare_sites(self, h, region):
        """[(what, switch block, mismatch target, equal target)] for leader / program_hash tests."""
        k, b = h.user
        out = []
        for bi in sorted(region):
            blk = b.blocks[bi]
            t = blk["t"]
            if t["k"] != "switch" or t["o"]["k"] == "const":
                continue
            l = t["o"]["p"]["l"]
            what = None
            op = None
            # Ne/Eq binop in this block
            for s in blk["s"]:
                if s["k"] == "assign" and s["p"]["l"] == l and s["r"]["k"] == "bin" and s["r"]["op"] in ("Ne", "Eq"):
                    ck_ = compat_kind(b, s["r"]["a"], s["r"]["b"])
                    if ck_:
                        what, op = ck_, s["r"]["op"]
            if what is None:
                # result of PartialEq::ne / eq call in the predecessor
                for pb in b.pred()[bi]:
                    pt = b.blocks[pb]["t"]
                    if pt["k"] == "call" and pt["d"]["l"] == l:
                        names = callee_names(pt)
                        if any(n.endswith("PartialEq::ne") or n.endswith("::ne") for n in names):
                            op = "Ne"
                        elif any(n.endswith("PartialEq::eq") or n.endswith("::eq") for n in names):
                            op = "Eq"
                        else:
                            continue
                        what = compat_kind(b, pt["args"][0], pt["args"][1])
            if what is None:
                # the comparison was made earlier and its result moved here (a helper / closure that was spliced in,
                # a flag): resolve the switch operand through plain moves
                from an import cond_switches
                cs_ = getattr(self, "_cond_sw", {}).get(id(b))
                if cs_ is None:
                    if not hasattr(self, "_cond_sw"):
                        self._cond_sw = {}
                    cs_ = self._cond_sw[id(b)] = cond_switches(b)
                for (dbi, si), sws in cs_[0].items():
                    if bi in sws:
                        r_ = b.blocks[dbi]["s"][si]["r"]
                        if r_["op"] in ("Ne", "Eq"):
                            ck_ = compat_kind(b, r_["a"], r_["b"])
                            if ck_:
                                what, op = ck_, r_["op"]
                for cbi, sws in cs_[1].items():
                    if bi in sws and what is None:
                        pt = b.blocks[cbi]["t"]
                        names = callee_names(pt)
                        if len(pt["args"]) == 2 and any(n.endswith("::ne") for n in names):
                            op = "Ne"
                        elif len(pt["args"]) == 2 and any(n.endswith("::eq") for n in names):
                            op = "Eq"
                        else:
                            continue
                        what = compat_kind(b, pt["args"][0], pt["args"][1])
            if what is None:
                continue
            tm = {v: tb for v, tb in t["ts"]}
            zero, other = tm.get("0"), t["else"]
            if op == "Ne":
                bad_t, good_t = other, zero
            else:
                bad_t, good_t = zero, other
            out.append((what, bi, bad_t, good_t))
        return out

    def fanout_all_parties(self, h, ev, what):
        """The RPC fan-out closure is mapped over policy.other_parties() (every other party)."""
        res = self.res
        k, b = h.user
        # in the block that constructs the closure (ev.block) or its predecessors: call to other_parties
        found = False
        for bi, t in b.calls():
            if any(n.endswith("Policy::other_parties") for n in callee_names(t)) and b.dominates(bi, ev.block):
                # its result must flow into Iterator::map whose closure is the RPC closure
                found = True
        if not found and ev.via:
            # the fan-out was moved into an async helper: the iteration is in the helper's future
            vb = self.fg.bodies[ev.via[0]]
            fam_ = [bb for bb in self.fg.bodies.values() if bb.owner == vb.owner and (bb.j.get("reowned_from") == vb.j.get("reowned_from") or bb is vb)]
            for bb in fam_:
                for bi, t in bb.calls():
                    if any(n.endswith("Policy::other_parties") for n in callee_names(t)) and bi in bb.live_blocks():
                        found = True
        if found:
            res.ok("R9.fanout", "%s|%s" % (h.name, what), fl(ev.sp), "%s requests are mapped over policy.other_parties()" % what)
        else:
            res.bad("R9.fanout", "%s|%s" % (h.name, what), "%s requests are not sent to every other party (no policy.other_parties() feeding the fan-out)" % what, fl(ev.sp))

    # ============================================================ C17
    def c17(self):
        res = self.res
        # acquire only in schedule(leader), dominates run fan-out / Validated / self Run
        acq = []
        for name, h in self.hs.items():
            for k, evs in h.events.items():
                for e in evs:
                    if e.kind == "acquire" and not e.nested:
                        acq.append((name, e))
        res.need("R9.permit", "acquire_sites", len(acq), 1, "acquire_owned on the concurrency semaphore")
        for name, e in acq:
            if name != "schedule":
                res.bad("R9.permit", "acquire|%s" % name, "a concurrency permit is acquired in %s" % name, fl(e.sp))
        h = self.h("schedule")
        if h:
            k, b = h.user
            lead, foll = self.leader_branches(h)
            a = h.evs(K("acquire"))
            if lead is None or not a:
                res.bad("R9.permit", "schedule|acquire", "the leader does not acquire a concurrency permit")
            else:
                a = a[0]
                ps = h.evs(K("permit_store"))
                probs = []
                if not ps or not b.dominates(a.block, ps[0].block):
                    probs.append("the acquired permit is not stored in the actor")
                anchor = ps[0].block if ps else a.block
                for kind, det in (("client", "run"), ("set_state", "Validated"), ("self_cmd", "Run")):
                    for e in h.events_in(self.dom_region(h, lead), K(kind, det)):
                        if not b.dominates(anchor, e.block):
                            probs.append("%s(%s) is not preceded by the completed acquire" % (kind, det))
                if a.block not in self.dom_region(h, lead):
                    probs.append("followers acquire a permit as well")
                if probs:
                    res.bad("R9.permit", "schedule|acquire-before-run", "; ".join(probs), fl(a.sp))
                else:
                    res.ok("R9.permit", "schedule|acquire-before-run", fl(a.sp), "acquire_owned().await completes (permit stored) before run fan-out, Validated and self Run")
                # run fan-out failure ends the policy
                cr = h.events_in(self.dom_region(h, lead), K("client", "run"))
                js = sorted(h.events_in(self.dom_region(h, lead), K("join_all")), key=lambda e: e.block)
                if cr and js:
                    j, ee = self.join_result_edge(h, cr[0], js)
                    if not ee:
                        res.bad("R9.rpc", "schedule|run", "cannot find the test of the joined run results", fl(cr[0].sp))
                    else:
                        self.rpc_fail_rule(h, "schedule|run", ee, "RequestRunError")
                    self.fanout_all_parties(h, cr[0], "run")
                cv = h.events_in(self.dom_region(h, lead), K("client", "validate"))
                if cv and js:
                    j, ee = self.join_result_edge(h, cv[0], js)
                    if ee:
                        sb, err_t, ok_t = ee
                        if h.every_path_hits(err_t, self.blocks(h, K("flow", "Break"))) and not h.events_in(b.reachable_from(err_t), lambda x: x.kind in ("set_state", "self_cmd", "acquire")):
                            res.ok("R9.rpc", "schedule|validate", where(b, sb), "a failed validate call ends the policy before a permit is taken")
                        else:
                            res.bad("R9.rpc", "schedule|validate", "a failed validate call does not end the policy", where(b, sb))
        # permit take only in run×Running
        hr = self.h("run")
        takes = []
        for name, hh in self.hs.items():
            for k, evs in hh.events.items():
                for e in evs:
                    if e.kind == "permit_take" and not e.nested:
                        takes.append((name, e))
        res.need("R9.permit", "permit_take_sites", len(takes), 1, "self.permit.take() handing the permit to the MPC task")
        for name, e in takes:
            if name != "run":
                res.bad("R9.permit", "take|%s" % name, "the permit is taken out of the actor in %s" % name, fl(e.sp))
        if hr:
            self.permit_task_rule(hr)
        self.http_error_rules()
        if hr:
            k, b = hr.user
            ent, ex = hr.arm("Running")
            t = hr.evs(K("permit_take"))
            if t and ent is not None and t[0].block in self.dom_region(hr, ent):
                # moved into the spawned future: the local receiving the take is captured by the task closure
                sp = [e for e in hr.events_in(self.dom_region(hr, ent), K("spawn")) if not e.nested]
                if sp and b.dominates(t[0].block, sp[-1].block):
                    res.ok("R9.permit", "run|take", fl(t[0].sp), "permit taken in run×Running before the MPC task is spawned")
                else:
                    res.bad("R9.permit", "run|take", "permit is taken but not handed to the spawned MPC task", fl(t[0].sp))
            else:
                res.bad("R9.permit", "run|take", "run×Running does not move the permit out of the actor")
            self.task_permit(hr)
            # consts fan-out failure in the spawned task
            self.consts_task_rule(hr)
        # every Break drops the actor: start() returns on Break
        hs_ = self.h("start")
        if hs_:
            k, b = hs_.user
            hc = hs_.evs(K("handler", "handle_cmd"))
            if hc:
                res.ok("R9.permit", "start|loop", fl(hc[0].sp), "start() owns the actor; on Break it returns and drops it (and a stored permit)")
        # a state machine whose handle was taken out of the table while it keeps running holds its permit
        # out of reach of cancel / of the end-of-run clean-up (shared with C14)
        self.handle_lifecycle_rules()

    def task_permit(self, hr):
        # reuse the C13 task rule for the permit
        res = self.res
        fut, mpcf = self.task_bodies(hr)
        if mpcf is None:
            return
        k, b = mpcf
        plocs, from_env = permit_binding(b)
        has_permit = from_env
        moved = bool(plocs)
        mpc = [e for e in hr.events[k] if e.kind == "mpc" and not e.nested]
        # _permit bound before the mpc call and alive across it: binding dominates the call
        bound_before = False
        for bi, blk in enumerate(b.blocks):
            for s in blk["s"]:
                if s["k"] == "assign" and not s["p"]["pr"] and s["p"]["l"] in plocs and mpc and b.dominates(bi, mpc[0].block):
                    bound_before = True
        drops = []
        for kk, bb in [mpcf] + ([fut] if fut else []):
            for bi, t in bb.calls():
                if any(n.endswith("mem::drop") for n in callee_names(t)) and t["args"] and t["args"][0]["k"] != "const" and "OwnedSemaphorePermit" in t["args"][0]["p"]["ty"]:
                    drops.append((bb, bi))
        # explicit Drop terminator of the _permit local before the mpc call
        early = []
        if mpc:
            for bi, blk in enumerate(b.blocks):
                t = blk["t"]
                if t["k"] == "drop" and not t["p"]["pr"] and t["p"]["l"] in plocs and bi in b.live_blocks() and not blk["cleanup"]:
                    if mpc[0].block in b.reachable_from(bi):
                        early.append(bi)
        if has_permit and moved and bound_before and not drops and not early:
            res.ok("R9.permit", "run|permit-lifetime", fl(mpc[0].sp) if mpc else "", "permit bound inside the future that awaits polytune::mpc; no drop before the call")
        else:
            res.bad("R9.permit", "run|permit-lifetime", "the permit does not live as long as the MPC run (captured=%s bound=%s before-mpc=%s explicit-drop=%s early-drop=%s)" % (has_permit, moved, bound_before, bool(drops), bool(early)), fl(mpc[0].sp) if mpc else "")

    def rpc_fail_rule(self, h, inst, ee, errname):
        res = self.res
        k, b = h.user
        sb, err_t, ok_t = ee
        reach = b.reachable_from(err_t)
        probs = []
        if not h.every_path_hits(err_t, self.blocks(h, K("flow", "Break"))):
            probs.append("a failed RPC does not end the policy on every path (the permit stays taken)")
        if h.events_in(reach, lambda x: x.kind == "set_state" or (x.kind == "self_cmd" and x.detail != "Stop")):
            probs.append("after the failure the policy still advances")
        outs = [e for e in h.events_in(reach, K("client", "output")) if (e.extra or "").startswith("Err")]
        if not outs:
            probs.append("the output destination is not notified of the failure")
        if probs:
            res.bad("R9.rpc", inst, "; ".join(probs), where(b, sb))
        else:
            res.ok("R9.rpc", inst, where(b, sb), "Err edge: output(Err(..)) if a destination exists, then Break on every path")

    def consts_task_rule(self, hr):
        res = self.res
        # body with client(consts) join
        for k, b in hr.bodies.items():
            evs = [e for e in hr.events[k] if not e.nested]
            js = [e for e in evs if e.kind == "join_all"]
            cc = [e for e in hr.events[k] if e.kind == "client" and e.detail == "consts"]
            if not js or not cc:
                continue
            ee = self.result_err_edge(hr, js[0].block, body=b, bk=k)
            if not ee:
                res.bad("R9.rpc", "run|consts", "cannot find the test of the joined consts results", fl(js[0].sp))
                return
            sb, err_t, ok_t = ee
            reach = b.reachable_from(err_t)
            rets = {bi for bi, blk in enumerate(b.blocks) if blk["t"]["k"] == "return" and bi in b.live_blocks()}
            stop = {e.block for e in evs if e.kind == "self_cmd" and e.detail == "Stop"}
            go_on = {e.block for e in evs if e.kind == "self_cmd" and e.detail == "InternalConstsSent"}
            probs = []
            if reach & go_on:
                probs.append("after a failed consts call the task still reports InternalConstsSent (the run lingers, a leader's permit is never returned)")
            if not stop or (b.reachable_from(err_t, frozenset(stop)) & rets):
                probs.append("a failed consts call does not stop the state machine")
            outs = [e for e in evs if e.kind == "client" and e.detail == "output" and e.block in reach]
            if not outs:
                probs.append("the output destination is not notified")
            # success path must still report InternalConstsSent
            if not (b.reachable_from(ok_t) & go_on):
                probs.append("the success path no longer reports InternalConstsSent")
            if probs:
                res.bad("R9.rpc", "run|consts", "; ".join(probs), where(b, sb))
            else:
                res.ok("R9.rpc", "run|consts", where(b, sb), "Err edge: output(Err) if a destination exists, PolicyCmd::Stop; Ok edge: InternalConstsSent")
            return
        res.bad("R9.rpc", "run|consts", "cannot locate the constants fan-out task")
