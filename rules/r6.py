"""Rule family R6: secrets - entropy provenance (C06) and declassification of Delta / labels (C07)."""
from collections import defaultdict
from mir import callee, callee_names
from an import where, defs_of, root_local, SliceInfo, control_deps, true_edges_of_call
from chan import PRIMS
from env import CTX, CIRC
from common import fl
import sec as secmod
from sec import T_DELTA, T_KEY, T_LABEL, T_MAC, DT

ENTROPY = ("rand::random", "curve25519_dalek::scalar::Scalar::random")
ENTROPY_TAILS = ("fill_bytes", "next_u64", "next_u32", "random", "random_range", "random_bool", "try_fill_bytes", "random_iter", "sample", "sample_iter", "fill")


PRIVATE_GEN_CTORS = ("crypto::aes_rng::AesRng::new", "rand::rngs::thread::rng", "rand::rng", "rand::thread_rng", "::from_os_rng", "::from_entropy", "::try_from_os_rng")


def is_entropy_call(t):
    names = callee_names(t)
    if not names:
        return False
    if any(n in ENTROPY for n in names):
        return True
    # an entropy function handed to an adaptor as a value: `iter::repeat_with(random)`, `.map(rand::random)`
    for a in t.get("args") or []:
        if a.get("k") == "const" and (a.get("fn") or {}).get("def") in ENTROPY:
            return True
    return False


def is_rng_draw(t):
    """draw from an RNG object (entropy iff the object is a private generator)."""
    names = callee_names(t)
    if not names:
        return None
    tail = names[0].rsplit("::", 1)[-1]
    if tail in ENTROPY_TAILS and ("rand" in names[0] or "RngCore" in names[0] or "Rng" in names[0]):
        a0 = t["args"][0]
        return a0["p"]["ty"] if a0["k"] != "const" else ""
    return None


# minimum number of private-entropy call sites per function (counted on the pinned tree)
ENTROPY_FLOOR = {
    "mpc::protocol::fn_independent_pre": 1,   # Delta
    "mpc::protocol::garble": 2,               # zero labels of inputs and AND outputs
    "mpc::faand::fabitn": 1,                  # aBit bit string x
    "mpc::faand::fhaand": 1,                  # HaAND pads s_j
    "mpc::faand::shared_rng": 1,              # own coin-toss contribution
    "mpc::faand::shared_rng_pairwise": 1,
    "ot_core::kos::Receiver::<OT>::recv_setup": 1,   # KOS padding choice bits
    "crypto::aes_rng::AesRng::new": 1,
    "<ot_core::chou_orlandi::Sender as ot_core::Sender>::init": 1,
    "<ot_core::chou_orlandi::Receiver as ot_core::Receiver>::recv": 1,
}


def engine_bodies(fg):
    for k, b in fg.bodies.items():
        o = b.owner
        if "bench" in o or "::fpre::" in o or "SimpleChannel" in o:
            continue
        yield k, b


def _private_generator(fg, k, b, operand):
    """Is the generator object behind this operand seeded privately?  Either it is created in the
    same function family by AesRng::new() / rand::rng() / from_os_rng(), or it is a field of a struct
    every construction of which initialises that field that way."""
    gb = fg.backward(fg.operand_nodes(k, operand), node_ok=lambda n: n[0] != "F" and fg.bodies[n[0]].owner == b.owner, edge_ok=lambda e: e.kind in ("copy", "ref", "base2field", "field2whole", "upvar") or (e.kind in ("call", "lcall") and isinstance(e.info, dict) and (e.info.get("names") or [""])[-1].rsplit("::", 1)[-1] in ("clone", "deref", "deref_mut", "as_mut", "borrow_mut")))
    is_ctor = lambda names: any(any(x.endswith(c) for c in PRIVATE_GEN_CTORS) for x in names)
    for n in gb:
        bb = fg.bodies[n[0]]
        for cbi, ct in bb.calls():
            if ct["d"]["l"] == n[1] and not ct["d"]["pr"] and is_ctor(callee_names(ct)):
                return True
    # generator stored in a struct field
    fields = set()
    for n in gb:
        bb = fg.bodies[n[0]]
        for blk in bb.blocks:
            for st in blk["s"]:
                if st["k"] == "assign" and st["p"]["l"] == n[1] and not st["p"]["pr"] and st["r"]["k"] in ("ref", "use"):
                    pl = st["r"]["p"] if st["r"]["k"] == "ref" else (st["r"]["o"]["p"] if st["r"]["o"]["k"] != "const" else None)
                    for e in (pl["pr"] if pl else []):
                        if isinstance(e, dict) and e.get("a") and "f" in e and "Rng" in (e.get("ty") or ""):
                            fields.add((e["a"], e["f"]))
    for adt, fi in fields:
        ctors = []
        for k2, b2 in fg.bodies.items():
            if b2.krate != "polytune":
                continue
            for blk in b2.blocks:
                for st in blk["s"]:
                    if st["k"] == "assign" and st["r"]["k"] == "agg" and (st["r"].get("adt") or "") == adt.split("<")[0] or (st["k"] == "assign" and st["r"]["k"] == "agg" and (st["r"].get("adt") or "").split("<")[0] == adt.split("<")[0]):
                        ops = st["r"]["ops"]
                        if fi < len(ops) and ops[fi]["k"] != "const":
                            ob = fg.backward(fg.operand_nodes(k2, ops[fi]), node_ok=lambda n: n[0] == k2, edge_ok=lambda e: e.kind in ("copy", "ref"))
                            ctors.append(any(ct["d"]["l"] in {x[1] for x in ob} and is_ctor(callee_names(ct)) for _c, ct in b2.calls()))
                        else:
                            ctors.append(False)
        if ctors and all(ctors):
            return True
    return False


def _entropy_dests(fg, k, b):
    """locals of body k that receive private randomness (entropy call or draw from a private generator)"""
    out = set()
    for bi, t in b.calls():
        if bi not in b.live_blocks():
            continue
        if is_entropy_call(t) or (is_rng_draw(t) is not None and t["args"][0]["k"] != "const" and _private_generator(fg, k, b, t["args"][0])):
            out.add(t["d"]["l"])
    return out


_ENTROPY_FIELD = {}


def entropy_field(fg, adt, fi):
    """Is field `fi` of struct `adt` a buffer of private randomness: every place in the crate that stores
    into it (push / extend / insert / assignment through `&mut self`) stores values drawn from private
    randomness?  (removals and the empty construction do not count)"""
    key = (adt, fi)
    if key in _ENTROPY_FIELD:
        return _ENTROPY_FIELD[key]
    STORE = {"push", "extend", "insert", "extend_from_slice", "append", "push_back", "push_front", "resize", "fill", "copy_from_slice"}
    stores = []
    for k, b in fg.bodies.items():
        if b.krate != "polytune":
            continue
        fld = set()   # locals that are (&mut) views of the field
        for blk in b.blocks:
            for st in blk["s"]:
                if st["k"] == "assign" and st["r"]["k"] in ("ref", "rawptr") and not st["p"]["pr"]:
                    fl_ = [e for e in st["r"]["p"]["pr"] if isinstance(e, dict) and "f" in e and e.get("a")]
                    if fl_ and fl_[-1]["a"].split("<")[0] == adt.split("<")[0] and fl_[-1]["f"] == fi:
                        fld.add(st["p"]["l"])
                if st["k"] == "assign" and st["p"]["pr"]:
                    fl_ = [e for e in st["p"]["pr"] if isinstance(e, dict) and "f" in e and e.get("a")]
                    if fl_ and fl_[-1]["a"].split("<")[0] == adt.split("<")[0] and fl_[-1]["f"] == fi and st["r"]["k"] == "use" and st["r"]["o"]["k"] != "const":
                        stores.append((k, b, [st["r"]["o"]]))
        if not fld:
            continue
        ent = None
        for bi, t in b.calls():
            cn = callee_names(t)
            tl = cn[-1].rsplit("::", 1)[-1] if cn else ""
            if tl in STORE and t["args"] and t["args"][0]["k"] != "const" and t["args"][0]["p"]["l"] in fld and bi in b.live_blocks():
                stores.append((k, b, [a for a in t["args"][1:] if a["k"] != "const"]))
    ok = bool(stores)
    for k, b, ops in stores:
        ent = _entropy_dests(fg, k, b)
        good = False
        for o in ops:
            back = fg.backward(fg.operand_nodes(k, o), node_ok=lambda n: n[0] == k, local=True)
            if any(n[1] in ent for n in back):
                good = True
        if not good:
            ok = False
    _ENTROPY_FIELD[key] = ok
    return ok


def rule_entropy(S, res):
    fg = S.fg
    # (1) floors: number of places in the function family that obtain private randomness - direct
    # draws, and calls of helper functions (no channel effects) that draw it
    own = defaultdict(int)
    for k, b in engine_bodies(fg):
        for bi, t in b.calls():
            if bi in b.live_blocks() and is_entropy_call(t):
                own[b.owner] += 1
            elif bi in b.live_blocks() and is_rng_draw(t) is not None and t["args"][0]["k"] != "const":
                if _private_generator(fg, k, b, t["args"][0]):
                    own[b.owner] += 1
    from r7 import bodies_with_channel_effect
    eff_owners = {fg.bodies[k].owner for k in bodies_with_channel_effect(S)}
    floor_owners = {"polytune::" + f for f in ENTROPY_FLOOR}
    memo = {}

    def draws_entropy(owner, seen=None):
        """helper (no channel effects): does it, or something it calls, draw private randomness?"""
        if owner in memo:
            return memo[owner]
        seen = seen or set()
        if owner in seen:
            return False
        seen.add(owner)
        r = own.get(owner, 0) > 0
        if not r:
            for k in [k for k, b in fg.bodies.items() if b.owner == owner]:
                for y in S.cg.out.get(k, ()):
                    oy = fg.bodies[y].owner
                    if oy != owner and oy not in eff_owners and oy not in floor_owners and draws_entropy(oy, seen):
                        r = True
        memo[owner] = r
        return r
    counts = {}
    for fn in ENTROPY_FLOOR:
        owner = "polytune::" + fn
        total = own.get(owner, 0)
        for k, b in fg.bodies.items():
            if b.owner != owner:
                continue
            for bi, t in b.calls():
                if bi not in b.live_blocks():
                    continue
                tg = set()
                for n in callee_names(t):
                    for ck in fg.by_id.get(n, []):
                        tg.add(fg.bodies[ck].owner)
                tg = {o for o in tg if o != owner and o not in eff_owners and o not in floor_owners and o.startswith("polytune::")}
                if any(draws_entropy(o) for o in tg):
                    total += 1
        counts[fn] = total
    for fn, floor in ENTROPY_FLOOR.items():
        got = counts.get(fn, 0)
        inst = "entropy|%s" % fn.rsplit("::", 1)[-1] if "<" not in fn else "entropy|%s" % fn
        if got >= floor:
            res.ok("R6.1", inst, "", "%d place(s) obtain private randomness (rand::random / Scalar::random / a privately seeded generator, directly or through a helper)" % got)
        else:
            res.bad("R6.1", inst, "%s obtains private randomness at %d place(s), %d are needed for its secrets (a secret is now constant or derived from public data)" % (fn, got, floor))
    # (2) secret aggregates Delta(..) / Label(..) outside the operator impls
    n_sec = 0
    for k, b in engine_bodies(fg):
        if "::data_types::" in b.owner:
            continue
        for bi, blk in enumerate(b.blocks):
            if bi not in b.live_blocks():
                continue
            for si, s in enumerate(blk["s"]):
                if s["k"] != "assign" or s["r"]["k"] != "agg" or s["r"].get("adt") not in (T_DELTA, T_LABEL):
                    continue
                n_sec += 1
                o = s["r"]["ops"][0]
                kind = s["r"]["adt"].rsplit("::", 1)[-1]
                fn = b.owner.rsplit("::", 1)[-1]
                if o["k"] == "const":
                    # placeholder: must only feed a vec![..; n] fill
                    dst = fg.node_of_place(k, s["p"])
                    uses = [e for e in fg.out.get(dst, ()) if e.body == k and e.kind in ("call", "lcall", "callarg", "agg", "bin", "copy")]
                    ok = True
                    for e in uses:
                        names = (e.info or {}).get("names") if isinstance(e.info, dict) else None
                        if e.kind == "call" and names and names[-1].rsplit("::", 1)[-1] in ("from_elem", "get_or_insert", "unwrap_or", "resize"):
                            continue
                        if e.kind == "copy":
                            continue
                        ok = False
                    if kind == "Delta":
                        ok = False
                    if ok:
                        continue
                    res.bad("R6.1", "%s|%s(const)" % (fn, kind), "a %s is built from the constant %s and used as a value (a secret must come from fresh private randomness)" % (kind, o.get("v")), where(b, bi, si))
                    continue
                si_ = SliceInfo(fg, fg.operand_nodes(k, o), edge_ok=None)
                back = fg.backward(fg.operand_nodes(k, o), node_ok=lambda n: n[0] == k, local=True)
                locs = {n[1] for n in back if n[0] == k}
                ent = False
                derived = False
                edests = _entropy_dests(fg, k, b)
                if locs & edests:
                    ent = True
                # taken out of a struct field that only ever holds private randomness (a label buffer)
                for blk2 in b.blocks:
                    for st2 in blk2["s"]:
                        if st2["k"] == "assign" and st2["p"]["l"] in locs and st2["r"]["k"] in ("ref", "use", "rawptr"):
                            pl2 = st2["r"]["p"] if st2["r"]["k"] in ("ref", "rawptr") else (st2["r"]["o"]["p"] if st2["r"]["o"]["k"] != "const" else None)
                            for e2 in (pl2["pr"] if pl2 else []):
                                if isinstance(e2, dict) and "f" in e2 and e2.get("a") and (e2["a"].startswith("polytune::")) and entropy_field(fg, e2["a"], e2["f"]):
                                    ent = True
                for n in back:
                    ty = S.node_ty(n)
                    if n[0] == k and (ty in (T_LABEL, T_DELTA, "&" + T_LABEL, "&" + T_DELTA)) and n[1] != s["p"]["l"]:
                        derived = True
                if ent:
                    res.ok("R6.1", "%s|%s" % (fn, kind), where(b, bi, si), "built from rand::random()")
                elif derived:
                    continue  # function of other secrets of the same kind (xor offsets)
                else:
                    res.bad("R6.1", "%s|%s" % (fn, kind), "a %s is built from a value that is neither fresh private randomness nor derived from another %s" % (kind, kind), where(b, bi, si))
    res.floor("secret_constructions", n_sec, 2)
    # (3) seeds of deterministic generators
    n_seed = 0
    for k, b in engine_bodies(fg):
        for bi, t in b.calls():
            names = callee_names(t)
            if not names or bi not in b.live_blocks():
                continue
            tail = names[0].rsplit("::", 1)[-1]
            if tail not in ("from_seed", "seed_from_u64", "from_rng"):
                continue
            if b.owner.endswith("aes_rng::AesRng as rand_core::SeedableRng>::from_seed") or "AesRngCore" in b.owner:
                continue
            n_seed += 1
            seed = t["args"][0]
            fn = b.owner.replace("polytune::", "")
            inst = "seed|%s" % fn
            if seed["k"] == "const":
                res.bad("R6.1", inst, "a generator is seeded with a constant", where(b, bi))
                continue
            back = fg.backward(fg.operand_nodes(k, seed), node_ok=lambda n: n[0] == "F" or fg.bodies[n[0]].owner == b.owner, local=True)
            locs = defaultdict(set)
            for n in back:
                if n[0] != "F":
                    locs[n[0]].add(n[1])
            src = set()
            for kk, ls in locs.items():
                bb = fg.bodies[kk]
                for cbi, ct in bb.calls():
                    if ct["d"]["l"] in ls:
                        if is_entropy_call(ct):
                            src.add("entropy")
                        elif is_rng_draw(ct) is not None:
                            src.add("rng-output")
                        elif any(n in PRIMS for n in callee_names(ct)):
                            src.add("received")
                        elif any(x.endswith("::recv") or x.endswith("::recv_correlated") for x in callee_names(ct)):
                            src.add("ot-output")
                # closure / function parameters: seeds handed in (OT outputs mapped over from_seed)
                for l in ls:
                    if 1 <= l <= bb.argc and kk != k:
                        src.add("param")
                    if kk == k and 2 <= l <= bb.argc:
                        src.add("param")
            if "entropy" in src or "ot-output" in src or "rng-output" in src or ("received" in src) or "param" in src:
                # coin-toss seeds must contain the own contribution
                if "shared_rng" in fn and "entropy" not in src:
                    res.bad("R6.1", inst, "the coin-toss seed does not include an own random contribution (sources: %s)" % sorted(src), where(b, bi))
                else:
                    res.ok("R6.1", inst, where(b, bi), "seed sources: %s" % ", ".join(sorted(src)))
            else:
                res.bad("R6.1", inst, "the seed of a generator is not derived from randomness, an OT output or a coin toss (constant / public data)", where(b, bi))
    res.floor("generator_seed_sites", n_seed, 3)
    # (4) the OT helper generators are created with AesRng::new()
    for fn in ("polytune::ot::kos_ot_sender", "polytune::ot::kos_ot_receiver"):
        got = 0
        for k, b in fg.bodies.items():
            if b.owner != fn:
                continue
            for bi, t in b.calls():
                if any(n.endswith("aes_rng::AesRng::new") for n in callee_names(t)):
                    got += 1
        if got:
            res.ok("R6.1", "rng|%s" % fn.rsplit("::", 1)[-1], "", "OT session generator from AesRng::new() (fresh private seed)")
        else:
            res.bad("R6.1", "rng|%s" % fn.rsplit("::", 1)[-1], "%s no longer creates its generator with AesRng::new() (fresh private seed)" % fn)


def rule_input_flow(S, res):
    """R6.2: Context.inputs reaches the wire only as input ^ own share ^ ..."""
    fg = S.fg
    src = ("F", CTX, "inputs")
    readers = set()
    for e in fg.out.get(src, ()):
        readers.add(fg.bodies[e.body].owner)
    allowed = {"polytune::mpc::protocol::validate", "polytune::mpc::protocol::input_processing"}
    extra = {o for o in readers if o not in allowed}
    if extra:
        res.bad("R6.2", "inputs|readers", "the private inputs are read outside validate / input_processing: %s" % sorted(extra))
    else:
        res.ok("R6.2", "inputs|readers", "", "Context.inputs is read only by %s" % sorted(x.rsplit("::", 1)[-1] for x in readers))
    # in input_processing: every value flow from inputs to a send payload passes through an XOR
    # whose other operand is the own mask share bit
    ip = [(k, b) for k, b in fg.bodies.items() if b.owner == "polytune::mpc::protocol::input_processing"]
    fam = {k for k, b in ip}
    sends = [s for s in S.send_sites if s.bk in fam]
    payload_nodes = set()
    for s in sends:
        for a in s.term["args"][-1:]:
            payload_nodes |= set(fg.operand_nodes(s.bk, a))
    # own share bits: bool field 0 of a Share taken from random_input_shares (not a message component)
    all_comp = set()
    for d in S.comp.values():
        all_comp |= set(d.keys())

    def own_share_operand(bk, b, o):
        if o["k"] == "const":
            return False
        back = fg.backward(fg.operand_nodes(bk, o), node_ok=lambda n: n[0] == bk, edge_ok=lambda e: e.kind in ("copy", "ref", "base2field", "call", "lcall", "field2whole", "agg") and (e.kind != "call" or secmod.struct_edge(e)), local=True)
        has_share = any(DT + "Share" in S.node_ty(n) for n in back)
        return has_share and not any(n in all_comp for n in back)
    good_xors = set()   # (bk, block, idx) of XOR statements input ^ own_share
    n_x = 0
    for k, b in ip:
        for bi, blk in enumerate(b.blocks):
            for si, s in enumerate(blk["s"]):
                if s["k"] == "assign" and s["r"]["k"] == "bin" and s["r"]["op"] == "BitXor":
                    a, c = s["r"]["a"], s["r"]["b"]
                    for x, y in ((a, c), (c, a)):
                        if x["k"] == "const":
                            continue
                        bx = fg.backward(fg.operand_nodes(k, x), node_ok=lambda n: n[0] == "F" or n[0] == k, edge_ok=lambda e: e.kind in ("copy", "ref", "base2field", "field2whole", "agg", "call") and (e.kind != "call" or secmod.struct_edge(e)))
                        if src in bx and own_share_operand(k, b, y):
                            good_xors.add((k, bi, si))
                            n_x += 1
    if not good_xors:
        res.bad("R6.2", "inputs|masked", "input_processing has no `input ^ own_share` : the own mask share is not mixed into the revealed input bit")
        return
    reach = fg.forward([src], edge_ok=lambda e: not (e.kind == "bin" and (e.body, e.block, e.idx) in good_xors) and fg.bodies.get(e.body) is not None and (e.dst[0] == "F" or e.dst[0] in fam), local=True)
    leaked = [n for n in payload_nodes if n in reach]
    if leaked:
        res.bad("R6.2", "inputs|masked", "a private input bit can reach a message of input_processing without being XORed with the own mask share", fl(sends[0].sp),
                witness=[fg.describe_edge(e) for e in fg.path_to(reach, leaked[0])[-8:]])
    else:
        res.ok("R6.2", "inputs|masked", "", "every flow from Context.inputs to a payload passes through `input ^ own_share` (%d site)" % n_x)
    # and the masked value that is broadcast depends on that XOR
    mi = [s for s in sends if "masked inputs" in (s.label or [])]
    if mi:
        s = mi[0]
        back = fg.backward(fg.operand_nodes(s.bk, s.term["args"][-1]), node_ok=lambda n: n[0] == "F" or n[0] in fam, local=True)
        if src in back:
            res.ok("R6.2", "masked inputs|depends-on-input", fl(s.sp), "the broadcast value is data-dependent on the input and (through the XOR) on the own share")
        else:
            res.bad("R6.2", "masked inputs|depends-on-input", "the `masked inputs` broadcast does not depend on the private inputs any more", fl(s.sp))


def rule_own_share_home(S, res):
    """R6.3: a mask share of an input wire is only placed in the buffer of the wire's owner, never
    for the own wires."""
    fg = S.fg
    ip = [(k, b) for k, b in fg.bodies.items() if b.owner == "polytune::mpc::protocol::input_processing"]
    ws = [s for s in S.inv.direct_sites() if s.body.owner == "polytune::mpc::protocol::input_processing" and "wire shares" in (s.label or [])]
    if not ws:
        res.bad("R6.3", "wire shares", "cannot locate the `wire shares` exchange")
        return
    s = ws[0]
    b = s.body
    v = root_local(b, s.term["args"][-1])
    if v is None:
        res.bad("R6.3", "wire shares|payload", "cannot identify the scatter payload")
        return
    mut_refs = set()
    for bi, blk in enumerate(b.blocks):
        for st in blk["s"]:
            if st["k"] == "assign" and st["r"]["k"] == "ref" and st["r"]["m"] == "mut" and st["r"]["p"]["l"] == v and not st["r"]["p"]["pr"]:
                mut_refs.add(st["p"]["l"])
    stores = []
    for bi, t in b.calls():
        if any(n.endswith("index_mut") for n in callee_names(t)) and t["args"] and t["args"][0]["k"] != "const" and t["args"][0]["p"]["l"] in mut_refs:
            stores.append((bi, t))
    if not stores:
        res.bad("R6.3", "wire shares|stores", "cannot locate the stores into the per-party share buffers")
        return
    for bi, t in stores:
        idx = t["args"][1]
        probs = []
        if idx["k"] == "const":
            probs.append("recipient index is a literal")
        else:
            si = SliceInfo(fg, fg.operand_nodes(s.bk, idx), edge_ok=lambda e: True)
            back = fg.backward(fg.operand_nodes(s.bk, idx), node_ok=lambda n: n[0] == s.bk, edge_ok=lambda e: e.kind in ("copy", "cast", "ref", "base2field"))
            from_party = False
            for n in back:
                for e in fg.inn.get(n, ()):
                    pass
            # the index is a cast of Input.party
            for blk in b.blocks:
                for st in blk["s"]:
                    if st["k"] == "assign" and (s.bk, st["p"]["l"], None) in back:
                        r = st["r"]
                        o = r.get("o")
                        if o and o["k"] != "const" and any(isinstance(e, dict) and e.get("n") == "party" for e in o["p"]["pr"]):
                            from_party = True
                        if o and o["k"] != "const" and b.locals[o["p"]["l"]]["name"] == "party":
                            from_party = True
            if not from_party:
                probs.append("the recipient buffer is not selected by the input wire's owner (Input.party)")
            if si.ranges and not from_party:
                probs.append("the recipient ranges over all parties")
        # guarded by party != p_own
        cd = control_deps(b)
        guarded = False
        for (sw, succ) in cd.get(bi, ()):
            blk = b.blocks[sw]
            for st in blk["s"]:
                if st["k"] == "assign" and st["r"]["k"] == "bin" and st["r"]["op"] in ("Ne", "Eq"):
                    names = set()
                    for o in (st["r"]["a"], st["r"]["b"]):
                        if o["k"] != "const":
                            bx = fg.backward(fg.operand_nodes(s.bk, o), node_ok=lambda n: n[0] == "F" or n[0] == s.bk, edge_ok=lambda e: e.kind in ("copy", "cast", "ref", "base2field"))
                            if ("F", CTX, "p_own") in bx:
                                names.add("p_own")
                    tm = {v_: tb for v_, tb in blk["t"]["ts"]} if blk["t"]["k"] == "switch" else {}
                    if "p_own" in names:
                        want = blk["t"]["else"] if st["r"]["op"] == "Ne" else tm.get("0")
                        if succ == want or b.edge_dominates(sw, want, bi):
                            guarded = True
        if not guarded:
            probs.append("the own share of an own input wire can be placed in a send buffer (no `party != p_own` guard)")
        if probs:
            res.bad("R6.3", "wire shares|recipient", "; ".join(probs), where(b, bi))
        else:
            res.ok("R6.3", "wire shares|recipient", where(b, bi), "share stored only for Input.party and only if it is not the own party")


# ---------------------------------------------------------------------------------------------
# C07: Delta / zero-label declassification
# ---------------------------------------------------------------------------------------------
SANITIZERS = ("blake3::hash", "blake3::keyed_hash", "blake3::Hasher", "polytune::mpc::faand::hash128", "polytune::mpc::faand::hash_vec",
              "polytune::mpc::faand::commit", "polytune::mpc::garble::encrypt", "polytune::ot::kos_ot_sender", "AesHash", "aes_hash",
              "polytune::mpc::faand::open_commitment")


def _is_sanitizer(names):
    return any(any(s in n for s in SANITIZERS) for n in names)


def pad_nodes(S):
    """Values of own-secret provenance that peers do not hold: Key / Label typed values and values
    computed from them, excluding message components."""
    fg = S.fg
    all_comp = set()
    for d in S.comp.values():
        all_comp |= set(d.keys())
    seeds = []
    for k, b in engine_bodies(fg):
        for i, l in enumerate(b.locals):
            ty = l["ty"].lstrip("&")
            if ty in (T_KEY, T_LABEL):
                seeds.append((k, i, None))
        for (bk, l, f), ty in fg.field_ty.items():
            pass
    for (bk, l, f), ty in fg.field_ty.items():
        if ty.lstrip("&") in (T_KEY, T_LABEL) and bk in fg.bodies:
            seeds.append((bk, l, f))
    seeds = [n for n in seeds if n not in all_comp]
    def same_fam(e):
        if e.src[0] == "F" or e.dst[0] == "F":
            return False
        return fg.bodies[e.src[0]].owner == fg.bodies[e.dst[0]].owner
    def pad_call(e):
        # iterator folds over own keys (`keys.iter().fold(0, |acc, k| acc ^ k.0)`) still yield a pad
        names = (e.info or {}).get("names") if isinstance(e.info, dict) else None
        return bool(names) and names[-1].rsplit("::", 1)[-1] in ("fold", "reduce", "sum", "try_fold")
    reach = fg.forward(seeds, edge_ok=lambda e: same_fam(e) and (e.kind in ("copy", "ref", "base2field", "field2whole", "bin", "un", "cast", "mutarg", "alias", "upvar", "index", "closret", "closarg") or (e.kind == "call" and (secmod.struct_edge(e) or pad_call(e)))) and e.dst not in all_comp, local=True)
    return set(reach.keys())


def extended_components(S):
    """message components plus the own containers message parts are stored into (push / &mut)."""
    if getattr(S, "_ext_comp", None) is not None:
        return S._ext_comp
    fg = S.fg
    all_comp = set()
    for d in S.comp.values():
        all_comp |= set(d.keys())

    def ext_edge(e):
        if e.src[0] == "F" or e.dst[0] == "F":
            return False
        if fg.bodies[e.src[0]].owner != fg.bodies[e.dst[0]].owner:
            return False
        if e.kind in ("alias_fb", "alias", "mutarg", "mutarg2"):
            return True
        return secmod.struct_edge(e)
    S._ext_comp = set(fg.forward(list(all_comp), edge_ok=ext_edge, local=True, deep=True).keys())
    return S._ext_comp


INT_TYS = {"usize", "u8", "u16", "u32", "u64", "u128", "i32", "i64", "isize"}


def pad_selected_by_peer(S, e, ext, msg_types):
    """The Key/Label operand of this `pad ^ Delta` is looked up (get / index) with an index that a
    peer chose (an integer carried in a message): the peer can have the same pad applied to both
    values of the bit, and the XOR of the two results is Delta."""
    fg = S.fg
    b = fg.bodies[e.body]
    if e.block is None or e.idx != "t":
        return None
    t = b.blocks[e.block]["t"]
    for a in t.get("args", []):
        if a["k"] == "const":
            continue
        ty = a["p"]["ty"].lstrip("&")
        if ty not in (T_KEY, T_LABEL):
            continue
        back = fg.backward(fg.operand_nodes(e.body, a), node_ok=lambda x: x[0] == e.body,
                           edge_ok=lambda e2: e2.kind in ("copy", "ref", "base2field", "field2whole") or (e2.kind == "call" and secmod.struct_edge(e2)))
        locs = {x[1] for x in back}
        for cbi, ct in b.calls():
            cn = callee_names(ct)
            tl = cn[-1].rsplit("::", 1)[-1] if cn else ""
            if tl in ("get", "index", "get_mut", "index_mut", "get_unchecked") and ct["d"]["l"] in locs and len(ct["args"]) == 2 and ct["args"][1]["k"] != "const":
                ib = fg.backward(fg.operand_nodes(e.body, ct["args"][1]), node_ok=lambda x: x[0] == e.body, edge_ok=lambda e2: e2.kind in ("copy", "cast", "ref", "base2field", "field2whole") or (e2.kind == "call" and secmod.struct_edge(e2)))
                for x in ib:
                    xt = S.node_ty(x).lstrip("&")
                    if x in ext and xt in INT_TYS and any(xt in mt for mt in msg_types):
                        return (cbi, x)
    return None


def pad_may_be_constant(S, e):
    """The Label operand of this `Label ^ Delta` may be a constant: its provenance (through tables, struct fields,
    function results and parameters) contains a Label built from a literal - e.g. an entry of
    `vec![Label(0); max_reg_count]` that no Input instruction overwrote.  Returns (body, block) of the constant."""
    fg = S.fg
    b = fg.bodies[e.body]
    if e.block is None or e.idx != "t":
        return None
    t = b.blocks[e.block]["t"]
    KINDS = ("copy", "ref", "base2field", "field2whole", "agg", "index", "alias", "mutarg", "mutarg2", "upvar", "closarg", "closret", "callarg", "ret", "field", "fieldw", "store", "load")
    for a in t.get("args", []):
        if a["k"] == "const":
            if T_LABEL in a.get("ty", ""):
                return (b, e.block)
            continue
        if a["p"]["ty"].lstrip("&") != T_LABEL:
            continue
        # names the pad goes by in the function that uses it (`input_labels`): where the flow passes a tuple that
        # holds several label tables (the result of garble), only the slot built from a variable of that name is
        # followed - the value-flow graph does not keep tuple slots apart across calls
        fam_owner = b.owner
        near = fg.backward(fg.operand_nodes(e.body, a), node_ok=lambda x: x[0] != "F" and fg.bodies[x[0]].owner == fam_owner,
                           edge_ok=lambda e2: e2.kind in KINDS or (e2.kind == "call" and secmod.struct_edge(e2)), local=True)
        want = set()
        for x in near:
            b3 = fg.bodies[x[0]]
            if b3.locals[x[1]]["name"]:
                want.add(b3.locals[x[1]]["name"])
            if x[1] == 1 and x[2] not in (None, "*") and isinstance(x[2], int) and x[2] < len(b3.upvars):
                want.add(b3.upvars[x[2]].replace("_ref__", ""))

        def pad_edge(e2):
            if e2.kind == "field2whole" and e2.src[0] != "F" and isinstance(e2.src[2], int):
                b3 = fg.bodies[e2.src[0]]
                ty3 = b3.locals[e2.src[1]]["ty"]
                if ty3.startswith("(") and ty3.count("data_types::Label") >= 2:
                    for d in defs_of(b3, e2.src[1]):
                        r3 = d[2]
                        if d[1] != "t" and r3["k"] == "agg" and r3.get("ak") == "tuple" and e2.src[2] < len(r3["ops"]):
                            o3 = r3["ops"][e2.src[2]]
                            rl3 = root_local(b3, o3) if o3["k"] != "const" else None
                            return rl3 is not None and b3.locals[rl3]["name"] in want
                    return False
            return e2.kind in KINDS or (e2.kind == "call" and secmod.struct_edge(e2))
        back = fg.backward(fg.operand_nodes(e.body, a), edge_ok=pad_edge, local=True)
        locs = defaultdict(set)
        for x in back:
            if x[0] != "F" and x[0] in fg.bodies:
                locs[x[0]].add(x[1])
        for bk2, ls in locs.items():
            b2 = fg.bodies[bk2]
            if b2.owner.startswith(("polytune::mpc::fpre", "polytune::bench")) or "::tests::" in b2.owner:
                continue
            for bi2, blk in enumerate(b2.blocks):
                for st in blk["s"]:
                    if st["k"] != "assign" or st["p"]["l"] not in ls:
                        continue
                    r = st["r"]
                    if r["k"] == "agg" and r.get("adt", "").endswith("data_types::Label") and r["ops"] and all(o["k"] == "const" for o in r["ops"]):
                        return (b2, bi2)
                    if r["k"] == "use" and r["o"]["k"] == "const" and T_LABEL in r["o"].get("ty", ""):
                        return (b2, bi2)
                tt = blk["t"]
                if tt["k"] == "call" and tt["d"]["l"] in ls:
                    cn = callee_names(tt)
                    tl = cn[-1].rsplit("::", 1)[-1] if cn else ""
                    if tl in ("from_elem", "repeat", "repeat_n", "resize") and any(a2["k"] == "const" and T_LABEL in a2.get("ty", "") for a2 in tt["args"]):
                        return (b2, bi2)
                    if tl in ("from_elem", "repeat", "repeat_n", "resize"):
                        for a2 in tt["args"]:
                            if a2["k"] != "const" and a2["p"]["ty"].lstrip("&") == T_LABEL:
                                for d in defs_of(b2, a2["p"]["l"]):
                                    r = d[2]
                                    if d[1] != "t" and r["k"] == "agg" and r["ops"] and all(o["k"] == "const" for o in r["ops"]):
                                        return (b2, bi2)
    return None


def rule_delta_declass(S, res):
    fg = S.fg
    pads = pad_nodes(S)
    all_comp = set()
    for d in S.comp.values():
        all_comp |= set(d.keys())
    ext = extended_components(S)
    import r1
    msg_types = [r1.validated_types(s_)[1] or "" for s_ in S.recv_sites]
    peer_pads = []
    const_pads = []
    seeds = []
    for k, b in engine_bodies(fg):
        for i, l in enumerate(b.locals):
            if l["ty"].lstrip("&") == T_DELTA:
                seeds.append((k, i, None))
    for (bk, l, f), ty in fg.field_ty.items():
        if ty.lstrip("&") == T_DELTA and bk in fg.bodies and "fpre" not in bk and "bench" not in bk:
            seeds.append((bk, l, f))
    res.floor("delta_typed_values", len(seeds), 10)
    eng = {k for k, b in engine_bodies(fg)}
    n_san = defaultdict(int)

    def stmt_operands(e):
        b = fg.bodies[e.body]
        if e.block is None:
            return []
        if e.idx == "t":
            t = b.blocks[e.block]["t"]
            return [o for o in t.get("args", [])]
        st = b.blocks[e.block]["s"][e.idx]
        r = st["r"]
        if r["k"] == "bin":
            return [r["a"], r["b"]]
        return []

    def edge_ok(e):
        if e.dst[0] == "F" or e.src[0] == "F":
            return False
        if e.dst[0] not in eng:
            return False
        # per-family analysis: the value is followed inside the function that holds Delta; calls into
        # other functions are represented by their summary edge (result depends on arguments)
        if fg.bodies[e.src[0]].owner != fg.bodies[e.dst[0]].owner:
            return False
        if e.kind in ("shape", "discr"):
            return False
        info = e.info if isinstance(e.info, dict) else {}
        names = info.get("names") or []
        if e.kind in ("call", "lcall", "mutarg", "mutarg2") and names and _is_sanitizer(names):
            n_san[names[0].rsplit("::", 1)[-1]] += 1
            return False
        if e.kind in ("lcall", "call") and names:
            # operators of data_types: `Key ^ Delta -> Mac`, `Label ^ Delta -> Label` pad the key;
            # `bool & Delta -> Delta` and `Mac ^ Delta -> Key` do not
            for n in names:
                if "BitXor<mpc::data_types::Delta>" in n and ("data_types::Key" in n or "data_types::Label" in n):
                    pp = pad_selected_by_peer(S, e, ext, msg_types)
                    if pp:
                        peer_pads.append((e, pp))
                        return True   # a pad the peer can have reused does not hide Delta
                    cp = pad_may_be_constant(S, e) if "data_types::Label" in n else None
                    if cp:
                        const_pads.append((e, cp))
                        return True   # Label(0) ^ Delta is Delta
                    n_san["xor-with-own-key/label"] += 1
                    return False
        if e.kind == "bin" and e.info == "BitXor":
            # XOR with a pad the peers do not hold declassifies
            for o in stmt_operands(e):
                if o["k"] == "const":
                    continue
                nodes = fg.operand_nodes(e.body, o)
                if e.src in nodes:
                    continue
                if any(n in pads for n in nodes) and not any(n in all_comp for n in nodes):
                    n_san["xor-with-own-key/label"] += 1
                    return False
        if e.kind == "bin" and e.info in ("Eq", "Ne", "Lt", "Gt", "Le", "Ge"):
            return False   # comparison results (abort decisions) are not the key
        return True
    reach = fg.forward(seeds, edge_ok=edge_ok, local=True)
    n = 0
    bad = 0
    for s in S.send_sites:
        if s.bk not in eng:
            continue
        n += 1
        payload = s.term["args"][-1]
        nodes = fg.operand_nodes(s.bk, payload)
        hit = [x for x in nodes if x in reach]
        lab = "/".join(s.label or ["?"])
        inst = "%s|%s" % (s.body.owner.rsplit("::", 1)[-1], lab)
        if hit:
            bad += 1
            extra = ""
            if peer_pads:
                pe, (pcb, pn) = peer_pads[0]
                extra = " (the key/label pad at %s is looked up with an index taken from a message: a peer can have the same pad applied twice, and the XOR of the two results is Delta)" % where(fg.bodies[pe.body], pcb)
            elif const_pads:
                pth = fg.path_to(reach, hit[0])
                onp = [(pe, cp) for (pe, cp) in const_pads if any(pe is e_ for e_ in pth)]
                pe, (cb_, cbi_) = (onp or const_pads)[0]
                extra = " (the label that pads Delta at %s is taken from a table whose entries start as the constant built at %s: for an entry that was never overwritten with a fresh label the result is Delta itself)" % (where(fg.bodies[pe.body], pe.block), where(cb_, cbi_))
            res.bad("R6.4", inst, "the global key Delta can reach the payload of %r without passing through a hash, the AEAD, the OT sender or an XOR with an own key/label%s" % (lab, extra), fl(s.sp),
                    witness=[fg.describe_edge(e) for e in fg.path_to(reach, hit[0])[-10:]])
        else:
            res.ok("R6.4", inst, fl(s.sp), "payload not reachable from Delta except through a sanitizer")
    res.floor("send_sites_checked_for_delta", n, 10)
    res.count("delta_declassifications", dict(n_san))
    if not bad:
        res.ok("R6.4", "delta|all-sends", "", "%d send sites: Delta reaches none of the payloads except through %s" % (n, ", ".join(sorted(n_san))))


def rule_peer_selected_offset(S, res, cs):
    """R6.6 (C07, "an opened key sum is never offset by the global key at a peer's choosing"): a value that carries
    Delta and is hidden only by own *Keys* (the peers hold the matching MACs, so they know such a pad up to Delta)
    reaches the payload of a send, and whether Delta is in it is decided by a branch on a bit taken from a received
    message.  That is only harmless when the bit has been verified - a MAC comparison under the own key and Delta
    on the message the bit came from - before the value is sent (aShare step 3c); otherwise a peer that lies about
    the bit obtains value ^ Delta next to the value it can compute itself."""
    fg = S.fg
    from an import control_deps
    all_comp = set()
    for d in S.comp.values():
        all_comp |= set(d.keys())
    eng = {k for k, b in engine_bodies(fg)}
    seeds = []
    for k, b in engine_bodies(fg):
        for i, l in enumerate(b.locals):
            if l["ty"].lstrip("&") == T_DELTA:
                seeds.append((k, i, None))
    for (bk, l, f), ty in fg.field_ty.items():
        if ty.lstrip("&") == T_DELTA and bk in fg.bodies and "fpre" not in bk and "bench" not in bk:
            seeds.append((bk, l, f))

    def edge_ok(e):
        if e.dst[0] == "F" or e.src[0] == "F" or e.dst[0] not in eng:
            return False
        if fg.bodies[e.src[0]].owner != fg.bodies[e.dst[0]].owner:
            return False
        if e.kind in ("shape", "discr"):
            return False
        info = e.info if isinstance(e.info, dict) else {}
        names = info.get("names") or []
        if e.kind in ("call", "lcall", "mutarg", "mutarg2") and names and _is_sanitizer(names):
            return False
        # `hi.iter().map(|h| commit(..h..)).collect()`: what comes out is what the closure returns; the receiver
        # reaches the result only through the closure (closarg / closret edges)
        if e.kind == "call" and names and names[-1].rsplit("::", 1)[-1] in ("map", "and_then", "map_or", "map_or_else", "filter_map", "then", "flat_map") and info.get("arg") == 0:
            t_ = fg.bodies[e.body].blocks[e.block]["t"] if e.block is not None and e.body in fg.bodies else None
            if t_ is not None and any("{closure:" in (a["p"]["ty"] if a["k"] != "const" else a.get("ty", "")) for a in t_.get("args", [])):
                return False
        if e.kind in ("lcall", "call") and names:
            for n in names:
                if "BitXor<mpc::data_types::Delta>" in n and "data_types::Label" in n:
                    return False      # a fresh private label is a pad the peers know nothing about
        if e.kind == "bin" and e.info in ("Eq", "Ne", "Lt", "Gt", "Le", "Ge"):
            return False
        return True
    reach = fg.forward(seeds, edge_ok=edge_ok, local=True, deep=True)
    # branches decided by a received bit
    cand = {}
    for bk in {n[0] for n in reach if n[0] != "F"}:
        b = fg.bodies[bk]
        cd = control_deps(b)
        peer_sw = {}
        for bi, blk in enumerate(b.blocks):
            t = blk["t"]
            if t["k"] != "switch" or t["o"]["k"] == "const":
                continue
            back = fg.backward(fg.operand_nodes(bk, t["o"]), node_ok=lambda n: n[0] == bk,
                               edge_ok=lambda e: e.kind not in ("shape", "discr") and not (e.kind in ("call", "lcall") and not secmod.struct_edge(e)), local=True)
            src = [n for n in back if n in all_comp and S.node_ty(n).lstrip("&") in ("bool", "u8")]
            if src:
                peer_sw[bi] = src
        # arithmetic selection: `(bit as u128) * delta.0`, `bit & delta`
        for e in [e for n in reach if n[0] == bk for e in fg.out.get(n, ())]:
            if e.block is None or e.body != bk or e.kind != "bin" or e.info not in ("Mul", "BitAnd") or e.idx == "t":
                continue
            r = b.blocks[e.block]["s"][e.idx]["r"]
            if r.get("k") != "bin":
                continue
            for o in (r["a"], r["b"]):
                if o["k"] == "const":
                    continue
                on = fg.operand_nodes(bk, o)
                if e.src in on:
                    continue
                back = fg.backward(on, node_ok=lambda n: n[0] == bk, edge_ok=lambda e2: e2.kind in ("copy", "cast", "un", "ref", "base2field", "field2whole", "index") or (e2.kind == "bin" and e2.info in ("BitXor", "Ne", "Eq")) or (e2.kind == "call" and secmod.struct_edge(e2)), local=True)
                src = [n for n in back if n in all_comp and S.node_ty(n).lstrip("&") in ("bool", "u8")]
                if src:
                    cand.setdefault(e.dst, []).append((e, e.block, src))
        if not peer_sw:
            continue
        for e in [e for n in reach if n[0] == bk for e in fg.out.get(n, ())]:
            if e.block is None or e.body != bk or not edge_ok(e):
                continue
            sws = [a for (a, s_) in cd.get(e.block, ()) if a in peer_sw]
            if sws:
                cand.setdefault(e.dst, []).append((e, sws[0], peer_sw[sws[0]]))
    n_sel = len(cand)
    res.count("peer_selected_delta_offsets", n_sel)
    if not cand:
        res.ok("R6.6", "delta|peer-selected-offset", "", "no Delta-carrying value is selected by a branch on a received bit")
        return
    reach2 = fg.forward(list(cand), edge_ok=edge_ok, local=True, deep=True)
    done = set()
    for s in S.send_sites:
        if s.bk not in eng:
            continue
        nodes = fg.operand_nodes(s.bk, s.term["args"][-1])
        hit = [x for x in nodes if x in reach2]
        if not hit:
            continue
        lab = "/".join(s.label or ["?"])
        inst = "%s|%s|peer-selected-offset" % (s.body.owner.rsplit("::", 1)[-1], lab)
        if inst in done:
            continue
        path = None
        for h in hit:
            p = fg.path_to(reach2, h)
            root = p[0].src if p else h
            # the selection has to lie before the send (the value-flow graph is flow-insensitive)
            sel = [(e0, sw, bits) for (e0, sw, bits) in cand.get(root, []) if e0.body != s.bk or s.block in s.body.reachable_from(e0.block)]
            if not sel:
                continue
            e0, sw, bits = sel[0]
            path = p
            break
        if path is None:
            continue
        done.add(inst)
        labs = set()
        for n in bits:
            labs |= S.labels_of(n)
        ver = [c for c in cs if c.bk == s.bk and {"CMP", "DELTA"} <= c.ing and (c.labels & labs)
               and s.block in c.body.reachable_from(c.block) and c.block not in c.body.reachable_from(s.block)]
        if ver:
            res.ok("R6.6", inst, fl(s.sp), "the received bit (%s) that selects the Delta offset is MAC-checked under the own key at %s before %r is sent" % ("/".join(sorted(labs)), ver[0].where(), lab))
        else:
            b = fg.bodies[s.bk]
            res.bad("R6.6", inst, "a bit received in %r decides (branch at %s) whether the value sent as %r is offset by the global key; the value is hidden only by own keys whose MACs the peers hold, and the bit is not verified before the send: a peer that misreports the bit receives value ^ Delta and, with the value its own state determines, Delta" % ("/".join(sorted(labs)) or "?", where(b, sw), lab), fl(s.sp),
                    witness=[fg.describe_edge(e) for e in path[-8:]], key="R6.6|%s|%s" % (s.body.owner.rsplit("::", 1)[-1], lab))


def rule_label_declass(S, res):
    """A garbler's zero labels leave only inside AEAD rows or as the select label ^ (bit & Delta)."""
    fg = S.fg
    eng = {k for k, b in engine_bodies(fg)}
    all_comp = set()
    for d in S.comp.values():
        all_comp |= set(d.keys())
    fams = ("polytune::mpc::protocol::garble", "polytune::mpc::protocol::input_processing", "polytune::mpc::protocol::output", "polytune::mpc::protocol::evaluate")
    seeds = []
    for k, b in fg.bodies.items():
        if b.owner not in fams:
            continue
        # parameters of the function itself that carry labels (e.g. input_labels: &[Label])
        if b.id == b.owner:
            for i in range(1, b.argc + 1):
                if T_LABEL in b.locals[i]["ty"] and "Option<" not in b.locals[i]["ty"]:
                    seeds.append((k, i, None))
        # fresh labels
        for bi, blk in enumerate(b.blocks):
            for si, st in enumerate(blk["s"]):
                if st["k"] == "assign" and st["r"]["k"] == "agg" and st["r"].get("adt") == T_LABEL and st["r"]["ops"][0]["k"] != "const" and "data_types" not in b.owner:
                    seeds.append(fg.node_of_place(k, st["p"]))
    res.floor("label_sources", len(seeds), 2)
    n_sel = [0]

    def edge_ok(e):
        if e.dst[0] == "F" or e.src[0] == "F":
            return False
        if fg.bodies[e.src[0]].owner != fg.bodies[e.dst[0]].owner:
            return False
        if e.dst in all_comp:
            return False
        info = e.info if isinstance(e.info, dict) else {}
        names = info.get("names") or []
        if e.kind in ("shape", "discr"):
            return False
        if e.kind in ("callarg", "ret"):
            return False   # other functions are represented by their summary edge (lcall)
        if e.kind in ("call", "lcall", "mutarg", "mutarg2") and names:
            if _is_sanitizer(names) or any("garble::GarblingKey" in n for n in names):
                return False
            if any(n.endswith("from_residual") for n in names):
                return False   # `?`: only the error part of the value travels on the early-return path
            # `opt.map(|label| label ^ (b & delta))`: what comes out is what the closure returns; the receiver reaches
            # the result only through the closure (closarg / closret edges)
            if e.kind == "call" and names[-1].rsplit("::", 1)[-1] in ("map", "and_then", "map_or", "map_or_else", "filter_map", "then", "flat_map") and info.get("arg") == 0:
                t_ = fg.bodies[e.body].blocks[e.block]["t"] if e.block is not None and e.body in fg.bodies else None
                if t_ is not None and any("{closure:" in (a["p"]["ty"] if a["k"] != "const" else a.get("ty", "")) for a in t_.get("args", [])):
                    return False
            for n in names:
                if "BitXor<mpc::data_types::Delta>" in n and "data_types::Label" in n:
                    n_sel[0] += 1
                    return False
        if e.kind == "bin" and e.info in ("Eq", "Ne", "Lt", "Gt", "Le", "Ge"):
            return False
        return True
    reach = fg.forward(seeds, edge_ok=edge_ok, local=True)
    bad = 0
    n = 0
    for s in S.send_sites:
        if s.body.owner not in fams:
            continue
        n += 1
        nodes = fg.operand_nodes(s.bk, s.term["args"][-1])
        hit = [x for x in nodes if x in reach]
        if hit:
            lab = "/".join(s.label or ["?"])
            # the evaluator reveals the *active* label of output wires to output parties: not a garbler's zero label
            if lab == "lambda":
                continue
            bad += 1
            res.bad("R6.4", "%s|%s|zero-label" % (s.body.owner.rsplit("::", 1)[-1], lab), "a garbler's wire label can reach the payload of %r outside an AEAD row and without the select `label ^ (bit & Delta)`: the evaluator would learn both labels of a wire (their XOR is Delta)" % lab, fl(s.sp),
                    witness=[fg.describe_edge(e) for e in fg.path_to(reach, hit[0])[-10:]])
    res.floor("sends_checked_for_labels", n, 3)
    if not bad:
        res.ok("R6.4", "labels|all-sends", "", "own wire labels reach no payload except through garble::encrypt / key derivation or the select operator Label ^ Delta (%d select site(s))" % n_sel[0])


def rule_placeholder_overwritten(S, res):
    """R6.6: in the functions that create secrets (ENTROPY_FLOOR), a vector allocated with a constant
    placeholder (`vec![false; n]`) and then filled from random data through `zip` is filled
    completely: the length of the zip partner is computed from the same `n`.  `zip` stops at the
    shorter side without complaint, so a partner sized from a different quantity (`l` instead of
    `l + 3*RHO`) leaves placeholder (constant, publicly known) values in the secret."""
    fg = S.fg
    floor_owners = {"polytune::" + f for f in ENTROPY_FLOOR}
    n = 0
    undecided = 0
    bad = 0
    plain = lambda e: e.kind in ("copy", "ref", "base2field", "field2whole", "cast")
    for k, b in engine_bodies(fg):
        if b.owner not in floor_owners:
            continue
        # placeholder vectors: from_elem(const, N)
        ph = {}
        for bi, t in b.calls():
            cn = callee_names(t)
            if cn and cn[-1].endswith("vec::from_elem") and t["args"][0]["k"] == "const" and t["args"][1]["k"] != "const" and not t["d"]["pr"]:
                ph[t["d"]["l"]] = t["args"][1]
        if not ph:
            continue
        for bi, t in b.calls():
            cn = callee_names(t)
            if not cn or not cn[0].endswith("Iterator::zip") or len(t["args"]) != 2 or bi not in b.live_blocks():
                continue
            sides = []
            for a in t["args"]:
                if a["k"] == "const":
                    sides.append(set())
                    continue
                back = fg.backward(fg.operand_nodes(k, a), node_ok=lambda x: x[0] == k, edge_ok=lambda e: plain(e) or (e.kind == "call" and (secmod.struct_edge(e) or ((e.info or {}).get("names") and e.info["names"][-1].rsplit("::", 1)[-1] in ("chunks_mut", "chunks_exact_mut", "deref_mut", "as_mut_slice", "iter_mut")))))
                sides.append({x[1] for x in back})
            for i in (0, 1):
                vs = [v for v in ph if v in sides[i]]
                if not vs:
                    continue
                # mutable traversal of the placeholder vector (chunks_mut / iter_mut)
                ty = t["args"][i]["p"]["ty"] if t["args"][i]["k"] != "const" else ""
                if "Mut<" not in ty and "&mut" not in ty:
                    continue
                v = vs[0]
                other = sides[1 - i]
                if v in other:
                    continue
                n += 1
                nroot = {x[1] for x in fg.backward(fg.operand_nodes(k, ph[v]), node_ok=lambda x: x[0] == k, edge_ok=plain)}
                named = [l for l in nroot if b.locals[l]["name"]]
                # length expression of the partner: collect over a Range 0..E, or from_elem(_, E)
                lens = []
                for cbi, ct in b.calls():
                    ccn = callee_names(ct)
                    if ct["d"]["l"] not in other or not ccn:
                        continue
                    if ccn[-1].endswith("vec::from_elem") and ct["args"][1]["k"] != "const":
                        lens.append(ct["args"][1])
                    if ccn[0].rsplit("::", 1)[-1] in ("collect", "from_iter") and ct["args"] and ct["args"][0]["k"] != "const":
                        ib = fg.backward(fg.operand_nodes(k, ct["args"][0]), node_ok=lambda x: x[0] == k, edge_ok=lambda e: plain(e) or (e.kind == "call" and secmod.struct_edge(e)) or e.kind == "agg")
                        il = {x[1] for x in ib}
                        for blk in b.blocks:
                            for st in blk["s"]:
                                if st["k"] == "assign" and st["p"]["l"] in il and st["r"]["k"] == "agg" and (st["r"].get("adt") or "").startswith("core::ops::range::Range") and len(st["r"]["ops"]) == 2 and st["r"]["ops"][1]["k"] != "const":
                                    lens.append(st["r"]["ops"][1])
                inst = "%s|%s" % (b.owner.rsplit("::", 1)[-1], b.locals[v]["name"] or "_%d" % v)
                if not lens:
                    undecided += 1
                    continue
                ok = False
                for le in lens:
                    eb = fg.backward(fg.operand_nodes(k, le), node_ok=lambda x: x[0] == k, edge_ok=lambda e: e.kind in ("copy", "ref", "cast", "bin", "un", "base2field", "field2whole", "call", "lcall"))
                    if any(x[1] in nroot for x in eb):
                        ok = True
                if ok:
                    res.ok("R6.6", inst, where(b, bi), "placeholder vector filled through zip with a partner whose length is computed from the vector's own length")
                else:
                    bad += 1
                    res.bad("R6.6", inst, "`%s` is allocated with a constant placeholder of length `%s` and filled from random data through zip, but the zip partner's length is not computed from `%s`: zip stops at the shorter side, so placeholder (constant) entries can remain in the secret"
                            % (b.locals[v]["name"] or "?", b.locals[named[0]]["name"] if named else "n", b.locals[named[0]]["name"] if named else "n"), where(b, bi), key="R6.6|%s|%s" % (b.owner.rsplit("::", 1)[-1], b.locals[v]["name"] or "?"))
    res.count("placeholder_vectors_filled_through_zip", n)
    res.count("placeholder_zip_partners_of_unknown_length", undecided)
    if not bad:
        res.ok("R6.6", "engine", "", "%d placeholder-initialised vectors in secret-creating functions are filled through zip; none with a partner sized from a different quantity" % n)


def rule_generator_clone(S, res):
    """R6.7: a privately seeded generator is never cloned: the clone replays the stream of the original, so
    values that are meant to be fresh (labels, mask bits, pads) repeat.  (Clones of the *shared*
    ChaCha20 challenge generators are C04's R4.a.)"""
    fg = S.fg
    n = 0
    bad = 0
    for k, b in engine_bodies(fg):
        if "core::clone::Clone>::clone" in b.owner:
            continue   # the (derived) Clone impl of a generator type clones its parts
        for bi, t in b.calls():
            cn = callee_names(t)
            if not cn or bi not in b.live_blocks() or not t["args"] or t["args"][0]["k"] == "const":
                continue
            if cn[0].endswith("Clone::clone") or cn[-1].rsplit("::", 1)[-1] in ("clone", "clone_from", "to_owned"):
                ty = t["args"][0]["p"]["ty"].lstrip("&").replace("mut ", "")
                if ("Rng" in ty.rsplit("::", 1)[-1] or "rngs::" in ty) and "ChaCha20Rng" not in ty and "Option<" not in ty and "Vec<" not in ty:
                    n += 1
                    bad += 1
                    res.bad("R6.7", "%s|clone" % b.owner.rsplit("::", 1)[-1], "the generator `%s` is cloned: the clone produces the same stream again, values drawn from it are not fresh (e.g. wire labels repeat, and the XOR of two labels that carry different bits is the global key)" % ty.rsplit("::", 1)[-1], where(b, bi),
                            key="R6.7|%s|clone" % b.owner.rsplit("::", 1)[-1])
    if not bad:
        res.ok("R6.7", "engine", "", "no privately seeded generator is cloned")
