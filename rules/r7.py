"""Rule family R7 (communication independent of secrets) for C09."""
from collections import defaultdict
from mir import callee, callee_names
from an import where, defs_of, control_deps, edge_fail_closed, root_local
from chan import PRIMS
from env import CTX
from common import fl
import sec as secmod
from sec import T_DELTA, T_KEY, T_LABEL, T_MAC, DT
from r6 import engine_bodies, is_entropy_call

SHAPE_TAILS = {"push", "extend", "extend_from_slice", "truncate", "clear", "insert", "remove", "retain", "pop", "resize", "append", "drain",
               "swap_remove", "dedup", "split_off", "push_str", "reserve"}
FILTER_TAILS = {"filter", "filter_map", "take_while", "skip_while", "map_while", "retain", "position", "find", "find_map", "dedup_by", "flat_map", "flatten"}
VALUE_KINDS = {"copy", "ref", "base2field", "field2whole", "bin", "un", "cast", "agg", "call", "lcall", "mutarg", "upvar", "closarg", "closret", "future",
               "callarg", "ret", "index", "alias", "mutarg2"}


def secret_nodes(S):
    """Value taint of own secrets: Delta / Key / Label / Share values, private inputs, private
    entropy.  Lengths, discriminants of Option slots and iterator exhaustion are shape, not value."""
    fg = S.fg
    seeds = [("F", CTX, "inputs")]
    for k, b in engine_bodies(fg):
        for i, l in enumerate(b.locals):
            ty = l["ty"].lstrip("&")
            if ty.startswith("mut "):
                ty = ty[4:]
            if ty in (T_DELTA, T_KEY, T_LABEL, DT + "Share", DT + "Auth"):
                seeds.append((k, i, None))
        for bi, t in b.calls():
            if is_entropy_call(t):
                seeds.append(fg.node_of_place(k, t["d"]))
    for (bk, l, f), ty in fg.field_ty.items():
        if bk in fg.bodies and ty.lstrip("&") in (T_DELTA, T_KEY, T_LABEL, DT + "Share", DT + "Auth"):
            if "fpre" in bk or "bench" in bk:
                continue
            seeds.append((bk, l, f))
    eng = {k for k, b in engine_bodies(fg)}

    def edge_ok(e):
        if e.kind not in VALUE_KINDS:
            return False
        if e.dst[0] != "F" and e.dst[0] not in eng:
            return False
        if e.kind == "call":
            names = (e.info or {}).get("names") or []
            tail = names[-1].rsplit("::", 1)[-1] if names else ""
            if tail in ("len", "is_empty", "capacity", "size_hint", "count", "is_some", "is_none"):
                return False
        if e.kind == "index":
            return False
        # the counter of enumerate(): `(usize, T)` tuples are not field sensitive below depth 1
        if e.kind in ("copy", "ref", "base2field") and e.dst[0] != "F" and fg.node_type(e.dst).lstrip("&") == "usize" and e.src[0] != "F":
            sty = fg.node_type((e.src[0], e.src[1], None))
            if "(usize, " in sty:
                return False
        return True
    reach = fg.forward(seeds, edge_ok=edge_ok, local=True)
    return set(reach.keys())


def rule_codec(S, res):
    fg = S.fg
    n = 0
    cfgs = defaultdict(list)
    for k, b in fg.bodies.items():
        if b.krate != "polytune":
            continue
        for bi, t in b.calls():
            names = callee_names(t)
            if not names:
                continue
            if names[0].startswith("bincode::config::"):
                cfgs[names[0]].append((b, bi))
            if names[0].startswith("bincode::") and any(x in names[0] for x in ("encode", "decode")):
                n += 1
                if not (b.owner.startswith("polytune::utils::serde::") or "file_or_mem_buf" in b.owner):
                    res.bad("R7.1", "codec|%s" % b.owner.rsplit("::", 1)[-1], "bincode is used directly in %s, bypassing utils::serde (fixed-width codec)" % b.owner, where(b, bi))
    res.floor("bincode_codec_calls", n, 3)
    for c, sites in cfgs.items():
        if c.endswith("config::legacy"):
            res.ok("R7.1", "config|legacy", where(sites[0][0], sites[0][1]), "%d construction(s) of the fixed-width bincode configuration" % len(sites))
        else:
            b, bi = sites[0]
            res.bad("R7.1", "config|%s" % c.rsplit("::", 1)[-1], "bincode configuration `%s` (variable-length integers) is constructed: message lengths would depend on the values sent" % c, where(b, bi))
    if not any(c.endswith("config::legacy") for c in cfgs):
        res.bad("R7.1", "config|legacy", "the fixed-width configuration bincode::config::legacy() is no longer used")
    # serialize / deserialize are the only wire codec: send_to / recv_from call them
    for fn, codec in (("polytune::channel::send_to", "polytune::utils::serde::serialize"), ("polytune::channel::recv_from", "polytune::utils::serde::deserialize")):
        ok = False
        for k, b in fg.bodies.items():
            if b.owner == fn:
                for bi, t in b.calls():
                    if codec in callee_names(t):
                        ok = True
        if ok:
            res.ok("R7.1", "wire|%s" % fn.rsplit("::", 1)[-1], "", "uses %s" % codec.rsplit("::", 1)[-1])
        else:
            res.bad("R7.1", "wire|%s" % fn.rsplit("::", 1)[-1], "%s no longer encodes through %s" % (fn, codec))


def bodies_with_channel_effect(S):
    fg, cg = S.fg, S.cg
    direct = {s.bk for s in S.inv.sites}
    # reverse closure: bodies that can reach a site
    rev = defaultdict(set)
    for a, outs in cg.out.items():
        for o in outs:
            rev[o].add(a)
    seen = set(direct)
    st = list(direct)
    while st:
        x = st.pop()
        for y in rev.get(x, ()):
            if y not in seen:
                seen.add(y)
                st.append(y)
    return seen


def rule_secret_branches(S, res):
    fg = S.fg
    sec_nodes = secret_nodes(S)
    eff = bodies_with_channel_effect(S)
    eng = {k for k, b in engine_bodies(fg)}
    payload_back = {}
    n_sw = 0
    n_abort = 0
    bad = 0
    for k in sorted(eng):
        b = fg.bodies[k]
        if "data_types" in b.owner and False:
            continue
        cd = None
        for bi, blk in enumerate(b.blocks):
            t = blk["t"]
            if t["k"] != "switch" or t["o"]["k"] == "const" or bi not in b.live_blocks():
                continue
            sp = t["sp"]
            if "|" in sp and any(m in sp for m in ("m:debug", "m:trace", "m:instrument", "m:info", "m:warn", "m:error")):
                continue
            # discriminant reads are shape
            opl = t["o"]["p"]["l"]
            is_discr = any(s["k"] == "assign" and s["p"]["l"] == opl and s["r"]["k"] == "discr" for s in blk["s"])
            if is_discr:
                continue
            if not any(n in sec_nodes for n in fg.operand_nodes(k, t["o"])):
                continue
            n_sw += 1
            targets = list(dict.fromkeys([tb for _, tb in t["ts"]] + [t["else"]]))
            if any(edge_fail_closed(b, bi, x)[0] for x in targets) and "Result" in b.locals[0]["ty"]:
                n_abort += 1
                continue   # abort check: the run ends, nothing further is sent
            if cd is None:
                cd = control_deps(b)
            # transitive control dependence: everything whose execution this branch (co-)decides
            region = set()
            frontier = {bi}
            while frontier:
                nxt = set()
                for x, deps in cd.items():
                    if x in region:
                        continue
                    if any(sw in frontier for (sw, _s) in deps):
                        region.add(x)
                        # do not continue through abort checks: what follows them depends on
                        # "did the run abort", not on the secret branch above
                        tx = b.blocks[x]["t"]
                        if tx["k"] == "switch":
                            tg = list(dict.fromkeys([tb for _, tb in tx["ts"]] + [tx["else"]]))
                            if any(edge_fail_closed(b, x, y)[0] for y in tg) and "Result" in b.locals[0]["ty"]:
                                continue
                        if tx["k"] == "call" and any(n.endswith("::branch") for n in callee_names(tx)):
                            continue
                        nxt.add(x)
                frontier = nxt
            probs = []
            for x in sorted(region):
                tt = b.blocks[x]["t"]
                if tt["k"] == "call":
                    names = callee_names(tt)
                    tail = names[-1].rsplit("::", 1)[-1] if names else ""
                    if any(nm in PRIMS for nm in names):
                        probs.append((x, "a channel operation (%s)" % tail))
                    else:
                        tg = [ck for (cbk, cbi, ct, targets_) in [] for ck in []]
                        # calls into functions with channel effects
                        for nm in names:
                            for ck in fg.by_id.get(nm, []):
                                if ck in eff:
                                    probs.append((x, "a call that performs channel operations (%s)" % nm.rsplit("::", 1)[-1]))
                        if tail in SHAPE_TAILS and tt["args"] and tt["args"][0]["k"] != "const" and tt["args"][0]["p"]["ty"].startswith("&mut "):
                            probs.append((x, "a length-changing `%s` on a container" % tail))
                elif tt["k"] == "yield":
                    probs.append((x, "an await"))
                for s in b.blocks[x]["s"]:
                    if s["k"] == "assign" and s["r"]["k"] == "agg" and s["r"].get("adt", "").endswith("option::Option"):
                        # an optional slot whose presence is decided here: only a problem if it is sent
                        dst = fg.node_of_place(k, s["p"])
                        dsts = [dst]
                        # the slot value may be built in a temporary and moved into the message afterwards
                        # (`v[i] = cond.then_some(x)`): follow plain moves of that temporary to the store
                        if not s["p"]["pr"]:
                            holders = {s["p"]["l"]}
                            for _ in range(4):
                                for blk2 in b.blocks:
                                    for s2 in blk2["s"]:
                                        if s2["k"] == "assign" and s2["r"]["k"] == "use" and s2["r"]["o"]["k"] != "const" and not s2["r"]["o"]["p"]["pr"] and s2["r"]["o"]["p"]["l"] in holders:
                                            if s2["p"]["pr"]:
                                                dsts.append(fg.node_of_place(k, s2["p"]))
                                            else:
                                                holders.add(s2["p"]["l"])
                                        elif s2["k"] == "assign" and s2["r"]["k"] == "agg" and s2["r"].get("thr") and s2["r"]["ops"] and s2["r"]["ops"][0]["k"] != "const" and s2["r"]["ops"][0]["p"]["l"] in holders:
                                            if s2["p"]["pr"]:
                                                dsts.append(fg.node_of_place(k, s2["p"]))
                                            else:
                                                holders.add(s2["p"]["l"])
                        # (a store through `v.index_mut(i)` / `get_mut` reaches the container over an alias edge)
                        fwd = fg.forward(dsts, edge_ok=lambda e: secmod.struct_edge(e) or (e.kind in ("alias", "alias_fb") and (not isinstance(e.info, dict) or not e.info.get("names") or e.info["names"][0].rsplit("::", 1)[-1] in ("index_mut", "get_mut", "deref_mut", "as_mut", "iter_mut", "last_mut", "first_mut"))),
                                         node_ok=lambda n: n[0] != "F" and fg.bodies[n[0]].owner == b.owner, local=True)
                        for ss in S.send_sites:
                            if ss.body.owner == b.owner and any(n in fwd for n in fg.operand_nodes(ss.bk, ss.term["args"][-1])):
                                probs.append((x, "the Some/None pattern of a message slot"))
            if not probs:
                res.ok("R7.2", "%s|branch@%s" % (b.owner.replace("polytune::", ""), fl(t["sp"]).rsplit(":", 1)[-1]), where(b, bi), "secret-conditioned branch, control region of %d block(s) without channel op / await / length change / slot decision" % len(region))
            if probs:
                bad += 1
                x, what = probs[0]
                res.bad("R7.2", "%s|secret-branch" % b.owner.replace("polytune::", ""), "a branch on secret data controls %s: the traffic pattern would depend on private values" % what, where(b, x) if b.blocks[x]["t"].get("sp") else where(b, bi))
    # closures whose (secret dependent) result decides how many elements pass an adaptor
    for k in sorted(eng):
        b = fg.bodies[k]
        for bi, t in b.calls():
            names = callee_names(t)
            tail = names[-1].rsplit("::", 1)[-1] if names else ""
            if tail not in FILTER_TAILS:
                continue
            for a in t["args"]:
                ty = a["p"]["ty"] if a["k"] != "const" else ""
                if "{closure:" in ty:
                    cdef = ty[ty.index("{closure:") + 9:-1]
                    for ck in fg.by_id.get(cdef, []):
                        tainted = (ck, 0, None) in sec_nodes or (ck, 0, "*") in sec_nodes
                        if tainted and tail in ("filter_map", "find_map", "flat_map", "flatten", "map_while"):
                            # what passes is decided by the *variant* of the returned Option, not by its payload: a
                            # secret payload handed on unchanged (`v.get(i).copied().flatten()`) keeps the pattern
                            # public; only a branch on a secret inside the closure makes the variant secret
                            cb = fg.bodies[ck]
                            tainted = False
                            for blk in cb.blocks:
                                tt = blk["t"]
                                if tt["k"] == "switch" and tt["o"]["k"] != "const" and any(x in sec_nodes for x in fg.operand_nodes(ck, tt["o"])):
                                    if not any(st["k"] == "assign" and st["r"]["k"] == "discr" and st["p"]["l"] == tt["o"]["p"]["l"] for st in blk["s"]):
                                        tainted = True
                        if tainted:
                            bad += 1
                            res.bad("R7.2", "%s|%s" % (b.owner.replace("polytune::", ""), tail), "`%s` keeps or drops elements depending on secret data: the length of what is built (and sent) would depend on private values" % tail, where(b, bi))
    res.floor("secret_conditioned_branches", n_sw, 4)
    res.count("secret_conditioned_abort_checks", n_abort)
    if not bad:
        res.ok("R7.2", "engine", "", "%d branches on secret values (%d of them abort checks): none controls a channel operation, an await, a length-changing container operation or the Some/None pattern of a message" % (n_sw, n_abort))
    return sec_nodes


def rule_lengths(S, res, sec_nodes):
    fg = S.fg
    n = 0
    bad = 0
    eng = {k for k, b in engine_bodies(fg)}
    for s in S.inv.sites:
        if s.bk not in eng:
            continue
        if s.kind == "recv_vec":
            n += 1
            ln = s.term["args"][3]
            if ln["k"] != "const" and any(x in sec_nodes for x in fg.operand_nodes(s.bk, ln)):
                bad += 1
                res.bad("R7.3", "%s|%s|len" % (s.body.owner.rsplit("::", 1)[-1], "/".join(s.label or ["?"])), "the expected length of a received vector depends on secret data", fl(s.sp))
    res.floor("expected_length_arguments", n, 8)
    if not bad:
        res.ok("R7.3", "lengths", "", "%d expected-length arguments, none value-dependent on a secret" % n)
