"""State-machine extraction for crates/polytune-server-core/src/state.rs (rule family R9).

For every handler of `PolicyState` the extractor finds the body holding the user code, the switch
on `PolicyStateKind`, and a list of *events* per basic block (state writes, replies, client RPCs,
permit / spawn / notify operations, ControlFlow results).  Rules then ask path questions:
"does every path from this arm to the return pass through ...", "can this edge reach ...".
"""
from collections import defaultdict
from mir import callee, callee_names
from an import defs_of, single_def, root_local, ret_blocks, where
from common import fl

SK = "polytune_server_core::state::PolicyStateKind"
PS = "polytune_server_core::state::PolicyState::<B, C>::"
CMD = "polytune_server_core::state::PolicyCmd"
CLIENT = "polytune_server_core::client::PolicyClient::"


class Ev:
    __slots__ = ("kind", "detail", "body", "bk", "block", "nested", "sp", "extra", "via")

    def __init__(self, kind, detail, body, bk, block, sp, nested=None, extra=None, via=None):
        self.kind = kind
        self.detail = detail
        self.body = body
        self.bk = bk
        self.block = block
        self.sp = sp
        self.nested = nested
        self.extra = extra
        self.via = via        # (body key, block) inside the future of a spliced async helper the event really sits in

    def __repr__(self):
        return "%s(%s)@%s%s" % (self.kind, self.detail, fl(self.sp), " [in %s]" % self.nested if self.nested else "")


_FG = [None]


def variant_names(prog):
    a = prog.adts.get(SK)
    return [v["name"] for v in a["variants"]] if a else []


def operand_local(o):
    return o["p"]["l"] if o["k"] in ("copy", "move") else None


def agg_def(b, local):
    """The aggregate rvalue that (solely) defines `local`, following plain moves."""
    seen = set()
    cur = local
    while cur is not None and cur not in seen:
        seen.add(cur)
        d = single_def(b, cur)
        if d is None:
            return None
        bi, si, r = d
        if si == "t":
            return None
        if r["k"] == "agg":
            return r
        if r["k"] == "use" and r["o"]["k"] != "const" and not r["o"]["p"]["pr"]:
            cur = r["o"]["p"]["l"]
            continue
        return None
    return None


def agg_variants(b, local):
    """Variant names of all aggregate definitions reaching `local`: through plain moves, and through the payload
    of a Result / Option the value was wrapped in on the way (`let Err(err) = helper() ..` where the helper
    builds `Err(ScheduleError::X {..})`)."""
    out = set()
    seen = set()
    st = [(local, 0)]          # (local, number of Ok/Err/Some wrappers to strip)
    while st:
        cur, strip = st.pop()
        if (cur, strip) in seen or cur is None or strip > 2:
            continue
        seen.add((cur, strip))
        for bi, si, r in defs_of(b, cur):
            if si == "t":
                # `res.map_err(|e| Error::X {..})`: the error is what the closure returns; the receiver carries the rest
                cn = callee_names(r)
                tail = cn[0].rsplit("::", 1)[-1] if cn else ""
                if tail in ("map_err", "map", "or_else", "ok_or_else", "unwrap_or_else") and _FG[0] is not None:
                    for a in r["args"]:
                        ty = a["p"]["ty"] if a["k"] != "const" else a.get("ty", "")
                        if "{closure:" in ty:
                            for n_ in cn + [ty]:
                                pass
                            cid = ty[ty.index("{closure:") + 9:]
                            cid = cid[:cid.rindex("}")] if cid.endswith("}") else cid
                            for ck in _FG[0].by_id.get(cid, []):
                                if strip:
                                    out |= agg_variants(_FG[0].bodies[ck], 0)
                    if r["args"] and r["args"][0]["k"] != "const" and not r["args"][0]["p"]["pr"]:
                        st.append((r["args"][0]["p"]["l"], strip))
                continue
            if r["k"] == "agg" and r.get("variant"):
                if strip and r.get("adt", "") in ("core::result::Result", "core::option::Option") and r.get("ops") and r["ops"][0]["k"] != "const" and not r["ops"][0]["p"]["pr"]:
                    st.append((r["ops"][0]["p"]["l"], strip - 1 if not r.get("thr") else strip))
                elif not strip:
                    out.add(r["variant"])
            elif r["k"] == "use" and r["o"]["k"] != "const":
                pr = r["o"]["p"]["pr"]
                if not pr:
                    st.append((r["o"]["p"]["l"], strip))
                elif len(pr) == 2 and isinstance(pr[0], dict) and "dc" in pr[0] and isinstance(pr[1], dict) and pr[1].get("f") == 0:
                    st.append((r["o"]["p"]["l"], strip + 1))
    return out


def name_of_operand(b, o, depth=0):
    """User-level name an operand comes from: local name, or upvar / field name chain."""
    if o["k"] == "const":
        return None
    p = o["p"]
    names = [e["n"] for e in p["pr"] if isinstance(e, dict) and "f" in e and e.get("n")]
    if names:
        base = b.locals[p["l"]]["name"]
        return ".".join(([base] if base else []) + names)
    nm = b.locals[p["l"]]["name"]
    if nm:
        return nm
    if depth > 8:
        return None
    d = single_def(b, p["l"])
    if d is None:
        return None
    bi, si, r = d
    if si == "t":
        # Arc / Box / reference plumbing: the name of what is dereferenced or cloned
        cn = callee_names(r)
        if cn and cn[-1].rsplit("::", 1)[-1] in ("deref", "deref_mut", "as_ref", "as_mut", "clone", "borrow") and r["args"] and r["args"][0]["k"] != "const":
            return name_of_operand(b, r["args"][0], depth + 1)
        return None
    if r["k"] == "use":
        return name_of_operand(b, r["o"], depth + 1)
    if r["k"] == "ref":
        return name_of_operand(b, {"k": "copy", "p": r["p"]}, depth + 1)
    return None


def place_is_state_kind(p):
    return any(isinstance(e, dict) and "f" in e and e.get("n") == "state_kind" for e in p["pr"])


def place_field(p, name):
    return any(isinstance(e, dict) and "f" in e and e.get("n") == name for e in p["pr"])


class Handler:
    def __init__(self, fg, owner):
        self.fg = fg
        self.owner = owner
        self.name = owner.rsplit("::", 1)[-1]
        self.bodies = {k: b for k, b in fg.bodies.items() if b.owner == owner}
        self.vnames = variant_names(fg.prog)
        self.user = None      # (key, body) with the state switch / the most user statements
        self.switch = None    # (block, {variant: target}, fallback target or None, via)
        self.switches = []
        self.events = defaultdict(list)  # body key -> [Ev]
        self._find_user()
        self._events()

    # ------------------------------------------------------------ location
    def _find_user(self):
        best = None
        for k, b in self.bodies.items():
            sws = self._state_switches(b)
            sw = sws[0] if sws else None
            score = 0
            for blk in b.blocks:
                for s in blk["s"]:
                    if s["k"] == "assign" and "|" not in s["sp"]:
                        score += 1
            if sw:
                score += 100000
            if best is None or score > best[0]:
                best = (score, k, b, sw, sws)
        if best:
            self.user = (best[1], best[2])
            self.switch = best[3]
            self.switches = best[4]

    def switch_with(self, variant, distinct_from=None):
        """A state switch with an explicit arm for `variant` (whose target differs from the arm
        of `distinct_from`: rules out `matches!(A | B)` tests)."""
        k, b = self.user
        best = None
        for sw in self.switches:
            if variant in sw[1]:
                if distinct_from and sw[1].get(distinct_from) == sw[1][variant]:
                    continue
                # prefer the innermost one (the real `match`, not an early acceptance test)
                if best is None or b.dominates(best[0], sw[0]):
                    best = sw
        return best

    def _state_switches(self, b):
        out = []
        for bi, blk in enumerate(b.blocks):
            t = blk["t"]
            if t["k"] != "switch" or t["o"]["k"] == "const" or bi not in b.live_blocks():
                continue
            for s in blk["s"]:
                if s["k"] == "assign" and s["r"]["k"] == "discr" and s["p"]["l"] == t["o"]["p"]["l"]:
                    p = s["r"]["p"]
                    ty = p.get("ty", "")
                    if ty.startswith(SK):
                        tm = {}
                        for v, tb in t["ts"]:
                            vi = int(v)
                            tm[self.vnames[vi] if vi < len(self.vnames) else str(vi)] = tb
                        other = t["else"]
                        if b.blocks[other]["t"]["k"] == "unreachable" and not b.blocks[other]["s"]:
                            other = None
                        via = "field" if place_is_state_kind(p) else "taken"
                        out.append((bi, tm, other, via, p))
        return out

    # ------------------------------------------------------------ events
    def _events(self):
        for k, b in self.bodies.items():
            self.events[k] = self._body_events(k, b)

    def _body_events(self, k, b):
        evs = []
        for bi, blk in enumerate(b.blocks):
            if blk["cleanup"] or bi not in b.live_blocks():
                continue
            for si, s in enumerate(blk["s"]):
                if s["k"] != "assign":
                    continue
                p, r = s["p"], s["r"]
                # state writes
                if place_is_state_kind(p) and p.get("ty", "").startswith(SK):
                    what = None
                    if r["k"] == "agg" and r.get("adt") == SK:
                        what = r["variant"]
                    elif r["k"] == "use" and r["o"]["k"] != "const":
                        a = agg_def(b, r["o"]["p"]["l"]) if not r["o"]["p"]["pr"] else None
                        if a is not None and a.get("adt") == SK:
                            what = a["variant"]
                        else:
                            # restoring a previously bound / taken state
                            what = "restore:" + (name_of_operand(b, r["o"]) or "?")
                    evs.append(Ev("set_state", what or "?", b, k, bi, s["sp"]))
                elif place_field(p, "permit") and "OwnedSemaphorePermit" in p.get("ty", ""):
                    evs.append(Ev("permit_store", "", b, k, bi, s["sp"]))
                elif any(place_field(p, f) for f in ("channel_senders", "channel_receivers", "consts", "tmp_dir_path", "client_builder", "concurrency")) and not any(e == "*" for e in p["pr"][-1:]):
                    evs.append(Ev("mutate", [e["n"] for e in p["pr"] if isinstance(e, dict) and e.get("n")][-1], b, k, bi, s["sp"]))
                # ControlFlow results
                if p["l"] == 0 and not p["pr"] and r["k"] == "agg" and r.get("adt", "").endswith("ControlFlow"):
                    if "m:tracing::instrument" in s["sp"] or "m:instrument" in s["sp"]:
                        continue
                    evs.append(Ev("flow", r["variant"], b, k, bi, s["sp"]))
                # closures / async blocks built here: their events are attributed to this block
                if r["k"] == "agg" and r.get("def"):
                    for ck, cb in self.bodies.items():
                        if cb.id == r["def"]:
                            # the future of a new `async fn` helper that was spliced in (rules/inline.py) is awaited where
                            # it is built: its events happen here, like those of code written in place
                            inline_helper = bool(cb.j.get("reowned_from")) and bool(blk.get("inl"))
                            for e in self._nested_events(ck, cb):
                                evs.append(Ev(e.kind, e.detail, b, k, bi, e.sp, nested=None if inline_helper else cb.id.replace(self.owner, ""), extra=e.extra,
                                              via=(e.via or (e.bk, e.block)) if inline_helper else None))
            t = blk["t"]
            if t["k"] == "call":
                if t["d"]["l"] == 0 and not t["d"]["pr"] and any(n.endswith("from_residual") for n in callee_names(t)) and "instrument" not in t["sp"]:
                    evs.append(Ev("flow", "Residual", b, k, bi, t["sp"]))
                evs.extend(self._call_events(k, b, bi, t))
        return evs

    def _nested_events(self, ck, cb, depth=0):
        out = []
        if depth > 6:
            return out
        for bi, blk in enumerate(cb.blocks):
            if blk["cleanup"] or bi not in cb.live_blocks():
                continue
            for s in blk["s"]:
                if s["k"] == "assign" and s["r"]["k"] == "agg" and s["r"].get("def"):
                    for ck2, cb2 in self.bodies.items():
                        if cb2.id == s["r"]["def"]:
                            out.extend(self._nested_events(ck2, cb2, depth + 1))
                # stores into the actor made by the nested body (`self.permit = Some(..)` inside an async helper)
                if s["k"] == "assign" and cb.j.get("reowned_from"):
                    p_ = s["p"]
                    if place_field(p_, "permit") and "OwnedSemaphorePermit" in p_.get("ty", ""):
                        out.append(Ev("permit_store", "", cb, ck, bi, s["sp"]))
                    elif place_is_state_kind(p_) and p_.get("ty", "").startswith(SK) and s["r"]["k"] == "agg" and s["r"].get("adt") == SK:
                        out.append(Ev("set_state", s["r"]["variant"], cb, ck, bi, s["sp"]))
                    elif any(place_field(p_, f) for f in ("channel_senders", "channel_receivers", "consts", "tmp_dir_path", "client_builder", "concurrency")) and not any(e == "*" for e in p_["pr"][-1:]):
                        out.append(Ev("mutate", [e["n"] for e in p_["pr"] if isinstance(e, dict) and e.get("n")][-1], cb, ck, bi, s["sp"]))
            t = blk["t"]
            if t["k"] == "call":
                out.extend(self._call_events(ck, cb, bi, t))
        return out

    def _call_events(self, k, b, bi, t):
        evs = []
        names = callee_names(t)
        if not names:
            return evs
        sp = t["sp"]
        n0 = names[0]
        args = t["args"]

        def ev(kind, detail="", extra=None):
            evs.append(Ev(kind, detail, b, k, bi, sp, extra=extra))
        def ret_kind(a):
            """error type of a `Ret<E>` = oneshot::Sender<Result<(), E>> operand (e.g. 'ScheduleError')"""
            ty = a["p"]["ty"] if a["k"] != "const" else ""
            i = ty.find("Result<(), ")
            if i < 0:
                return name_of_operand(b, a) or "?"
            e = ty[i + len("Result<(), "):]
            e = e.split(">")[0]
            return e.rsplit("::", 1)[-1]
        if n0 == "polytune_server_core::state::ret_err":
            vs = agg_variants(b, operand_local(args[1])) if operand_local(args[1]) is not None else set()
            ev("reply_err", ret_kind(args[0]), extra="|".join(sorted(vs)) or None)
        elif n0.endswith("oneshot::Sender::<T>::send"):
            val = agg_def(b, operand_local(args[1])) if operand_local(args[1]) is not None else None
            ty = args[0]["p"]["ty"] if args[0]["k"] != "const" else ""
            who = ret_kind(args[0]) if "Result<()" in ty else (name_of_operand(b, args[0]) or "?")
            if "Result<()" in ty:
                if val is not None and val.get("variant") == "Ok":
                    ev("reply_ok", who)
                elif val is not None and val.get("variant") == "Err":
                    ev("reply_err", who)
                else:
                    ev("reply", who)
            else:
                ev("oneshot_send", who)
        elif n0.startswith(CLIENT):
            m = n0[len(CLIENT):]
            extra = None
            if m == "output" and len(args) >= 3:
                a = agg_def(b, operand_local(args[2])) if operand_local(args[2]) is not None else None
                if a is not None:
                    extra = a.get("variant")
                    if extra == "Err" and a["ops"] and a["ops"][0]["k"] != "const":
                        inner = agg_def(b, a["ops"][0]["p"]["l"])
                        if inner is not None:
                            extra = "Err:" + str(inner.get("variant"))
            ev("client", m, extra=extra)
        elif n0 in ("core::mem::take", "core::mem::replace", "std::mem::take", "std::mem::replace") and args and args[0]["k"] != "const" and "PolicyStateKind" in args[0]["p"]["ty"]:
            ev("take_state")
        elif n0.endswith("Semaphore::acquire_owned"):
            ev("acquire")
        elif n0.endswith("Option::<T>::take") and args and "OwnedSemaphorePermit" in (args[0]["p"]["ty"] if args[0]["k"] != "const" else ""):
            ev("permit_take")
        elif n0.startswith("tokio::task::spawn::spawn") or n0 == "tokio::spawn" or n0.endswith("task::spawn::spawn"):
            ev("spawn")
        elif n0.startswith("std::thread::spawn") or n0.endswith("thread::spawn"):
            ev("thread_spawn")
        elif n0 == PS + "init_channel":
            ev("init_channel")
        elif n0 == PS + "insert_consts":
            ev("insert_consts")
        elif n0 == PS + "check_consts":
            ev("check_consts")
        elif n0 == "polytune_server_core::state::send_cancel":
            ev("send_cancel")
        elif n0.endswith("Notify::notify_one") or n0.endswith("Notify::notify_waiters"):
            rl = root_local(b, args[0])
            ev("notify", (b.locals[rl]["name"] if rl is not None else None) or name_of_operand(b, args[0]) or "?", extra=n0.rsplit("::", 1)[-1])
        elif n0.endswith("Notify::notified"):
            rl = root_local(b, args[0])
            ev("notified", (b.locals[rl]["name"] if rl is not None else None) or name_of_operand(b, args[0]) or "?")
        elif n0.endswith("mpsc::bounded::Sender::<T>::send") or n0.endswith("mpsc::Sender::<T>::send"):
            ty = args[0]["p"]["ty"] if args[0]["k"] != "const" else ""
            if "PolicyCmd" in ty:
                a = agg_def(b, operand_local(args[1])) if operand_local(args[1]) is not None else None
                ev("self_cmd", (a or {}).get("variant", "?"))
            else:
                ev("queue_send", name_of_operand(b, args[0]) or "?")
        elif n0 == "polytune::mpc::protocol::mpc" or n0.endswith("::mpc::protocol::mpc"):
            ev("mpc")
        elif n0 == "garble_lang::check":
            ev("typecheck")
        elif n0.endswith("new_client"):
            ev("new_client")
        elif n0.startswith(PS):
            ev("handler", n0[len(PS):])
        elif "panicking::panic" in n0 or n0.endswith("::expect") or n0.endswith("::unwrap") or "panic_fmt" in n0 or n0.endswith("unwrap_failed") or n0.endswith("expect_failed"):
            ev("panic", n0.rsplit("::", 1)[-1])
        elif n0.endswith("try_join_all"):
            ev("join_all")
        elif n0.endswith("Index::index") or n0.endswith("IndexMut::index_mut"):
            ev("index", name_of_operand(b, args[0]) or "?", extra=name_of_operand(b, args[1]) if len(args) > 1 else None)
        return evs

    # ------------------------------------------------------------ queries on the user body
    def blocks_with(self, pred):
        k, b = self.user
        return {e.block for e in self.events[k] if pred(e)}

    def evs(self, pred=None):
        k, b = self.user
        return [e for e in self.events[k] if pred is None or pred(e)]

    def region(self, start, avoid=frozenset()):
        k, b = self.user
        return b.reachable_from(start, frozenset(avoid))

    def events_in(self, blocks, pred=None):
        k, b = self.user
        return [e for e in self.events[k] if e.block in blocks and (pred is None or pred(e))]

    def returns(self):
        k, b = self.user
        return {bi for bi, blk in enumerate(b.blocks) if blk["t"]["k"] == "return" and bi in b.live_blocks()}

    def every_path_hits(self, start, targets, avoid=frozenset()):
        """Every path from `start` to a return passes through a block in `targets`."""
        k, b = self.user
        if start in targets:
            return True
        r = b.reachable_from(start, frozenset(set(targets) | set(avoid)))
        return not (r & self.returns())

    def some_path_avoiding(self, start, avoid):
        k, b = self.user
        r = b.reachable_from(start, frozenset(avoid))
        return bool(r & self.returns())

    def for_state(self, variant):
        """The handler specialised for one state: every switch on the state is replaced by a jump to the target
        this state takes (block numbers, and therefore events, are unchanged).  Makes arm-local questions exact
        when the handler tests the state more than once (`matches!(state, A | B)` first, `match take(state)` later)."""
        import copy
        from mir import Body
        k, b = self.user
        if len(self.switches) < 2:
            return self
        nj = dict(b.j)
        blocks = list(b.j["blocks"])
        for (bi, tm, other, via, p) in self.switches:
            tgt = tm.get(variant, other)
            if tgt is None:
                continue
            nb = dict(blocks[bi])
            nb["t"] = {"k": "goto", "t": tgt, "sp": blocks[bi]["t"].get("sp", ""), "state_of": variant}
            blocks[bi] = nb
        nj["blocks"] = blocks
        hv = copy.copy(self)
        hv.user = (k, Body(nj, b.krate))
        hv.bodies = dict(self.bodies)
        hv.bodies[k] = hv.user[1]
        return hv

    def arm(self, variant, sw=None):
        """Entry block of the arm handling `variant` (explicit or fallback), and whether explicit."""
        sw = sw or self.switch
        if not sw:
            return None, False
        bi, tm, other, via, p = sw
        if variant in tm:
            return tm[variant], True
        return other, False


def extract(fg):
    _FG[0] = fg
    hs = {}
    for name in ("schedule", "validate", "run", "consts", "internal_consts_sent", "msg", "cancel", "handle_cmd", "check_consts", "start", "init_channel", "insert_consts"):
        owner = PS + name
        if any(b.owner == owner for b in fg.bodies.values()):
            hs[name] = Handler(fg, owner)
    return hs
