"""Channel call inventory: every send / receive site with its protocol phase label."""
from collections import defaultdict
from mir import callee, callee_names

CH = "polytune::channel::"
FA = "polytune::mpc::faand::"
SEND = CH + "send_to"
RECV = CH + "recv_from"
RECV_VEC = CH + "recv_vec_from"
SCATTER = CH + "scatter"
UBCAST = CH + "unverified_broadcast"
BCAST = FA + "broadcast"
BFSS = FA + "broadcast_first_scatter_second"
BVERIF = FA + "broadcast_verification"

# kind, sends?, receives?, verified?
PRIMS = {
    SEND: ("send", True, False, False),
    RECV: ("recv", False, True, False),
    RECV_VEC: ("recv_vec", False, True, False),
    SCATTER: ("scatter", True, True, False),
    UBCAST: ("unverified_broadcast", True, True, False),
    BCAST: ("broadcast", True, True, True),
    BFSS: ("broadcast_first_scatter_second", True, True, True),
    BVERIF: ("broadcast_verification", True, True, True),
}
RAW_SEND = "polytune::channel::Channel::send_bytes_to"
RAW_RECV = "polytune::channel::Channel::recv_bytes_from"


class Site:
    __slots__ = ("body", "bk", "block", "term", "prim", "kind", "label", "label_src", "phase_arg", "sp")

    def __repr__(self):
        return "Site(%s %s %r @%s)" % (self.kind, self.body.owner, self.label, self.sp.split("|")[0])


def _phase_param_index(prog, prim):
    """Index (0-based among args) of the &str parameter of a primitive, from its own body."""
    for k, o in prog.find_fns(prim.split("::", 1)[1], None):
        pass
    fam = [b for b in prog.family(prim) if b.id == prim]
    if not fam:
        return None
    b = fam[0]
    for i in range(1, b.argc + 1):
        if b.locals[i]["ty"] == "&str":
            return i - 1
    return None


def _slice_consts(b, local, depth=0, seen=None):
    """Backward slice of `local` inside body b collecting string constants and parameter locals."""
    if seen is None:
        seen = set()
    consts, params = [], []
    st = [local]
    while st:
        l = st.pop()
        if l in seen:
            continue
        seen.add(l)
        if 1 <= l <= b.argc:
            params.append(l)
        for blk in b.blocks:
            for s in blk["s"]:
                if s["k"] != "assign" or s["p"]["l"] != l:
                    continue
                r = s["r"]
                ops = []
                if r["k"] in ("use", "cast", "un"):
                    ops = [r.get("o") or r.get("a")]
                elif r["k"] == "ref":
                    st.append(r["p"]["l"])
                elif r["k"] == "bin":
                    ops = [r["a"], r["b"]]
                elif r["k"] == "agg":
                    ops = r["ops"]
                for o in ops:
                    if o is None:
                        continue
                    if o["k"] == "const":
                        if "str" in o:
                            consts.append(o["str"])
                    else:
                        st.append(o["p"]["l"])
            t = blk["t"]
            if t["k"] == "call" and t["d"]["l"] == l:
                for o in t["args"]:
                    if o["k"] == "const":
                        if "str" in o:
                            consts.append(o["str"])
                    else:
                        st.append(o["p"]["l"])
    return consts, params


def upvar_origin(prog, b, field_idx):
    """For a closure/coroutine body b and an upvar field index: (parent body, operand) that
    initialises it, following the construction site in the parent."""
    all_ = upvar_origins(prog, b, field_idx)
    return all_[0] if all_ else None


def upvar_origins(prog, b, field_idx):
    """all construction sites (a spliced `async fn` helper is built wherever it was called)"""
    if not b.parent:
        return []
    cands = [p for p in prog.family(b.owner, b.krate) if p.id == b.parent]
    if not cands or b.j.get("reowned_from"):
        cands = [p for p in prog.family(b.owner, b.krate) if p is not b]
    out = []
    for pb in cands:
        for blk in pb.blocks:
            if blk.get("thr"):
                continue
            for s in blk["s"]:
                if s["k"] == "assign" and s["r"]["k"] == "agg" and s["r"].get("def") == b.id:
                    ops = s["r"]["ops"]
                    if field_idx < len(ops):
                        out.append((pb, ops[field_idx]))
    return out


def resolve_label(prog, b, operand, depth=0):
    """Resolve a phase-label operand to ('const', str) | ('param', fn_owner, idx) | ('concat', prefix, inner) | ('?',)"""
    if operand["k"] == "const":
        if "str" in operand:
            return ("const", operand["str"])
        return ("?",)
    if depth > 12:
        return ("?",)
    p = operand["p"]
    l = p["l"]
    # upvar of closure / coroutine
    if l == 1 and b.parent and p["pr"]:
        f = None
        for e in p["pr"]:
            if isinstance(e, dict) and "f" in e:
                f = e["f"]
                break
        if f is not None:
            orgs = upvar_origins(prog, b, f)
            if len(orgs) == 1:
                return resolve_label(prog, orgs[0][0], orgs[0][1], depth + 1)
            if len(orgs) > 1:
                return ("multi", tuple(resolve_label(prog, o[0], o[1], depth + 1) for o in orgs))
        return ("?",)
    consts, params = _slice_consts(b, l)
    # params of a closure body: env (_1) handled through explicit upvar reads
    res_params = []
    for pl in params:
        if b.parent and pl == 1:
            # find upvar fields read into the slice: approximate by scanning assignments reading _1.f
            continue
        res_params.append(pl)
    # detect reads of _1.<field> feeding the slice
    up = []
    if b.parent:
        seen_locals = set()
        c2, p2 = _slice_consts(b, l, seen=seen_locals)
        for blk in b.blocks:
            for s in blk["s"]:
                if s["k"] == "assign" and s["p"]["l"] in seen_locals:
                    r = s["r"]
                    pl = None
                    if r["k"] == "use" and r["o"]["k"] != "const":
                        pl = r["o"]["p"]
                    elif r["k"] == "ref":
                        pl = r["p"]
                    if pl is not None and pl["l"] == 1:
                        for e in pl["pr"]:
                            if isinstance(e, dict) and "f" in e:
                                up.append(e["f"])
                                break
    inner = None
    if up:
        orgs = upvar_origins(prog, b, up[0])
        if len(orgs) == 1:
            inner = resolve_label(prog, orgs[0][0], orgs[0][1], depth + 1)
        elif len(orgs) > 1:
            inner = ("multi", tuple(resolve_label(prog, o[0], o[1], depth + 1) for o in orgs))
    elif res_params and not b.parent:
        inner = ("param", b.owner, res_params[0] - 1)
    elif res_params and b.parent:
        inner = ("closure_param", b.id, res_params[0])
    if consts and inner is None:
        if len(set(consts)) == 1:
            return ("const", consts[0])
        return ("?",)
    if consts and inner is not None:
        return ("concat", consts[0], inner)
    if inner is not None:
        return inner
    return ("?",)


class ChannelInventory:
    def __init__(self, prog, krate="polytune"):
        self.prog = prog
        self.sites = []
        self.raw_sites = []
        self.phase_idx = {}
        for prim in PRIMS:
            self.phase_idx[prim] = _phase_param_index(prog, prim)
        for key, b in prog.bodies.items():
            if b.krate != krate:
                continue
            for bi, t in b.calls():
                names = callee_names(t)
                for n in names:
                    if n in PRIMS:
                        s = Site()
                        s.body = b
                        s.bk = key
                        s.block = bi
                        s.term = t
                        s.prim = n
                        s.kind = PRIMS[n][0]
                        s.phase_arg = self.phase_idx[n]
                        s.sp = t["sp"]
                        s.label_src = resolve_label(prog, b, t["args"][s.phase_arg]) if s.phase_arg is not None else ("?",)
                        s.label = None
                        self.sites.append(s)
                        break
                    if n in (RAW_SEND, RAW_RECV):
                        self.raw_sites.append((b, bi, t, n))
                        break
        # new wrappers: a function outside the table whose channel operations all take their label from the
        # function's own `&str` parameter forwards its caller's message (e.g. a helper factored out of
        # `scatter` / `unverified_broadcast`).  It becomes part of the channel layer: its calls are the sites.
        for _round in range(3):
            by_owner = defaultdict(list)
            for s in self.sites:
                by_owner[s.body.owner].append(s)
            new = {}
            for owner, ss in by_owner.items():
                if owner in PRIMS:
                    continue
                # ... and performs each of them at most once per call: a helper that *loops* over sends / receives
                # (streams a message in parts) is engine code - its sites stay visible to the channel-discipline rules,
                # only their labels come from the callers
                def in_loop(site):
                    bb = site.body
                    return site.block in bb.reachable_from(bb.succ()[site.block][0]) if bb.succ()[site.block] else False
                if all(s.label_src[0] == "param" and s.label_src[1] == owner for s in ss) and not any(in_loop(s) for s in ss):
                    idxs = {s.label_src[2] for s in ss}
                    if len(idxs) == 1:
                        new[owner] = (list(idxs)[0], any(PRIMS[s.prim][1] for s in ss), any(PRIMS[s.prim][2] for s in ss), all(PRIMS[s.prim][3] for s in ss))
            if not new:
                break
            for owner, (idx, snd, rcv, ver) in new.items():
                PRIMS[owner] = ("wrapper:" + owner.rsplit("::", 1)[-1], snd, rcv, ver)
                self.phase_idx[owner] = idx
            for key, b in prog.bodies.items():
                if b.krate != krate:
                    continue
                for bi, t in b.calls():
                    for n in callee_names(t):
                        if n in new:
                            s = Site()
                            s.body, s.bk, s.block, s.term, s.prim = b, key, bi, t, n
                            s.kind = PRIMS[n][0]
                            s.phase_arg = self.phase_idx[n]
                            s.sp = t["sp"]
                            s.label_src = resolve_label(prog, b, t["args"][s.phase_arg]) if s.phase_arg < len(t["args"]) else ("?",)
                            s.label = None
                            self.sites.append(s)
                            break
        # interprocedural: labels flowing into a function's phase parameter
        self.param_labels = defaultdict(set)  # (fn owner, arg idx) -> concrete labels
        changed = True
        rounds = 0
        while changed and rounds < 10:
            changed = False
            rounds += 1
            for s in self.sites:
                for lab in self.concretize(s.label_src):
                    # this site passes `lab` into prim's phase param
                    key = (s.prim, s.phase_arg)
                    if lab not in self.param_labels[key]:
                        self.param_labels[key].add(lab)
                        changed = True
        # wrappers that are not in PRIMS (a new helper that forwards its `phase` parameter): labels flow into
        # their parameter from every call site of the wrapper
        def params_of(src):
            if src[0] == "param":
                return {(src[1], src[2])}
            if src[0] == "concat":
                return params_of(src[2])
            if src[0] == "multi":
                out_ = set()
                for x_ in src[1]:
                    out_ |= params_of(x_)
                return out_
            return set()
        for _ in range(4):
            need = set()
            for s in self.sites:
                if not self.concretize(s.label_src):
                    need |= params_of(s.label_src)
            need = {x for x in need if x[0] not in PRIMS}
            if not need:
                break
            fns = {x[0] for x in need}
            grew = False
            for key, b in prog.bodies.items():
                if b.krate != krate:
                    continue
                for bi, t in b.calls():
                    for n in callee_names(t):
                        if n in fns:
                            for (fn, idx) in need:
                                if fn == n and idx < len(t["args"]):
                                    src = resolve_label(prog, b, t["args"][idx])
                                    for lab in self.concretize(src):
                                        if lab not in self.param_labels[(fn, idx)]:
                                            self.param_labels[(fn, idx)].add(lab)
                                            grew = True
                                    # the caller forwards its own parameter: resolve that one in the next round
                                    for (f2, i2) in params_of(src):
                                        if not self.param_labels.get((f2, i2)) and f2 not in PRIMS:
                                            pass
            if not grew:
                break
        for s in self.sites:
            labs = self.concretize(s.label_src)
            s.label = sorted(labs) if labs else None

    def concretize(self, src):
        k = src[0]
        if k == "const":
            return {src[1]}
        if k == "param":
            return set(self.param_labels.get((src[1], src[2]), ()))
        if k == "concat":
            return {src[1] + x for x in self.concretize(src[2])}
        if k == "multi":
            out = set()
            for x in src[1]:
                out |= self.concretize(x)
            return out
        return set()

    def direct_sites(self):
        """Sites outside the channel layer itself (channel.rs helpers and faand::broadcast*)."""
        layer = set(PRIMS)
        return [s for s in self.sites if s.body.owner not in layer]
