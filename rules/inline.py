"""Helper transparency: calls of *new* local helper functions are inlined into their callers, and the
branch the caller takes on the helper's result is threaded through the helper's return paths.

Why: every rule family reasons about one control-flow graph at a time (fail-closed edges, dominance of a
use by the good edge of a check, events on a path).  The most common behaviour-preserving refactor moves a
check into a helper that returns `Result` / `Option` / `bool` and writes `helper(..)?` (or `if let Err(e) =
helper(..)`) at the old place.  Without this pass the check "disappears" from the function the rule looks at.

Which functions: only functions whose path is *not* in `known_fns.txt`, the list of every function of the
reviewed tree.  Functions of the reviewed tree keep their call boundary (the rules name several of them as
anchors: `open_commitment`, `broadcast_verification`, `init_channel`, ...), so the pass changes nothing on the
reviewed tree.  A function that did not exist there is by construction not an anchor of any rule; its body
is spliced into each caller (non-async `fn`s only, recursion-free, bounded size and depth).

Threading: after the splice the helper's return value reaches the caller's `?` / `match` / `if` through a
join, and a path-insensitive analysis would see the helper's `Err(..)` path continue into the caller's
success branch.  The return paths are therefore split by the variant they construct (`Ok`/`Err`,
`Some`/`None`, `true`/`false`): the continuation of the call up to the switch on the result's discriminant
(through `Try::branch`) is duplicated per variant and the switch is resolved in each copy.  This is the
classic jump threading of an optimising compiler, done on the fact files.
"""
import os, copy

HERE = os.path.dirname(os.path.abspath(__file__))
KNOWN_FILE = os.path.join(HERE, "known_fns.txt")
MAX_BLOCKS = 400
MAX_DEPTH = 4
MODELS_ON = True
THREAD_ALL = True
MAX_AGE = 24
LOG_MACROS = ("|m:debug", "|m:info", "|m:warn", "|m:error", "|m:trace", "|m:instrument", "|m:event", "|m:span", "|m:tracing", "|m:log", "|m:debug_span", "|m:info_span", "|m:warn_span", "|m:error_span", "|m:trace_span", "|m:enabled")
LOOP_MODEL_HOSTS = ("polytune::mpc::protocol::validate",)
PRESERVING = ("map", "map_err", "copied", "cloned", "as_ref", "as_mut", "as_deref", "as_deref_mut", "inspect", "inspect_err")

_known = None


def known_fns():
    global _known
    if _known is None:
        with open(KNOWN_FILE) as f:
            _known = {l.strip() for l in f if l.strip() and not l.startswith("#")}
    return _known


# ------------------------------------------------------------------ renumbering
def _mp(p, lo):
    return {"l": p["l"] + lo, "pr": [({"i": e["i"] + lo} if isinstance(e, dict) and "i" in e else e) for e in p["pr"]], "ty": p.get("ty", "")}


def _mo(o, lo):
    if o is None:
        return None
    if o.get("k") in ("copy", "move"):
        n = dict(o)
        n["p"] = _mp(o["p"], lo)
        return n
    return o


def _mr(r, lo):
    n = dict(r)
    for k in ("o", "a", "b"):
        if k in n and isinstance(n[k], dict):
            n[k] = _mo(n[k], lo)
    if "p" in n and isinstance(n["p"], dict):
        n["p"] = _mp(n["p"], lo)
    if "ops" in n:
        n["ops"] = [_mo(o, lo) for o in n["ops"]]
    return n


def _ms(s, lo):
    n = dict(s)
    if s["k"] == "assign":
        n["p"] = _mp(s["p"], lo)
        n["r"] = _mr(s["r"], lo)
    elif s["k"] == "setdiscr":
        n["p"] = _mp(s["p"], lo)
    elif s["k"] == "dead":
        n["l"] = s["l"] + lo
    return n


def _mt(t, lo, bo):
    n = dict(t)
    k = t["k"]
    if k == "goto":
        n["t"] = t["t"] + bo
    elif k == "switch":
        n["o"] = _mo(t["o"], lo)
        n["ts"] = [[v, tb + bo] for v, tb in t["ts"]]
        n["else"] = t["else"] + bo
    elif k == "drop":
        n["p"] = _mp(t["p"], lo)
        n["t"] = t["t"] + bo
    elif k == "call":
        n["f"] = _mo(t["f"], lo) if t["f"].get("k") in ("copy", "move") else t["f"]
        n["args"] = [_mo(a, lo) for a in t["args"]]
        n["d"] = _mp(t["d"], lo)
        n["t"] = (t["t"] + bo) if t["t"] is not None else None
    elif k == "tailcall":
        n["args"] = [_mo(a, lo) for a in t["args"]]
    elif k == "assert":
        n["c"] = _mo(t["c"], lo)
        n["mops"] = [_mo(a, lo) for a in t.get("mops", [])]
        n["t"] = t["t"] + bo
    elif k == "yield":
        n["v"] = _mo(t["v"], lo)
        n["ra"] = _mp(t["ra"], lo)
        n["t"] = t["t"] + bo
        if t.get("drop") is not None:
            n["drop"] = t["drop"] + bo
    return n


def _retarget(t, f):
    """apply f to every successor index of terminator t (in place on a copy)"""
    n = dict(t)
    k = t["k"]
    if k == "goto":
        n["t"] = f(t["t"])
    elif k == "switch":
        n["ts"] = [[v, f(tb)] for v, tb in t["ts"]]
        n["else"] = f(t["else"])
    elif k in ("drop", "assert"):
        n["t"] = f(t["t"])
    elif k == "call":
        n["t"] = f(t["t"]) if t["t"] is not None else None
    elif k == "yield":
        n["t"] = f(t["t"])
    return n


def _succs(t):
    k = t["k"]
    if k == "goto":
        return [t["t"]]
    if k == "switch":
        return [tb for _v, tb in t["ts"]] + [t["else"]]
    if k in ("drop", "assert", "yield"):
        return [t["t"]]
    if k == "call":
        return [t["t"]] if t["t"] is not None else []
    return []


# ------------------------------------------------------------------ variant states
RESULT = "core::result::Result"
OPTION = "core::option::Option"
CFLOW = "core::ops::control_flow::ControlFlow"


def _assigned_state(s, rl):
    """state of return local rl after statement s (None: s does not write rl)"""
    if s["k"] != "assign" or s["p"]["l"] != rl:
        return None
    if s["p"]["pr"]:
        return "U"
    r = s["r"]
    if r["k"] == "agg" and r.get("ak") == "adt" and r.get("adt") in (RESULT, OPTION, CFLOW):
        return (r["adt"], r["vi"])
    if r["k"] == "use" and r["o"]["k"] == "const" and r["o"].get("ty") == "bool":
        v = r["o"].get("v")
        if v in ("true", "1"):
            return ("bool", 1)
        if v in ("false", "0"):
            return ("bool", 0)
    return "U"


def _call_state(t, rl, rl_ty):
    """state of rl after a call terminator that writes it"""
    if t["k"] != "call" or t["d"]["l"] != rl:
        return None
    if t["d"]["pr"]:
        return "U"
    fn = (t["f"].get("fn") or {}) if t["f"].get("k") == "const" else {}
    if fn.get("def", "").endswith("FromResidual::from_residual"):
        # `?` inside the helper: the early return is the residual variant
        if rl_ty.startswith(RESULT + "<"):
            return (RESULT, 1)
        if rl_ty.startswith(OPTION + "<"):
            return (OPTION, 0)
    return "U"


def _branch_map(state, callee_name):
    """variant of the result of `Try::branch(x)` given the variant of x"""
    adt, vi = state
    if adt == RESULT:
        return (CFLOW, 0 if vi == 0 else 1)
    if adt == OPTION:
        return (CFLOW, 0 if vi == 1 else 1)
    return None


def _chain(blocks, start, dest_l):
    """continuation of an inlined call: blocks from `start` up to the switch that tests the returned value.
    Returns (list of block indices, switch block, kind) or None.  Tracks the locals the value is moved to."""
    holds = set(dest_l) if isinstance(dest_l, (set, list, tuple)) else {dest_l}
    seq = []
    cur = start
    tried = False
    for _ in range(6):
        blk = blocks[cur]
        seq.append(cur)
        discr_of = None
        for s in blk["s"]:
            if s["k"] == "dead":
                continue
            if s["k"] != "assign":
                return None
            r = s["r"]
            if r["k"] == "use" and r["o"].get("k") in ("copy", "move") and r["o"]["p"]["l"] in holds and not r["o"]["p"]["pr"] and not s["p"]["pr"]:
                holds.add(s["p"]["l"])
                continue
            if r["k"] == "discr" and r["p"]["l"] in holds and not r["p"]["pr"] and not s["p"]["pr"]:
                discr_of = s["p"]["l"]
                continue
            if r["k"] == "ref" and r["p"]["l"] in holds and not r["p"]["pr"]:
                # `match &helper()` - keep following the reference
                holds.add(s["p"]["l"])
                continue
            return None
        t = blk["t"]
        if t["k"] == "switch":
            o = t["o"]
            if o.get("k") not in ("copy", "move") or o["p"]["pr"]:
                return None
            if discr_of is not None and o["p"]["l"] == discr_of:
                return seq, cur, ("discr", tried)
            if o["p"]["l"] in holds:
                return seq, cur, ("bool", tried)
            return None
        if t["k"] == "goto":
            cur = t["t"]
            continue
        if t["k"] == "call" and t["t"] is not None and len(t["args"]) == 1 and t["args"][0].get("k") in ("copy", "move") \
                and t["args"][0]["p"]["l"] in holds and not t["args"][0]["p"]["pr"] and not t["d"]["pr"]:
            fn = (t["f"].get("fn") or {}) if t["f"].get("k") == "const" else {}
            if fn.get("def", "").endswith("Try::branch") and not tried:
                tried = True
                holds = {t["d"]["l"]}
                cur = t["t"]
                continue
        return None
    return None


def _thread(blocks, region, entry, rl, cont, dest_l, rl_ty=""):
    """Split the inlined region [list of block indices] by the variant held in return local rl and resolve the
    caller's switch on the result.  `cont` is the block the callee's returns jump to (already rewritten to
    `dest = move rl; goto cont`).  Appends new blocks; returns number of switches resolved."""
    ch = _chain(blocks, cont, {rl})
    if ch is None:
        # no branch on the result in sight (e.g. the call is the caller's tail expression): the return paths are
        # still split, so that the value handed on is known to be `Err(..)` / `Ok(..)` on each of them
        seq, swb, kind, tried = [cont], None, None, False
        sw = None
    else:
        seq, swb, (kind, tried) = ch
        sw = blocks[swb]["t"]
    rset = set(region)
    # forward exploration of (block, state)
    start = (entry, "U")
    index = {}
    order = []
    work = [start]
    while work:
        node = work.pop()
        if node in index:
            continue
        index[node] = None
        order.append(node)
        bi, st = node
        if bi in rset:
            out = st
            for s in blocks[bi]["s"]:
                a = _assigned_state(s, rl)
                if a is not None:
                    out = a
            t = blocks[bi]["t"]
            cs = _call_state(t, rl, rl_ty)
            if cs is not None:
                out = cs
            for x in _succs(t):
                if x in rset or x == cont:
                    work.append((x, out))
        else:
            # continuation chain
            pos = seq.index(bi)
            if bi == swb or pos + 1 >= len(seq):
                continue
            nxt = seq[pos + 1]
            work.append((nxt, st))
    known_states = {st for (_bi, st) in order if st != "U"}
    if not known_states:
        return 0
    # allocate copies for every node with a known state; nodes in state U keep the original block
    new_index = {}
    for node in order:
        bi, st = node
        if st == "U":
            new_index[node] = bi
        else:
            new_index[node] = len(blocks)
            blocks.append(None)
    resolved = 0
    for node in order:
        bi, st = node
        if st == "U":
            continue
        ni = new_index[node]
        blk = blocks[bi]
        if bi in rset:
            out = st
            for s in blk["s"]:
                a = _assigned_state(s, rl)
                if a is not None:
                    out = a
            cs = _call_state(blk["t"], rl, rl_ty)
            if cs is not None:
                out = cs
            nt = _retarget(blk["t"], lambda x, out=out: new_index.get((x, out), x) if (x in rset or x == cont) else x)
            blocks[ni] = {"s": list(blk["s"]), "t": nt, "cleanup": blk.get("cleanup", False), "thr": [bi, str(st)]}
        else:
            if bi == swb:
                # resolve the switch
                s2 = st
                if tried:
                    s2 = _branch_map(st, None)
                tgt = None
                if s2 is not None:
                    if kind == "discr" and s2[0] != "bool":
                        tm = {str(v): tb for v, tb in sw["ts"]}
                        tgt = tm.get(str(s2[1]), sw["else"])
                    elif kind == "bool" and s2[0] == "bool":
                        tm = {str(v): tb for v, tb in sw["ts"]}
                        tgt = tm.get(str(s2[1]), sw["else"])
                if tgt is None:
                    blocks[ni] = {"s": list(blk["s"]), "t": blk["t"], "cleanup": False, "thr": [bi, str(st)]}
                else:
                    blocks[ni] = {"s": list(blk["s"]), "t": {"k": "goto", "t": tgt, "thr_of": swb}, "cleanup": False, "thr": [bi, str(st)]}
                    resolved += 1
            else:
                pos = seq.index(bi)
                nxt = seq[pos + 1] if pos + 1 < len(seq) else None
                nt = _retarget(blk["t"], lambda x, st=st, nxt=nxt: new_index.get((x, st), x) if x == nxt else x)
                stmts = list(blk["s"])
                if bi == cont and st[0] in (RESULT, OPTION):
                    # `dest = move ret`  ->  `dest = Variant(ret)`: the variant is known on this copy
                    vn = {(RESULT, 0): "Ok", (RESULT, 1): "Err", (OPTION, 0): "None", (OPTION, 1): "Some"}[(st[0], st[1])]
                    stmts = [dict(s_, r={"k": "agg", "ak": "adt", "adt": st[0], "variant": vn, "vi": st[1], "fields": ["0"], "ops": [s_["r"]["o"]], "thr": True}) if s_.get("inl_ret") else s_ for s_ in stmts]
                blocks[ni] = {"s": stmts, "t": nt, "cleanup": False, "thr": [bi, str(st)]}
    # edges from U-state region blocks into known-state successors
    for node in order:
        bi, st = node
        if st != "U" or bi not in rset:
            continue
        blk = blocks[bi]
        out = "U"
        for s in blk["s"]:
            a = _assigned_state(s, rl)
            if a is not None:
                out = a
        cs = _call_state(blk["t"], rl, rl_ty)
        if cs is not None:
            out = cs
        if out != "U":
            blk["t"] = _retarget(blk["t"], lambda x, out=out: new_index.get((x, out), x) if (x in rset or x == cont) else x)
    return resolved


# ------------------------------------------------------------------ models of std combinators
# A handful of std adaptors turn a presence / truth test into an error value that `?` then branches on:
# `v.get(i).ok_or(E)?`, `cond.then_some(x).ok_or(E)?`, `r.ok()`.  They are given the same treatment as a new
# helper: a synthetic body with the adaptor's variant semantics is spliced in and threaded, so that
# `let Some(x) = v.get(i) else { return Err(E) }` and `v.get(i).ok_or(E)?` have the same control-flow graph.
def _ty_of(o):
    return o["p"].get("ty", "") if o.get("k") in ("copy", "move") else o.get("ty", "")


def _agg(adt, variant, vi, ops):
    return {"k": "agg", "ak": "adt", "adt": adt, "variant": variant, "vi": vi, "fields": ["0"] if ops else [], "ops": ops, "model": True}


def _loc(l, ty=""):
    return {"l": l, "pr": [], "ty": ty}


def _model(t, host=None):
    f = t.get("f") or {}
    if f.get("k") != "const" or t["d"]["pr"] or t["t"] is None:
        return None
    d = (f.get("fn") or {}).get("def", "")
    args = t["args"]
    dty = t["d"].get("ty", "")
    sp = t.get("sp", "")

    def body(name, locals_, blocks):
        return {"id": "model::" + name, "owner": "model::" + name, "kind": "Fn", "argc": len(args),
                "locals": [{"ty": ty, "name": None, "user": False} for ty in locals_], "blocks": blocks, "model": True}
    if d == "core::option::Option::<T>::ok_or_else" and len(args) == 2 and _closure_id_of_ty(_ty_of(args[1])) is not None:
        oty = _ty_of(args[0])
        pty = oty[len(OPTION) + 1:-1] if oty.startswith(OPTION + "<") else ""
        fty = _ty_of(args[1])
        some_payload = {"l": 1, "pr": [{"dc": "Some", "vi": 1}, {"f": 0, "n": "0", "a": OPTION, "ty": pty}], "ty": pty}
        return body("ok_or_else", [dty, oty, fty, "isize", pty, ""], [
            {"s": [{"k": "assign", "p": _loc(3, "isize"), "r": {"k": "discr", "p": _loc(1, oty)}, "sp": sp}],
             "t": {"k": "switch", "o": {"k": "move", "p": _loc(3, "isize")}, "ts": [["0", 1]], "else": 3, "sp": sp}},
            {"s": [], "t": _call_marker({"k": "move", "p": _loc(2, fty)}, [], _loc(5, ""), 2, sp)},
            {"s": [{"k": "assign", "p": _loc(0, dty), "r": _agg(RESULT, "Err", 1, [{"k": "move", "p": _loc(5, "")}]), "sp": sp}], "t": {"k": "return", "sp": sp}},
            {"s": [{"k": "assign", "p": _loc(4, pty), "r": {"k": "use", "o": {"k": "move", "p": some_payload}}, "sp": sp},
                   {"k": "assign", "p": _loc(0, dty), "r": _agg(RESULT, "Ok", 0, [{"k": "move", "p": _loc(4, pty)}]), "sp": sp}], "t": {"k": "return", "sp": sp}},
        ])
    if d in ("core::option::Option::<T>::ok_or", "core::option::Option::<T>::ok_or_else") and len(args) == 2:
        oty = _ty_of(args[0])
        pty = oty[len(OPTION) + 1:-1] if oty.startswith(OPTION + "<") else ""
        some_payload = {"l": 1, "pr": [{"dc": "Some", "vi": 1}, {"f": 0, "n": "0", "a": OPTION, "ty": pty}], "ty": pty}
        return body(d.rsplit("::", 1)[-1], [dty, oty, _ty_of(args[1]), "isize", pty], [
            {"s": [{"k": "assign", "p": _loc(3, "isize"), "r": {"k": "discr", "p": _loc(1, oty)}, "sp": sp}],
             "t": {"k": "switch", "o": {"k": "move", "p": _loc(3, "isize")}, "ts": [["0", 1]], "else": 2, "sp": sp}},
            {"s": [{"k": "assign", "p": _loc(0, dty), "r": _agg(RESULT, "Err", 1, [{"k": "move", "p": _loc(2, _ty_of(args[1]))}]), "sp": sp}], "t": {"k": "return", "sp": sp}},
            {"s": [{"k": "assign", "p": _loc(4, pty), "r": {"k": "use", "o": {"k": "move", "p": some_payload}}, "sp": sp},
                   {"k": "assign", "p": _loc(0, dty), "r": _agg(RESULT, "Ok", 0, [{"k": "move", "p": _loc(4, pty)}]), "sp": sp}], "t": {"k": "return", "sp": sp}},
        ])
    if d == "core::bool::<impl bool>::then_some" and len(args) == 2:
        vty = _ty_of(args[1])
        return body("then_some", [dty, "bool", vty], [
            {"s": [], "t": {"k": "switch", "o": {"k": "move", "p": _loc(1, "bool")}, "ts": [["0", 1]], "else": 2, "sp": sp}},
            {"s": [{"k": "assign", "p": _loc(0, dty), "r": _agg(OPTION, "None", 0, []), "sp": sp}], "t": {"k": "return", "sp": sp}},
            {"s": [{"k": "assign", "p": _loc(0, dty), "r": _agg(OPTION, "Some", 1, [{"k": "move", "p": _loc(2, vty)}]), "sp": sp}], "t": {"k": "return", "sp": sp}},
        ])
    # adaptors that take a closure: the model calls it (marker), the closure body is spliced afterwards
    def has_closure(a):
        return _closure_id_of_ty(_ty_of(a)) is not None
    name = d.rsplit("::", 1)[-1]
    if d.startswith("core::option::Option::<") and name in ("map", "and_then", "filter", "is_some_and", "map_or") and args and has_closure(args[-1]) and _ty_of(args[0]).startswith(OPTION + "<"):
        oty = _ty_of(args[0])
        pty = oty[len(OPTION) + 1:-1]
        fty = _ty_of(args[-1])
        some_payload = {"l": 1, "pr": [{"dc": "Some", "vi": 1}, {"f": 0, "n": "0", "a": OPTION, "ty": pty}], "ty": pty}
        nargs = len(args)
        f_l = nargs            # local index of the closure parameter
        # locals: 0 ret, 1 opt, [2 default for map_or], closure, then temps
        locs = [dty, oty] + [_ty_of(a) for a in args[1:]]
        T = len(locs)
        locs += ["isize", pty, "&" + pty, "bool", ""]     # T: discr, T+1: payload, T+2: &payload, T+3: pred result, T+4: closure result
        d_l, v_l, r_l, p_l, c_l = T, T + 1, T + 2, T + 3, T + 4
        sw0 = {"s": [{"k": "assign", "p": _loc(d_l, "isize"), "r": {"k": "discr", "p": _loc(1, oty)}, "sp": sp}],
               "t": {"k": "switch", "o": {"k": "move", "p": _loc(d_l, "isize")}, "ts": [["0", 1]], "else": 2, "sp": sp}}
        take = {"k": "assign", "p": _loc(v_l, pty), "r": {"k": "use", "o": {"k": "move", "p": some_payload}}, "sp": sp}
        ret = {"k": "return", "sp": sp}
        none_ret = {"s": [{"k": "assign", "p": _loc(0, dty), "r": _agg(OPTION, "None", 0, []), "sp": sp}], "t": ret}
        if name == "map":
            return body("map", locs, [sw0, none_ret,
                {"s": [take], "t": _call_marker({"k": "move", "p": _loc(f_l, fty)}, [{"k": "move", "p": _loc(v_l, pty)}], _loc(c_l, ""), 3, sp)},
                {"s": [{"k": "assign", "p": _loc(0, dty), "r": _agg(OPTION, "Some", 1, [{"k": "move", "p": _loc(c_l, "")}]), "sp": sp}], "t": ret}])
        if name == "and_then":
            return body("and_then", locs, [sw0, none_ret,
                {"s": [take], "t": _call_marker({"k": "move", "p": _loc(f_l, fty)}, [{"k": "move", "p": _loc(v_l, pty)}], _loc(0, dty), 3, sp)},
                {"s": [], "t": ret}])
        if name == "is_some_and":
            return body("is_some_and", locs, [sw0,
                {"s": [{"k": "assign", "p": _loc(0, "bool"), "r": {"k": "use", "o": {"k": "const", "ty": "bool", "v": "false"}}, "sp": sp}], "t": ret},
                {"s": [take], "t": _call_marker({"k": "move", "p": _loc(f_l, fty)}, [{"k": "move", "p": _loc(v_l, pty)}], _loc(0, "bool"), 3, sp)},
                {"s": [], "t": ret}])
        if name == "filter":
            return body("filter", locs, [sw0, none_ret,
                {"s": [take, {"k": "assign", "p": _loc(r_l, "&" + pty), "r": {"k": "ref", "m": "shared", "p": _loc(v_l, pty)}, "sp": sp}],
                 "t": _call_marker({"k": "move", "p": _loc(f_l, fty)}, [{"k": "move", "p": _loc(r_l, "&" + pty)}], _loc(p_l, "bool"), 3, sp)},
                {"s": [], "t": {"k": "switch", "o": {"k": "move", "p": _loc(p_l, "bool")}, "ts": [["0", 1]], "else": 4, "sp": sp}},
                {"s": [{"k": "assign", "p": _loc(0, dty), "r": _agg(OPTION, "Some", 1, [{"k": "move", "p": _loc(v_l, pty)}]), "sp": sp}], "t": ret}])
        if name == "map_or" and nargs == 3:
            return body("map_or", locs, [sw0,
                {"s": [{"k": "assign", "p": _loc(0, dty), "r": {"k": "use", "o": {"k": "move", "p": _loc(2, _ty_of(args[1]))}}, "sp": sp}], "t": ret},
                {"s": [take], "t": _call_marker({"k": "move", "p": _loc(3, fty)}, [{"k": "move", "p": _loc(v_l, pty)}], _loc(0, dty), 3, sp)},
                {"s": [], "t": ret}])
    if d == "core::result::Result::<T, E>::and_then" and len(args) == 2 and has_closure(args[1]):
        rty = _ty_of(args[0])
        fty = _ty_of(args[1])
        okp = {"l": 1, "pr": [{"dc": "Ok", "vi": 0}, {"f": 0, "n": "0", "a": RESULT, "ty": ""}], "ty": ""}
        erp = {"l": 1, "pr": [{"dc": "Err", "vi": 1}, {"f": 0, "n": "0", "a": RESULT, "ty": ""}], "ty": ""}
        return body("and_then", [dty, rty, fty, "isize", "", ""], [
            {"s": [{"k": "assign", "p": _loc(3, "isize"), "r": {"k": "discr", "p": _loc(1, rty)}, "sp": sp}],
             "t": {"k": "switch", "o": {"k": "move", "p": _loc(3, "isize")}, "ts": [["0", 2]], "else": 1, "sp": sp}},
            {"s": [{"k": "assign", "p": _loc(5, ""), "r": {"k": "use", "o": {"k": "move", "p": erp}}, "sp": sp},
                   {"k": "assign", "p": _loc(0, dty), "r": _agg(RESULT, "Err", 1, [{"k": "move", "p": _loc(5, "")}]), "sp": sp}], "t": {"k": "return", "sp": sp}},
            {"s": [{"k": "assign", "p": _loc(4, ""), "r": {"k": "use", "o": {"k": "move", "p": okp}}, "sp": sp}],
             "t": _call_marker({"k": "move", "p": _loc(2, fty)}, [{"k": "move", "p": _loc(4, "")}], _loc(0, dty), 3, sp)},
            {"s": [], "t": {"k": "return", "sp": sp}}])
    if d == "core::bool::<impl bool>::then" and len(args) == 2 and has_closure(args[1]):
        fty = _ty_of(args[1])
        return body("then", [dty, "bool", fty, ""], [
            {"s": [], "t": {"k": "switch", "o": {"k": "move", "p": _loc(1, "bool")}, "ts": [["0", 1]], "else": 2, "sp": sp}},
            {"s": [{"k": "assign", "p": _loc(0, dty), "r": _agg(OPTION, "None", 0, []), "sp": sp}], "t": {"k": "return", "sp": sp}},
            {"s": [], "t": _call_marker({"k": "move", "p": _loc(2, fty)}, [], _loc(3, ""), 3, sp)},
            {"s": [{"k": "assign", "p": _loc(0, dty), "r": _agg(OPTION, "Some", 1, [{"k": "move", "p": _loc(3, "")}]), "sp": sp}], "t": {"k": "return", "sp": sp}}])
    # searching adaptors of Iterator (`find`, `any`, `all`, `position`) are the loop they abbreviate:
    #     loop { match it.next() { None => return <exhausted>, Some(x) => if pred(x) { return <hit> } } }
    # with the predicate spliced in, a test written inside the closure is a branch of the host function.  Applied only
    # in the hosts listed in LOOP_MODEL_HOSTS (validators whose rules are path rules; the engine's protocol rules
    # read `any(|v| v.len() != n)` as one idiom and are left alone).
    if host and any(host == h or host.startswith(h + "::{") for h in LOOP_MODEL_HOSTS) and len(args) == 2 and has_closure(args[1]) \
            and d in ("core::iter::traits::iterator::Iterator::find", "core::iter::traits::iterator::Iterator::any",
                      "core::iter::traits::iterator::Iterator::all", "core::iter::traits::iterator::Iterator::position") \
            and _ty_of(args[0]).startswith("&mut "):
        aty = _ty_of(args[0])
        ity = aty[5:]
        fty = _ty_of(args[1])
        item = dty[len(OPTION) + 1:-1] if name == "find" and dty.startswith(OPTION + "<") else ""
        oty = OPTION + "<" + item + ">" if item else ""
        nxt = {"k": "call", "f": {"k": "const", "ty": "fn:core::iter::traits::iterator::Iterator::next<" + ity + ">",
                                  "fn": {"def": "core::iter::traits::iterator::Iterator::next", "krate": "core", "targs": [ity], "trait": "core::iter::traits::iterator::Iterator",
                                         "res": "<" + ity + " as core::iter::traits::iterator::Iterator>::next", "res_krate": "core"}},
               "args": [{"k": "move", "p": _loc(8, aty)}], "d": _loc(3, oty), "t": 1, "sp": sp}
        some_payload = {"l": 3, "pr": [{"dc": "Some", "vi": 1}, {"f": 0, "n": "0", "a": OPTION, "ty": item}], "ty": item}
        ret = {"k": "return", "sp": sp}
        cst = lambda v: {"k": "use", "o": {"k": "const", "ty": "bool", "v": v}}
        # locals: 0 ret, 1 &mut iter, 2 pred, 3 next result, 4 discr, 5 item, 6 &item, 7 pred result, 8 reborrow, 9 counter
        locs = [dty, aty, fty, oty, "isize", item, "&" + item if item else "", "bool", aty, "usize"]
        b0 = {"s": [{"k": "assign", "p": _loc(8, aty), "r": {"k": "ref", "m": "mut", "p": {"l": 1, "pr": ["*"], "ty": ity}}, "sp": sp}], "t": nxt}
        b1 = {"s": [{"k": "assign", "p": _loc(4, "isize"), "r": {"k": "discr", "p": _loc(3, oty)}, "sp": sp}],
              "t": {"k": "switch", "o": {"k": "move", "p": _loc(4, "isize")}, "ts": [["0", 2]], "else": 3, "sp": sp}}
        take = {"k": "assign", "p": _loc(5, item), "r": {"k": "use", "o": {"k": "move", "p": some_payload}}, "sp": sp}
        if name == "find":
            b2 = {"s": [{"k": "assign", "p": _loc(0, dty), "r": _agg(OPTION, "None", 0, []), "sp": sp}], "t": ret}
            b3 = {"s": [take, {"k": "assign", "p": _loc(6, "&" + item), "r": {"k": "ref", "m": "shared", "p": _loc(5, item)}, "sp": sp}],
                  "t": _call_marker({"k": "move", "p": _loc(2, fty)}, [{"k": "move", "p": _loc(6, "&" + item)}], _loc(7, "bool"), 4, sp)}
            b4 = {"s": [], "t": {"k": "switch", "o": {"k": "move", "p": _loc(7, "bool")}, "ts": [["0", 0]], "else": 5, "sp": sp}}
            b5 = {"s": [{"k": "assign", "p": _loc(0, dty), "r": _agg(OPTION, "Some", 1, [{"k": "move", "p": _loc(5, item)}]), "sp": sp}], "t": ret}
            return body("find", locs, [b0, b1, b2, b3, b4, b5])
        if name in ("any", "all"):
            hit = "true" if name == "any" else "false"
            miss = "false" if name == "any" else "true"
            b2 = {"s": [{"k": "assign", "p": _loc(0, "bool"), "r": cst(miss), "sp": sp}], "t": ret}
            b3 = {"s": [take], "t": _call_marker({"k": "move", "p": _loc(2, fty)}, [{"k": "move", "p": _loc(5, item)}], _loc(7, "bool"), 4, sp)}
            b4 = {"s": [], "t": {"k": "switch", "o": {"k": "move", "p": _loc(7, "bool")}, "ts": [["0", 0 if name == "any" else 5]], "else": 5 if name == "any" else 0, "sp": sp}}
            b5 = {"s": [{"k": "assign", "p": _loc(0, "bool"), "r": cst(hit), "sp": sp}], "t": ret}
            return body(name, locs, [b0, b1, b2, b3, b4, b5])
        if name == "position":
            b2 = {"s": [{"k": "assign", "p": _loc(0, dty), "r": _agg(OPTION, "None", 0, []), "sp": sp}], "t": ret}
            b3 = {"s": [take], "t": _call_marker({"k": "move", "p": _loc(2, fty)}, [{"k": "move", "p": _loc(5, item)}], _loc(7, "bool"), 4, sp)}
            b4 = {"s": [], "t": {"k": "switch", "o": {"k": "move", "p": _loc(7, "bool")}, "ts": [["0", 6]], "else": 5, "sp": sp}}
            b5 = {"s": [{"k": "assign", "p": _loc(0, dty), "r": _agg(OPTION, "Some", 1, [{"k": "copy", "p": _loc(9, "usize")}]), "sp": sp}], "t": ret}
            b6 = {"s": [{"k": "assign", "p": _loc(9, "usize"), "r": {"k": "bin", "op": "Add", "a": {"k": "copy", "p": _loc(9, "usize")}, "b": {"k": "const", "ty": "usize", "v": "1"}}, "sp": sp}], "t": {"k": "goto", "t": 0}}
            return body("position", locs, [b0, b1, b2, b3, b4, b5, b6])
    # (`Result::ok` / `Result::err` are deliberately not modelled: R-ERR reads `.ok()` as "error discarded")
    if False and d in ("core::result::Result::<T, E>::ok", "core::result::Result::<T, E>::err") and len(args) == 1:
        rty = _ty_of(args[0])
        want = 0 if d.endswith("::ok") else 1
        pl = {"l": 1, "pr": [{"dc": "Ok" if want == 0 else "Err", "vi": want}, {"f": 0, "n": "0", "a": RESULT, "ty": ""}], "ty": ""}
        some = {"s": [{"k": "assign", "p": _loc(3, ""), "r": {"k": "use", "o": {"k": "move", "p": pl}}, "sp": sp},
                      {"k": "assign", "p": _loc(0, dty), "r": _agg(OPTION, "Some", 1, [{"k": "move", "p": _loc(3, "")}]), "sp": sp}], "t": {"k": "return", "sp": sp}}
        none = {"s": [{"k": "assign", "p": _loc(0, dty), "r": _agg(OPTION, "None", 0, []), "sp": sp}], "t": {"k": "return", "sp": sp}}
        return body(d.rsplit("::", 1)[-1], [dty, rty, "isize", ""], [
            {"s": [{"k": "assign", "p": _loc(2, "isize"), "r": {"k": "discr", "p": _loc(1, rty)}, "sp": sp}],
             "t": {"k": "switch", "o": {"k": "move", "p": _loc(2, "isize")}, "ts": [["0", 1 if want == 0 else 2]], "else": 2 if want == 0 else 1, "sp": sp}},
            some, none])
    return None



# ------------------------------------------------------------------ closures handed to Option / Result adaptors
# `opt.filter(|h| request.hash != *h)`, `slot.map(|b| label ^ (b & delta))`, `x.ok_or_else(|| E)`: the adaptor gets a
# model that *calls* the closure, and the closure's body is spliced at that call with its captured variables
# substituted, so that a comparison written inside the closure is a branch of the enclosing function.
CLOSURE_CALL = "model::closure_call"


def _closure_id_of_ty(ty):
    if "{closure:" not in ty:
        return None
    cid = ty[ty.index("{closure:") + 9:]
    return cid[:cid.rindex("}")] if "}" in cid else cid


def _call_marker(env_op, arg_ops, dest, nxt, sp):
    return {"k": "call", "f": {"k": "const", "ty": "fn:" + CLOSURE_CALL, "fn": {"def": CLOSURE_CALL, "krate": "model", "targs": []}},
            "args": [env_op] + list(arg_ops), "d": dest, "t": nxt, "sp": sp}


def _prepare_closure(cj, n_caps):
    """copy of a closure body in which `(*_1).cap_i` / `_1.cap_i` is the fresh local len(locals)+i"""
    import json as _json
    nj = _json.loads(_json.dumps(cj))
    base = len(nj["locals"])
    cap_ty = {}

    def fix_place(p):
        if p["l"] != 1 or not p["pr"]:
            return p
        pr = p["pr"]
        k0 = 0
        if pr[0] == "*":
            k0 = 1
        if k0 < len(pr) and isinstance(pr[k0], dict) and "f" in pr[k0] and pr[k0]["f"] < n_caps:
            i = pr[k0]["f"]
            cap_ty.setdefault(i, pr[k0].get("ty", ""))
            return {"l": base + i, "pr": pr[k0 + 1:], "ty": p.get("ty", "")}
        return p

    def fix_op(o):
        if o and o.get("k") in ("copy", "move"):
            o["p"] = fix_place(o["p"])
        return o
    for blk in nj["blocks"]:
        for st in blk["s"]:
            if st["k"] == "assign":
                st["p"] = fix_place(st["p"])
                r = st["r"]
                for key in ("o", "a", "b"):
                    if isinstance(r.get(key), dict):
                        fix_op(r[key])
                if isinstance(r.get("p"), dict):
                    r["p"] = fix_place(r["p"])
                for o in r.get("ops") or []:
                    fix_op(o)
            elif st["k"] == "setdiscr":
                st["p"] = fix_place(st["p"])
        t = blk["t"]
        if t["k"] == "switch":
            fix_op(t["o"])
        elif t["k"] == "drop":
            t["p"] = fix_place(t["p"])
        elif t["k"] == "call":
            for a in t["args"]:
                fix_op(a)
            t["d"] = fix_place(t["d"])
        elif t["k"] == "assert":
            fix_op(t["c"])
    for i in range(n_caps):
        nj["locals"].append({"ty": cap_ty.get(i, ""), "name": None, "user": False, "cap": i})
    nj["_cap_base"] = base
    return nj


def _splice_closure_calls(j, start, bodies, report, tag, depth=0, ensure=None):
    """splice the closure bodies at the `closure_call` markers found in blocks[start:]"""
    from_i = start
    i = from_i
    while i < len(j["blocks"]) and len(j["blocks"]) < 6000:
        blk = j["blocks"][i]
        t = blk["t"]
        if t["k"] == "call" and ((t["f"].get("fn") or {}).get("def") == CLOSURE_CALL) and not t.get("done"):
            t["done"] = True
            env = t["args"][0]
            cid = _closure_id_of_ty(_ty_of(env))
            if ensure is not None and cid in bodies:
                ensure(cid)        # the closure's own adaptor calls are normalised first
            cj = bodies.get(cid)
            ops = None
            if cj is not None and env.get("k") in ("copy", "move") and not env["p"]["pr"]:
                # the closure value: `_c = closure<def>[captured ..]` (through plain moves)
                cur = env["p"]["l"]
                for _ in range(6):
                    defs = [st for b2 in j["blocks"] for st in b2["s"] if st["k"] == "assign" and st["p"]["l"] == cur and not st["p"]["pr"]]
                    if len(defs) != 1:
                        break
                    r = defs[0]["r"]
                    if r["k"] == "agg" and r.get("ak") == "closure" and r.get("def") == cid:
                        ops = r["ops"]
                        break
                    if r["k"] == "use" and r["o"].get("k") in ("copy", "move") and not r["o"]["p"]["pr"]:
                        cur = r["o"]["p"]["l"]
                        continue
                    break
            if cj is None or ops is None or cj.get("coroutine") is not None or len(cj["blocks"]) > MAX_BLOCKS or depth > 3 \
                    or len(t["args"]) != cj["argc"]:
                i += 1
                continue
            pj = _prepare_closure(cj, len(ops))
            lo = len(j["locals"])
            before = len(j["blocks"])
            _splice(j, i, pj, report, tag)
            # captured variables: assigned in the entry block of the splice
            entry = j["blocks"][before]
            for ci, o in enumerate(ops):
                entry["s"].append({"k": "assign", "p": {"l": lo + pj["_cap_base"] + ci, "pr": [], "ty": _ty_of(o)}, "r": {"k": "use", "o": o}, "sp": t.get("sp", ""), "inl_arg": True})
            # nested closures built inside the closure body are handled when their own adaptor is modelled
        i += 1

# ------------------------------------------------------------------ the pass
def _callee_id(t):
    f = t.get("f") or {}
    if f.get("k") != "const":
        return None
    fn = f.get("fn") or {}
    return [x for x in (fn.get("res"), fn.get("def")) if x]


def inline_program(bodies_by_tag):
    """bodies_by_tag: {crate tag: {body id: body json}} - mutated in place.  Returns a report list."""
    known = known_fns()
    report = []
    for tag, bodies in bodies_by_tag.items():
        cand = {}
        for bid, j in bodies.items():
            # (for an `async fn` this is the outer body that only builds the future; the future's body is re-owned below)
            if j["kind"] in ("Fn", "AssocFn") and j.get("coroutine") is None and bid not in known \
                    and len(j["blocks"]) <= MAX_BLOCKS and j["id"] == j["owner"]:
                cand[bid] = j
        done = {}

        def process(bid, j, stack):
            if bid in done:
                return
            done[bid] = True
            i = 0
            n0 = len(j["blocks"])
            while i < n0:
                blk = j["blocks"][i]
                t = blk["t"]
                if t["k"] == "call" and t["t"] is not None and not blk.get("cleanup"):
                    ids = _callee_id(t) or []
                    cid = next((x for x in ids if x in cand), None)
                    if cid is None and MODELS_ON:
                        mj = _model(t, j.get("owner"))
                        if mj is not None and len(j["blocks"]) < 6000:
                            nb0 = len(j["blocks"])
                            _splice(j, i, mj, report, tag)
                            _splice_closure_calls(j, nb0, bodies, report, tag, ensure=lambda c_: process(c_, bodies[c_], stack + [bid]) if len(stack) < MAX_DEPTH else None)
                            i += 1
                            continue
                    if cid is not None and cid != bid and cid not in stack and len(stack) < MAX_DEPTH:
                        cj = cand[cid]
                        process(cid, cj, stack + [bid])
                        if len(cj["locals"]) - 1 >= cj["argc"] and len(t["args"]) == cj["argc"] and len(j["blocks"]) + len(cj["blocks"]) < 6000:
                            _splice(j, i, cj, report, tag)
                i += 1
            # searching adaptors inside helpers that were spliced into a loop-model host (`fn check_output_parties(&self)`
            # called from validate): the helper was processed under its own name, model its adaptors here
            host = j.get("owner") or ""
            if MODELS_ON and any(host == h_ or host.startswith(h_ + "::{") for h_ in LOOP_MODEL_HOSTS):
                i = n0
                while i < len(j["blocks"]) and len(j["blocks"]) < 6000:
                    blk = j["blocks"][i]
                    t = blk["t"]
                    if t["k"] == "call" and t["t"] is not None and not blk.get("cleanup") and blk.get("inl") and not t.get("done"):
                        d_ = ((t.get("f") or {}).get("fn") or {}).get("def", "")
                        if d_ in ("core::iter::traits::iterator::Iterator::find", "core::iter::traits::iterator::Iterator::any",
                                  "core::iter::traits::iterator::Iterator::all", "core::iter::traits::iterator::Iterator::position"):
                            mj = _model(t, host)
                            if mj is not None:
                                nb0 = len(j["blocks"])
                                _splice(j, i, mj, report, tag)
                                _splice_closure_calls(j, nb0, bodies, report, tag, ensure=lambda c_: process(c_, bodies[c_], stack + [bid]) if len(stack) < MAX_DEPTH else None)
                    i += 1
        for bid, j in list(bodies.items()):
            # fail-safe: a body the pass cannot handle stays as rustc emitted it
            backup = (list(j["blocks"]), list(j["locals"]))
            try:
                process(bid, j, [])
            except Exception as ex:       # pragma: no cover
                j["blocks"], j["locals"] = backup
                report.append({"crate": tag, "host": bid, "callee": "error", "blocks": 0, "threaded": 0, "error": repr(ex)[:200]})
        # In the server crates (event-based rules over the handlers of the state machine) every constructed
        # Result / Option / bool constant that is branched on later is threaded (`let res = match .. { .. => Err(e) };
        # match res { .. }`).  In the engine crate only values that originate in spliced code are threaded: its rules
        # follow definitions of locals, which block copies multiply.
        _SEED_ALL[0] = THREAD_ALL and any(tag.startswith(x) for x in ("polytune_server_core", "polytune_http_server"))
        for bid, j in bodies.items():
            spliced = j.pop("_spliced", False)
            if _SEED_ALL[0] or spliced:
                backup = list(j["blocks"])
                try:
                    n = thread_body(j)
                except Exception as ex:   # pragma: no cover
                    j["blocks"] = backup
                    n = 0
                    report.append({"crate": tag, "host": bid, "callee": "error", "blocks": 0, "threaded": 0, "error": repr(ex)[:200]})
                if n:
                    report.append({"crate": tag, "host": bid, "callee": "thread", "blocks": n, "threaded": n})
        # a helper that was spliced into every caller is not analysed a second time out of context (its
        # parameters would be unconstrained there); it stays if it is still called or used as a value
        inlined = {r["callee"] for r in report if r["crate"] == tag and not r["callee"].startswith("model::") and r["callee"] != "thread"}
        if inlined:
            still = set()
            for bid, j in bodies.items():
                for blk in j["blocks"]:
                    t = blk["t"]
                    if t["k"] == "call" and not blk.get("cleanup"):
                        for x in (_callee_id(t) or []):
                            if x in inlined and not (bid in inlined and x == bid):
                                still.add(x)
                    ops = list(t.get("args") or [])
                    for s_ in blk["s"]:
                        if s_["k"] == "assign":
                            r = s_["r"]
                            ops += [r.get("o"), r.get("a"), r.get("b")] + list(r.get("ops") or [])
                    for o in ops:
                        if o and o.get("k") == "const" and (o.get("fn") or {}).get("def") in inlined:
                            still.add(o["fn"]["def"])
            for bid in inlined - still:
                bodies[bid]["inlined_away"] = True
            # the closures / the future of an inlined helper now belong to the function that builds them - like a
            # closure or an async block written in place - provided all its callers are one function
            for cid in inlined - still:
                host_ids = sorted({r["host"] for r in report if r["crate"] == tag and r["callee"] == cid and r["host"] in bodies})
                if any(bodies[h]["owner"] in inlined for h in host_ids) or not host_ids:
                    continue
                inner = [bid for bid, j in bodies.items() if j["owner"] == cid and bid != cid]
                if not inner:
                    continue
                if len(host_ids) == 1:
                    new_owner = bodies[host_ids[0]]["owner"]
                    for bid in inner:
                        bodies[bid]["owner"] = new_owner
                        bodies[bid]["reowned_from"] = cid
                    continue
                # several call sites: each calling body gets its own copy of the helper's closures / future, so that
                # what is known about one call (its message label, its peer) is not merged with the others
                import json as _json
                for n_, hb in enumerate(host_ids):
                    hj = bodies[hb]
                    tagname = "%s@%d" % (cid, n_)
                    for bid in inner:
                        nj = _json.loads(_json.dumps(bodies[bid]).replace(cid + "::{", tagname + "::{"))
                        nj["owner"] = hj["owner"]
                        nj["reowned_from"] = cid
                        if nj.get("parent") == cid:
                            nj["parent"] = hb
                        bodies[nj["id"]] = nj
                    nh = _json.loads(_json.dumps(hj).replace(cid + "::{", tagname + "::{"))
                    hj.clear()
                    hj.update(nh)
                for bid in inner:
                    bodies[bid]["inlined_away"] = True
    return report


def _splice(j, bi, cj, report, tag):
    blocks = j["blocks"]
    t = blocks[bi]["t"]
    lo = len(j["locals"])
    for li, ld in enumerate(cj["locals"]):
        n = dict(ld)
        n["inl"] = cj["id"]
        if 1 <= li <= cj["argc"] and n.get("name"):
            # a parameter is just another name for the caller's value: "which variable is this" questions
            # (an.root_local) should arrive at the caller's variable
            n["inl_name"] = n["name"]
            n["name"] = None
        j["locals"].append(n)
    e = len(blocks)
    bo = e + 1
    sp = t.get("sp", "")
    entry_stmts = []
    for k, a in enumerate(t["args"]):
        entry_stmts.append({"k": "assign", "p": {"l": lo + 1 + k, "pr": [], "ty": cj["locals"][1 + k]["ty"]}, "r": {"k": "use", "o": a}, "sp": sp, "inl_arg": True})
    blocks.append({"s": entry_stmts, "t": {"k": "goto", "t": bo}, "cleanup": False, "inl": cj["id"]})
    cont = len(blocks) + len(cj["blocks"])      # index of the return block
    rl = lo
    region = [e]
    for cb in cj["blocks"]:
        nb = {"s": [_ms(s, lo) for s in cb["s"]], "cleanup": cb.get("cleanup", False), "inl": cj["id"]}
        ct = cb["t"]
        if ct["k"] == "return":
            nb["t"] = {"k": "goto", "t": cont}
        else:
            nb["t"] = _mt(ct, lo, bo)
        region.append(len(blocks))
        blocks.append(nb)
    # the single return block: dest = move _0'; goto original target
    ret = {"s": [{"k": "assign", "p": t["d"], "r": {"k": "use", "o": {"k": "move", "p": {"l": rl, "pr": [], "ty": cj["locals"][0]["ty"]}}}, "sp": sp, "inl_ret": True}],
           "t": {"k": "goto", "t": t["t"]}, "cleanup": False, "inl": cj["id"], "inl_ret": True}
    assert len(blocks) == cont
    blocks.append(ret)
    blocks[bi]["t"] = {"k": "goto", "t": e, "inl_call": cj["id"], "sp": sp, "orig": t}
    n_thr = 0
    j["_spliced"] = True
    report.append({"crate": tag, "host": j["id"], "callee": cj["id"], "blocks": len(cj["blocks"]), "threaded": n_thr})


# ------------------------------------------------------------------ general variant threading
def _escaped(j):
    esc = set()
    for blk in j["blocks"]:
        for s in blk["s"]:
            if s["k"] == "assign" and s["r"]["k"] in ("ref", "rawptr") and (s["r"].get("m") == "mut" or s["r"]["k"] == "rawptr"):
                # `&raw const (*_t.0)` (the length of a slice held in a tuple slot) points at what the slot refers to,
                # not at the local: only a borrow of the local's own storage lets it change behind the analysis
                if any(q == "*" or q == "deref" for q in s["r"]["p"]["pr"]) and s["r"]["k"] == "rawptr" and s["r"].get("m") != "mut":
                    continue
                esc.add(s["r"]["p"]["l"])
    return esc


_SEED_ALL = [False]


def _is_seed(blk, s):
    r = s["r"]
    if bool(blk.get("inl")) or bool(r.get("model")) or bool(r.get("thr")):
        return True
    # every constructed Result / Option / bool constant (server crates only, see inline_program); flags of logging
    # macros (`enabled` of tracing's debug!/info!) are not program logic
    sp = s.get("sp", "")
    return _SEED_ALL[0] and not any(m in sp for m in LOG_MACROS)


def _relevant(j):
    """locals whose variant / truth value is branched on (directly, through `?`, or after being moved on)"""
    rel = {0}      # the return place: the variant handed back matters to the caller's rules
    blocks = j["blocks"]
    for blk in blocks:
        t = blk["t"]
        sw = t["o"]["p"]["l"] if t["k"] == "switch" and t["o"].get("k") in ("copy", "move") and not t["o"]["p"]["pr"] else None
        for s in blk["s"]:
            if s["k"] == "assign" and s["r"]["k"] == "discr" and not s["r"]["p"]["pr"] and not s["p"]["pr"] and s["p"]["l"] == sw:
                rel.add(s["r"]["p"]["l"])
            # `match (a, b, opt) { (.., Some(x)) => .. }`: the discriminant is read from the tuple slot
            if s["k"] == "assign" and s["r"]["k"] == "discr" and len(s["r"]["p"]["pr"]) == 1 and isinstance(s["r"]["p"]["pr"][0], dict) and "f" in s["r"]["p"]["pr"][0] \
                    and not s["p"]["pr"] and s["p"]["l"] == sw:
                rel.add(("T", s["r"]["p"]["l"], s["r"]["p"]["pr"][0]["f"]))
        if sw is not None:
            rel.add(sw)
        if t["k"] == "call" and len(t.get("args") or []) == 1 and t["args"][0].get("k") in ("copy", "move") and not t["args"][0]["p"]["pr"]:
            fn = (t["f"].get("fn") or {}) if t["f"].get("k") == "const" else {}
            if fn.get("def", "").endswith("Try::branch"):
                rel.add(t["args"][0]["p"]["l"])
    changed = True
    while changed:
        changed = False
        for blk in blocks:
            for s in blk["s"]:
                if s["k"] == "assign" and not s["p"]["pr"] and s["p"]["l"] in rel:
                    r = s["r"]
                    src = None
                    if r["k"] == "use" and r["o"].get("k") in ("copy", "move") and not r["o"]["p"]["pr"]:
                        src = r["o"]["p"]["l"]
                    elif r["k"] == "un" and r.get("op") == "Not" and r["a"].get("k") in ("copy", "move") and not r["a"]["p"]["pr"]:
                        src = r["a"]["p"]["l"]
                    if src is not None and src not in rel:
                        rel.add(src)
                        changed = True
                    # `x = move (t.i)` with x relevant: field i of tuple t is relevant
                    if r["k"] == "use" and r["o"].get("k") in ("copy", "move") and len(r["o"]["p"]["pr"]) == 1 and isinstance(r["o"]["p"]["pr"][0], dict) and "f" in r["o"]["p"]["pr"][0]:
                        key_ = ("T", r["o"]["p"]["l"], r["o"]["p"]["pr"][0]["f"])
                        if key_ not in rel:
                            rel.add(key_)
                            changed = True
                if s["k"] == "assign" and not s["p"]["pr"] and s["r"]["k"] == "agg" and s["r"].get("ak") == "tuple":
                    for i_, o_ in enumerate(s["r"].get("ops") or []):
                        if ("T", s["p"]["l"], i_) in rel and o_.get("k") in ("copy", "move") and not o_["p"]["pr"] and o_["p"]["l"] not in rel:
                            rel.add(o_["p"]["l"])
                            changed = True
            t = blk["t"]
            if t["k"] == "call" and not t["d"]["pr"] and t["d"]["l"] in rel and len(t["args"]) == 1:
                fn = (t["f"].get("fn") or {}) if t["f"].get("k") == "const" else {}
                if fn.get("def", "").endswith("Try::branch") and t["args"][0].get("k") in ("copy", "move") and not t["args"][0]["p"]["pr"] and t["args"][0]["p"]["l"] not in rel:
                    rel.add(t["args"][0]["p"]["l"])
                    changed = True
            if t["k"] == "call" and not t["d"]["pr"] and t["d"]["l"] in rel and t.get("args"):
                fn = (t["f"].get("fn") or {}) if t["f"].get("k") == "const" else {}
                if fn.get("def", "").rsplit("::", 1)[-1] in PRESERVING and t["args"][0].get("k") in ("copy", "move") and not t["args"][0]["p"]["pr"] and t["args"][0]["p"]["l"] not in rel:
                    rel.add(t["args"][0]["p"]["l"])
                    changed = True
    return rel


def _loop_headers(blocks):
    heads = set()
    state = {}
    stack = [(0, iter(_succs(blocks[0]["t"])))]
    state[0] = 1
    while stack:
        node, it = stack[-1]
        adv = False
        for x in it:
            if state.get(x) == 1:
                heads.add(x)
            elif x not in state:
                state[x] = 1
                stack.append((x, iter(_succs(blocks[x]["t"]))))
                adv = True
                break
        if not adv:
            state[node] = 2
            stack.pop()
    return heads


def _step_block(j, blk, st, esc, rel=None):
    """abstract execution of one block; returns (state at exit, resolved successor or None, rewritten stmts)"""
    st = dict(st)
    stmts = blk["s"]
    new_stmts = None
    ret_note = None
    for si, s in enumerate(stmts):
        k = s["k"]
        if k == "dead":
            st.pop(s["l"], None)
            continue
        if k == "setdiscr":
            st.pop(s["p"]["l"], None)
            continue
        if k != "assign":
            continue
        p, r = s["p"], s["r"]
        if p["pr"]:
            continue
        l = p["l"]
        val = None
        for key_ in [k_ for k_ in st if isinstance(k_, tuple) and k_[1] == l]:
            st.pop(key_, None)
        # a tuple of known values (`(Err(e), ControlFlow::Break(()))`): the facts travel with the fields
        if r["k"] == "agg" and r.get("ak") == "tuple" and l not in esc:
            for i_, o_ in enumerate(r.get("ops") or []):
                if o_.get("k") in ("copy", "move") and not o_["p"]["pr"] and o_["p"]["l"] in st and (rel is None or ("T", l, i_) in rel):
                    st[("T", l, i_)] = st[o_["p"]["l"]]
                    if o_["k"] == "move":
                        st.pop(o_["p"]["l"], None)
            st.pop(l, None)
            continue
        if r["k"] == "use" and r["o"].get("k") in ("copy", "move") and len(r["o"]["p"]["pr"]) == 1 and isinstance(r["o"]["p"]["pr"][0], dict) \
                and "f" in r["o"]["p"]["pr"][0] and ("T", r["o"]["p"]["l"], r["o"]["p"]["pr"][0]["f"]) in st and l not in esc and (rel is None or l in rel):
            key_ = ("T", r["o"]["p"]["l"], r["o"]["p"]["pr"][0]["f"])
            st[l] = st[key_]
            if l == 0 and st[l][0] in (RESULT, OPTION, CFLOW):
                vmap = {(RESULT, 0): "Ok", (RESULT, 1): "Err", (OPTION, 0): "None", (OPTION, 1): "Some", (CFLOW, 0): "Continue", (CFLOW, 1): "Break"}
                if new_stmts is None:
                    new_stmts = list(stmts)
                new_stmts[si] = dict(s, r={"k": "agg", "ak": "adt", "adt": st[l][0], "variant": vmap[(st[l][0], st[l][1])], "vi": st[l][1], "fields": ["0"], "ops": [r["o"]], "thr": True})
            if r["o"]["k"] == "move":
                st.pop(key_, None)
            continue
        if l not in esc and (rel is None or l in rel):
            if r["k"] == "agg" and r.get("ak") == "adt" and r.get("adt") in (RESULT, OPTION, CFLOW) and _is_seed(blk, s):
                val = (r["adt"], r["vi"])
            elif r["k"] == "use" and r["o"].get("k") == "const" and r["o"].get("ty") == "bool" and _is_seed(blk, s) and r["o"].get("v") in ("true", "false", "0", "1"):
                val = ("bool", 1 if r["o"]["v"] in ("true", "1") else 0)
            elif r["k"] == "use" and r["o"].get("k") in ("copy", "move") and not r["o"]["p"]["pr"] and r["o"]["p"]["l"] in st:
                q = r["o"]["p"]["l"]
                val = st[q]
                if l == 0 and val[0] in (RESULT, OPTION, CFLOW):
                    # the value handed back is known to be this variant on this path
                    vn = {(RESULT, 0): "Ok", (RESULT, 1): "Err", (OPTION, 0): "None", (OPTION, 1): "Some", (CFLOW, 0): "Continue", (CFLOW, 1): "Break"}[(val[0], val[1])]
                    if new_stmts is None:
                        new_stmts = list(stmts)
                    new_stmts[si] = dict(s, r={"k": "agg", "ak": "adt", "adt": val[0], "variant": vn, "vi": val[1], "fields": ["0"], "ops": [r["o"]], "thr": True})
                if r["o"]["k"] == "move":
                    st.pop(q, None)
            elif r["k"] == "discr" and not r["p"]["pr"] and r["p"]["l"] in st and st[r["p"]["l"]][0] in (RESULT, OPTION, CFLOW):
                val = ("discr", st[r["p"]["l"]][1])
                st.pop(r["p"]["l"], None)      # use-once: the fact has served its purpose
            elif r["k"] == "discr" and len(r["p"]["pr"]) == 1 and isinstance(r["p"]["pr"][0], dict) and "f" in r["p"]["pr"][0] \
                    and st.get(("T", r["p"]["l"], r["p"]["pr"][0]["f"]), ("", 0))[0] in (RESULT, OPTION, CFLOW):
                val = ("discr", st[("T", r["p"]["l"], r["p"]["pr"][0]["f"])][1])
            elif r["k"] == "un" and r.get("op") == "Not" and r["a"].get("k") in ("copy", "move") and not r["a"]["p"]["pr"] and st.get(r["a"]["p"]["l"], ("", 0))[0] == "bool":
                val = ("bool", 1 - st[r["a"]["p"]["l"]][1])
        if val is not None:
            st[l] = val
        else:
            st.pop(l, None)
    t = blk["t"]
    nxt = None
    if t["k"] == "switch":
        o = t["o"]
        if o.get("k") in ("copy", "move") and not o["p"]["pr"] and o["p"]["l"] in st and st[o["p"]["l"]][0] in ("discr", "bool"):
            v = st[o["p"]["l"]][1]
            tm = {str(a): tb for a, tb in t["ts"]}
            nxt = tm.get(str(v), t["else"])
            st.pop(o["p"]["l"], None)
            if _SEED_ALL[0]:
                # one resolution per value: facts about the same value under other names go as well; unrelated
                # facts (the second half of a `(reply, flow)` pair) stay and age
                for k_ in [k_ for k_, v_ in st.items() if v_[0] in ("discr", "bool")]:
                    st.pop(k_, None)
    elif t["k"] == "call":
        for a in t["args"]:
            if a.get("k") == "move" and not a["p"]["pr"]:
                pass
        d = t["d"]
        val = None
        if not d["pr"] and d["l"] not in esc and (rel is None or d["l"] in rel):
            fn = (t["f"].get("fn") or {}) if t["f"].get("k") == "const" else {}
            df = fn.get("def", "")
            if df.endswith("Try::branch") and len(t["args"]) == 1 and t["args"][0].get("k") in ("copy", "move") and not t["args"][0]["p"]["pr"]:
                q = t["args"][0]["p"]["l"]
                if q in st and st[q][0] in (RESULT, OPTION):
                    val = _branch_map(st[q], None)
            elif df.rsplit("::", 1)[-1] in PRESERVING and (df.startswith("core::option::Option::") or df.startswith("core::result::Result::")) \
                    and t["args"] and t["args"][0].get("k") in ("copy", "move") and not t["args"][0]["p"]["pr"] and t["args"][0]["p"]["l"] in st \
                    and st[t["args"][0]["p"]["l"]][0] in (RESULT, OPTION):
                val = st[t["args"][0]["p"]["l"]]      # `opt.map(f)`, `res.map_err(f)`, `opt.copied()`: same variant
            elif df.endswith("FromResidual::from_residual") and blk.get("inl"):
                ty = d.get("ty", "")
                if ty.startswith(RESULT + "<"):
                    val = (RESULT, 1)
                elif ty.startswith(OPTION + "<"):
                    val = (OPTION, 0)
        for a in t["args"]:
            if a.get("k") == "move" and not a["p"]["pr"]:
                st.pop(a["p"]["l"], None)
        if not d["pr"]:
            if val is not None:
                st[d["l"]] = val
                if d["l"] == 0:
                    ret_note = val
            else:
                st.pop(d["l"], None)
    elif t["k"] == "drop":
        if not t["p"]["pr"]:
            st.pop(t["p"]["l"], None)
    elif t["k"] == "yield":
        st = {}
    if ret_note is not None:
        # the block's call writes the return place with a known variant: recorded for the return-variant map
        if new_stmts is None:
            new_stmts = list(stmts)
        new_stmts = new_stmts + [{"k": "retnote", "adt": ret_note[0], "vi": ret_note[1]}]
    return st, nxt, new_stmts


def thread_body(j):
    """Path splitting on the known variant of Result / Option / bool values that originate in spliced code
    (new helpers, adaptor models): a switch on such a value is resolved on every path where the variant is
    known.  Blocks in the empty state keep their index, so untouched parts of the body are unchanged."""
    blocks = j["blocks"]
    n = len(blocks)
    esc = _escaped(j)
    rel = _relevant(j)
    heads = _loop_headers(blocks)
    budget = 4 * n + 200
    index = {}          # (block, frozenset(state)) -> new index
    work = [(0, frozenset())]
    order = []
    nxt_index = n
    out_info = {}
    while work:
        node = work.pop()
        if node in index:
            continue
        bi, fs = node
        if fs:
            index[node] = nxt_index
            nxt_index += 1
        else:
            index[node] = bi
        order.append(node)
        if len(order) > budget:
            return 0
        blk = blocks[bi]
        ages = {l: a for (l, v, a) in fs}
        st, forced, new_stmts = _step_block(j, blk, {l: v for (l, v, a) in fs}, esc, rel)
        # a fact that is not consumed within MAX_AGE blocks is dropped (bounds the duplication)
        fo = frozenset((l, v, ages.get(l, -1) + 1 if (l in ages and dict((l2, v2) for (l2, v2, a2) in fs).get(l) == v) else 0) for l, v in st.items())
        if _SEED_ALL[0]:
            fo = frozenset(x for x in fo if x[2] <= MAX_AGE)
        else:
            fo = frozenset((l, v, 0) for (l, v, a) in fo)
        succ = [forced] if forced is not None else _succs(blk["t"])
        out_info[node] = (fo, forced, new_stmts)
        for x in succ:
            work.append((x, fo if x not in heads else frozenset()))
    if nxt_index == n and not any(v[1] is not None or v[2] is not None for v in out_info.values()):
        return 0
    new_blocks = list(blocks) + [None] * (nxt_index - n)
    resolved = 0
    for node in order:
        bi, fs = node
        fo, forced, new_stmts = out_info[node]
        blk = blocks[bi]
        if forced is not None:
            nt = {"k": "goto", "t": index[(forced, fo if forced not in heads else frozenset())], "thr_of": bi, "sp": blk["t"].get("sp", "")}
            resolved += 1
        else:
            nt = _retarget(blk["t"], lambda x, fo=fo: index[(x, fo if x not in heads else frozenset())])
        nb = dict(blk)
        nb["s"] = new_stmts if new_stmts is not None else blk["s"]
        nb["t"] = nt
        if fs:
            nb["thr"] = [bi, sorted(str((x[0], x[1])) for x in fs)]
        new_blocks[index[node]] = nb
    j["blocks"] = new_blocks
    return resolved
