"""Rule family R8: channel discipline at join sites, sequencing, role duality (C12)."""
from collections import defaultdict
from mir import callee, callee_names
from an import where, SliceInfo, root_local
from chan import PRIMS
from env import CTX
from common import fl
import sec as secmod
import r3
from r6 import engine_bodies
from r7 import bodies_with_channel_effect

JOIN_ALL = "futures_util::future::try_join_all::try_join_all"
JOIN2 = "futures_util::future::try_join::try_join"
MAYBE = "futures_util::future::maybe_done::maybe_done"
JOINS = (JOIN_ALL, JOIN2, MAYBE, "futures_util::future::join_all::join_all", "futures_util::future::join::join")


def closure_defs_in_type(ty):
    out = []
    for tag in ("{closure:", "{coroutine_closure:", "{coroutine:"):
        st = 0
        while True:
            i = ty.find(tag, st)
            if i < 0:
                break
            depth = 0
            j = i
            while j < len(ty):
                if ty[j] == "{":
                    depth += 1
                elif ty[j] == "}":
                    depth -= 1
                    if depth == 0:
                        break
                j += 1
            out.append(ty[i + len(tag):j])
            st = j
    return out


class Eff:
    """Channel effects of code units."""

    def __init__(self, S):
        self.S = S
        self.fg = S.fg
        self.sites_by_body = defaultdict(list)
        for s in S.inv.sites:
            self.sites_by_body[s.bk].append(s)
        self.effectful = bodies_with_channel_effect(S)
        self._dirs = {}

    def unit_bodies(self, defpath):
        """bodies of a closure/coroutine def and everything nested in it."""
        return [k for k, b in self.fg.bodies.items() if b.id == defpath or b.id.startswith(defpath + "::")]

    def dirs_of_bodies(self, bodies):
        """set of directions {'send','recv'} reachable from the given bodies through the call graph."""
        cl = self.S.cg.closure(bodies)
        d = set()
        for k in list(bodies) + list(cl):
            bb = self.fg.bodies[k]
            o = bb.owner
            # the future of a primitive itself (async fn body), not a closure nested inside it
            if o in PRIMS and bb.id in (o, o + "::{closure#0}"):
                kind, snd, rcv, ver = PRIMS[o]
                if snd:
                    d.add("send")
                if rcv:
                    d.add("recv")
        for k in cl:
            for s in self.sites_by_body.get(k, ()):
                kind, snd, rcv, ver = PRIMS[s.prim]
                if snd:
                    d.add("send")
                if rcv:
                    d.add("recv")
        return d


def future_origin_defs(fg, bk, b, operand):
    """closure/coroutine defs and callee owners a future-typed operand is built from (by type)."""
    ty = operand["p"]["ty"] if operand["k"] != "const" else ""
    return closure_defs_in_type(ty), ty


def rule_joins(S, res):
    fg = S.fg
    E = Eff(S)
    eng = {k for k, b in engine_bodies(fg)}
    n_join = 0
    for k in sorted(eng):
        b = fg.bodies[k]
        for bi, t in b.calls():
            names = callee_names(t)
            if not names or names[0] not in JOINS or bi not in b.live_blocks():
                continue
            fn = b.owner.replace("polytune::", "")
            if names[0] in (JOIN_ALL, "futures_util::future::join_all::join_all"):
                n_join += 1
                it = t["args"][0]
                # a Vec of futures collected first: analyse the iterator it was collected from
                if it["k"] != "const" and it["p"]["ty"].startswith("alloc::vec::Vec<"):
                    back = fg.backward(fg.operand_nodes(k, it), node_ok=lambda n: n[0] == k, edge_ok=lambda e: e.kind in ("copy", "ref"))
                    ls = {n[1] for n in back}
                    src = [ct for cbi, ct in b.calls() if ct["d"]["l"] in ls and not ct["d"]["pr"] and callee_names(ct) and callee_names(ct)[0].rsplit("::", 1)[-1] in ("collect", "from_iter") and ct["args"] and ct["args"][0]["k"] != "const"]
                    if len(src) == 1:
                        it = src[0]["args"][0]
                defs, ty = future_origin_defs(fg, k, b, it)
                inst = "%s|try_join_all@%s" % (fn, fl(t["sp"]).rsplit(":", 1)[-1])
                cdefs = [d for d in defs if any(bb.id == d for bb in fg.bodies.values())]
                if not cdefs:
                    res.bad("R8.join", inst, "cannot identify the per-element future of this try_join_all", where(b, bi))
                    continue
                probs = []
                n_sites = 0
                for d in cdefs:
                    ub = E.unit_bodies(d)
                    if not E.dirs_of_bodies(ub):
                        continue
                    root = [kk for kk in ub if fg.bodies[kk].id == d][0]
                    rb = fg.bodies[root]
                    params = {(root, i, None) for i in range(2, rb.argc + 1)} | {(root, i, "*") for i in range(2, rb.argc + 1)}
                    for fi in fg.fields.get((root, 2), ()):
                        params.add((root, 2, fi))
                    for kk in ub:
                        bb = fg.bodies[kk]
                        # direct sites
                        for s in E.sites_by_body.get(kk, ()):
                            n_sites += 1
                            po = s.term["args"][1]
                            if po["k"] == "const":
                                probs.append((bb, s.block, "a literal peer"))
                                continue
                            back = fg.backward(fg.operand_nodes(kk, po), node_ok=lambda n: n[0] != "F" and n[0] in ub, edge_ok=lambda e: e.kind in ("copy", "ref", "base2field", "field2whole", "upvar", "cast", "un"))
                            if not any(n in params for n in back):
                                probs.append((bb, s.block, "a peer that is not the element of the joined iteration"))
                        # calls into effectful functions: some argument must be the element (the peer)
                        for cbi, ct in bb.calls():
                            cn = callee_names(ct)
                            if not cn or any(x in PRIMS for x in cn) or cn[0] in JOINS or cn[0].endswith("Future::poll") or cn[0].endswith("into_future"):
                                continue
                            tgt = []
                            for x in cn:
                                tgt += [ck for ck in fg.by_id.get(x, []) if ck in E.effectful and fg.bodies[ck].owner != bb.owner]
                            if not tgt:
                                continue
                            n_sites += 1
                            ok = False
                            for a in ct["args"]:
                                if a["k"] == "const" or a["p"]["ty"] != "usize":
                                    continue
                                back = fg.backward(fg.operand_nodes(kk, a), node_ok=lambda n: n[0] != "F" and n[0] in ub, edge_ok=lambda e: e.kind in ("copy", "ref", "base2field", "field2whole", "upvar", "cast", "un"))
                                if any(n in params for n in back):
                                    ok = True
                            if not ok:
                                probs.append((bb, cbi, "a callee with channel effects that is not given the element as its peer (%s)" % cn[0].rsplit("::", 1)[-1]))
                # the iterator yields pairwise distinct peers
                si = SliceInfo(fg, fg.operand_nodes(k, it))
                ity = it["p"]["ty"] if it["k"] != "const" else ""
                distinct = "core::ops::range::Range<usize>" in ity or "Enumerate<" in ity
                src = si.field_names(CTX)
                if not distinct and "p_out" in src:
                    distinct = True   # validate() rejects repeated output parties (C18 R10.dup)
                if not distinct:
                    probs.append((b, bi, "an iterator that is not known to yield distinct peers (%s)" % ity[:80]))
                if probs:
                    bb, x, what = probs[0]
                    res.bad("R8.join", inst, "concurrent branches of this join may address the same peer in the same direction: one branch uses %s" % what, where(bb, x))
                else:
                    res.ok("R8.join", inst, where(b, bi), "%d channel operations per branch, all addressed to the element of an iteration over distinct peers" % n_sites)
            elif names[0] == JOIN2:
                n_join += 1
                inst = "%s|try_join@%s" % (fn, fl(t["sp"]).rsplit(":", 1)[-1])
                dirs = []
                for a in t["args"]:
                    defs, ty = future_origin_defs(fg, k, b, a)
                    ub = []
                    for d in defs:
                        ub += E.unit_bodies(d)
                        # `opaque<{coroutine:fn::{closure#0}}>` = future of an async fn: its owner
                        ub += [kk for kk, bb in fg.bodies.items() if bb.owner == d.split("::{closure")[0] and d.split("::{closure")[0] != b.owner]
                    dirs.append(E.dirs_of_bodies(ub))
                if len(dirs) == 2 and dirs[0] and dirs[1] and not (dirs[0] & dirs[1]):
                    res.ok("R8.join", inst, where(b, bi), "branches are direction-disjoint: %s / %s" % (sorted(dirs[0]), sorted(dirs[1])))
                elif len(dirs) == 2 and (not dirs[0] or not dirs[1]):
                    res.ok("R8.join", inst, where(b, bi), "only one branch performs channel operations")
                else:
                    res.bad("R8.join", inst, "both branches of this join send to / receive from possibly the same peer (%s): two operations in one direction would be outstanding at once" % [sorted(d) for d in dirs], where(b, bi))
    # try_join!/join! macros: pairs of maybe_done in one body
    for k in sorted(eng):
        b = fg.bodies[k]
        md = [(bi, t) for bi, t in b.calls() if callee_names(t) and callee_names(t)[0] == MAYBE and bi in b.live_blocks()]
        if len(md) >= 2:
            n_join += 1
            fn = b.owner.replace("polytune::", "")
            inst = "%s|try_join!" % fn
            dirs = []
            for bi, t in md:
                defs, ty = future_origin_defs(fg, k, b, t["args"][0])
                ub = []
                for d in defs:
                    ub += E.unit_bodies(d)
                    ub += [kk for kk, bb in fg.bodies.items() if bb.owner == d.split("::{closure")[0] and d.split("::{closure")[0] != b.owner]
                dirs.append(E.dirs_of_bodies(ub))
            clash = any(dirs[i] & dirs[j] for i in range(len(dirs)) for j in range(i + 1, len(dirs)))
            if clash:
                res.bad("R8.join", inst, "branches of this join macro share a direction (%s)" % [sorted(d) for d in dirs], where(b, md[0][0]))
            else:
                res.ok("R8.join", inst, where(b, md[0][0]), "branches are direction-disjoint: %s" % [sorted(d) for d in dirs])
    res.floor("join_sites", n_join, 4)


# who may take a future with channel effects (or a closure producing one): the combinators whose
# concurrency R8.join bounds, the await machinery, inert wrappers.  Anything else (FuturesOrdered /
# FuturesUnordered, buffer_unordered, select, spawn, ...) polls several futures at once in a way no rule
# here bounds.
CONSUMERS_OK = (
    "core::future::future::Future::poll", "core::future::into_future::IntoFuture::into_future",
    "core::pin::Pin::<Ptr>::as_mut", "core::pin::Pin::<Ptr>::new_unchecked", "core::pin::Pin::<Ptr>::new",
    "core::pin::Pin::<Ptr>::get_unchecked_mut", "core::pin::Pin::<Ptr>::map_unchecked_mut",
    "futures_util::future::maybe_done::MaybeDone::<Fut>::output_mut", "futures_util::future::maybe_done::MaybeDone::<Fut>::take_output",
    "tracing::instrument::Instrument::instrument", "tracing::instrument::Instrument::in_current_span",
    "core::iter::traits::iterator::Iterator::map", "core::iter::traits::collect::IntoIterator::into_iter",
    "core::iter::traits::iterator::Iterator::enumerate", "core::iter::traits::iterator::Iterator::zip",
    "core::mem::drop", "alloc::boxed::Box::<T>::pin", "alloc::boxed::Box::<T>::new",
)
INERT_CONTAINER = ("alloc::vec::Vec<", "&mut alloc::vec::Vec<", "&alloc::vec::Vec<")
CONTAINER_OPS = ("core::iter::traits::iterator::Iterator::collect", "core::iter::traits::collect::FromIterator::from_iter",
                 "alloc::vec::Vec::<T, A>::push", "alloc::vec::Vec::<T>::new", "alloc::vec::Vec::<T>::with_capacity",
                 "core::iter::traits::collect::Extend::extend")


def rule_consumers(S, res):
    """R8.consume: a future with channel effects, or a closure that builds one, is handed only to the
    join combinators R8.join analyses, to the await machinery, or to an inert Vec."""
    fg = S.fg
    E = Eff(S)
    n = 0
    eff_def = {}

    def effectful_def(d):
        if d not in eff_def:
            ub = E.unit_bodies(d)
            eff_def[d] = bool(ub) and bool(E.dirs_of_bodies(ub))
        return eff_def[d]
    bad = 0
    for k, b in engine_bodies(fg):
        for bi, t in b.calls():
            if bi not in b.live_blocks():
                continue
            names = callee_names(t)
            if not names:
                continue
            tys = [a["p"]["ty"] for a in t["args"] if a["k"] != "const"]
            dn = fg.node_of_place(k, t["d"])
            dty = b.local_ty(dn[1]) if dn and dn[0] == k else ""
            defs = set()
            for ty in tys + [dty]:
                for d in closure_defs_in_type(ty):
                    if effectful_def(d):
                        defs.add(d)
            if not defs:
                continue
            n += 1
            nm = names[0]
            if nm in CONSUMERS_OK or nm in JOINS or any(x in fg.by_id for x in names):
                continue
            if nm in CONTAINER_OPS:
                cty = dty if ("collect" in nm or "from_iter" in nm or "::new" in nm or "with_capacity" in nm) else (tys[0] if tys else "")
                if cty.startswith(INERT_CONTAINER):
                    continue
            bad += 1
            res.bad("R8.consume", "%s|%s" % (b.owner.replace("polytune::", ""), nm.rsplit("::", 2)[-2] + "::" + nm.rsplit("::", 1)[-1] if "::" in nm else nm),
                    "a future with channel effects (or a closure building one: %s) is handed to %s; only try_join_all / try_join / .await bound how many "
                    "operations per peer are outstanding" % (sorted(defs)[0].replace("polytune::", ""), nm), where(b, bi))
    res.floor("future_consumer_sites", n, 300)
    if not bad:
        res.ok("R8.consume", "engine", "", "%d call sites take channel futures or their closures: all are join combinators, await machinery, creations or inert Vecs" % n)


def rule_sequential(S, res):
    """Outside joins every channel operation is awaited before the next one is started."""
    fg = S.fg
    E = Eff(S)
    eng = {k for k, b in engine_bodies(fg)}
    n = 0
    bad = 0
    for k in sorted(eng):
        b = fg.bodies[k]
        creations = []
        for bi, t in b.calls():
            if bi not in b.live_blocks():
                continue
            names = callee_names(t)
            if not names:
                continue
            if any(x in PRIMS for x in names) or names[0] in JOINS:
                creations.append((bi, t, names[0]))
                continue
            if names[0].endswith("Future::poll") or names[0].endswith("into_future"):
                continue
            tg = []
            for x in names:
                tg += [ck for ck in fg.by_id.get(x, []) if ck in E.effectful and fg.bodies[ck].owner != b.owner]
            if tg and any(fg.bodies[ck].j.get("async") or fg.bodies[ck].is_coroutine for ck in tg):
                creations.append((bi, t, names[0]))
        if len(creations) < 2:
            continue
        ready = {}
        flows = {}
        for bi, t, nm in creations:
            ready[bi] = r3.await_ready_edge(S, k, b, bi)
            seed = fg.node_of_place(k, t["d"])
            flows[bi] = fg.forward([seed], edge_ok=secmod.struct_edge, node_ok=lambda x: x[0] == k)
        joins = [(bi, t) for bi, t, nm in creations if nm in JOINS]
        for i, (bi, t, nm) in enumerate(creations):
            for (bj, tj, nmj) in creations:
                if bj == bi or not b.dominates(bi, bj):
                    continue
                n += 1
                r = ready[bi]
                if r and b.edge_dominates(r[0], r[1], bj):
                    continue   # completed before the next one starts
                # started, not yet completed: allowed only if it is handed to the later creation (a
                # join / wrapper taking it as argument) or both end up in one join
                if any(a["k"] != "const" and any(x in flows[bi] for x in fg.operand_nodes(k, a)) for a in tj["args"]):
                    continue
                both = False
                for (jb, jt) in joins:
                    ins = [a for a in jt["args"] if a["k"] != "const"]
                    in_i = any(any(x in flows[bi] for x in fg.operand_nodes(k, a)) for a in ins)
                    in_j = any(any(x in flows[bj] for x in fg.operand_nodes(k, a)) for a in ins)
                    if in_i and in_j:
                        both = True
                if both:
                    continue
                # two maybe_done (try_join!) in one body
                if nm == MAYBE or nmj == MAYBE:
                    continue
                mds = [(mb, mt) for mb, mt in b.calls() if callee_names(mt) and callee_names(mt)[0] == MAYBE]
                if len(mds) >= 2:
                    in_i = any(any(x in flows[bi] for x in fg.operand_nodes(k, a)) for mb, mt in mds for a in mt["args"] if a["k"] != "const")
                    in_j = any(any(x in flows[bj] for x in fg.operand_nodes(k, a)) for mb, mt in mds for a in mt["args"] if a["k"] != "const")
                    if in_i and in_j:
                        continue
                # returned unawaited (a closure that builds a future for its caller)
                if (k, 0, None) in flows[bi] and not r:
                    continue
                bad += 1
                res.bad("R8.seq", "%s|%s->%s" % (b.owner.replace("polytune::", ""), nm.rsplit("::", 1)[-1], nmj.rsplit("::", 1)[-1]),
                        "a channel operation is started while an earlier one (%s) may still be outstanding and the two are not branches of one join" % nm.rsplit("::", 1)[-1], where(b, bj))
    res.floor("sequenced_channel_operation_pairs", n, 20)
    if not bad:
        res.ok("R8.seq", "engine", "", "%d ordered pairs of channel operations: each earlier one is awaited first or both are branches of one join" % n)


def rule_roles(S, res):
    """Every label is both sent and received; for labels exchanged under a role branch the set of
    labels that must precede the operation is the same at the sender and at the receiver; the two
    arms of the pairwise OT ordering are mirror images."""
    fg = S.fg
    eng = {k for k, b in engine_bodies(fg)}
    by_label = defaultdict(lambda: {"send": [], "recv": []})
    for s in S.inv.direct_sites():
        if s.bk not in eng:
            continue
        kind, snd, rcv, ver = PRIMS[s.prim]
        for l in s.label or ["?"]:
            if snd:
                by_label[l]["send"].append(s)
            if rcv:
                by_label[l]["recv"].append(s)
    n = 0
    for l, d in sorted(by_label.items()):
        n += 1
        if d["send"] and d["recv"]:
            continue
        which = "received" if not d["recv"] else "sent"
        s = (d["send"] or d["recv"])[0]
        res.bad("R8.pair", "%s|pair" % l, "message %r is never %s: its counterpart would wait forever" % (l, which), fl(s.sp))
    res.floor("labels_paired", n, 12)
    if not [v for v in res.violations if v["rule"] == "R8.pair"]:
        res.ok("R8.pair", "labels", "", "%d labels, each has a send and a receive site" % n)
    # prior-label agreement inside one function family
    for l, d in sorted(by_label.items()):
        for ss in d["send"]:
            for rs in d["recv"]:
                if ss is rs or ss.body.owner != rs.body.owner:
                    continue
                if PRIMS[ss.prim][2] or PRIMS[rs.prim][1]:
                    continue   # composite exchange: both directions in one call
                fam = ss.body.owner

                def prior(site):
                    out = set()
                    for o in S.inv.direct_sites():
                        if o is site or o.body.owner != fam or o.bk != site.bk:
                            continue
                        if set(o.label or []) == set(site.label or []):
                            continue
                        bb = site.body
                        if bb.dominates(o.block, site.block):
                            out |= set(o.label or [])
                    # sites in enclosing bodies that dominate the construction of this closure
                    from an import construction_chain
                    for (pk, pbi, psi) in construction_chain(fg, site.bk):
                        pb = fg.bodies[pk]
                        for o in S.inv.direct_sites():
                            if o.bk == pk and pb.dominates(o.block, pbi) and set(o.label or []) != set(site.label or []):
                                out |= set(o.label or [])
                    return out
                ps, pr = prior(ss), prior(rs)
                inst = "%s|%s|order" % (fam.rsplit("::", 1)[-1], l)
                if ps == pr:
                    res.ok("R8.order", inst, fl(ss.sp), "sender and receiver both run it after %s" % (sorted(ps) or "nothing"))
                else:
                    res.bad("R8.order", inst, "the sender performs %r after %s but the receiver after %s: with untagged per-pair FIFO channels the messages are mismatched" % (l, sorted(ps), sorted(pr)), fl(ss.sp))
    # pairwise OT ordering in fabitn
    fab = [(k, b) for k, b in fg.bodies.items() if b.owner == "polytune::mpc::faand::fabitn"]
    found = False
    for k, b in fab:
        snd = [bi for bi, t in b.calls() if "polytune::ot::kos_ot_sender" in callee_names(t)]
        rcv = [bi for bi, t in b.calls() if "polytune::ot::kos_ot_receiver" in callee_names(t)]
        if len(snd) == 2 and len(rcv) == 2:
            found = True
            # two arms: in one the sender call dominates the receiver call, in the other vice versa
            arms = []
            for s_ in snd:
                for r_ in rcv:
                    if b.dominates(s_, r_):
                        arms.append("SR")
                    elif b.dominates(r_, s_):
                        arms.append("RS")
            # the arms are selected by a comparison of the own index with the peer index
            cmp_ok = False
            for bi, blk in enumerate(b.blocks):
                for st in blk["s"]:
                    if st["k"] == "assign" and st["r"]["k"] == "bin" and st["r"]["op"] in ("Lt", "Gt", "Le", "Ge") and blk["t"]["k"] == "switch":
                        tm = [tb for _, tb in blk["t"]["ts"]] + [blk["t"]["else"]]
                        if any(any(x in b.reachable_from(y) for x in snd) for y in tm):
                            cmp_ok = True
            if sorted(arms) == ["RS", "SR"] and cmp_ok:
                res.ok("R8.dual", "fabitn|ot-order", where(b, snd[0]), "one arm runs sender then receiver, the other receiver then sender, selected by an order comparison of own and peer index")
            else:
                res.bad("R8.dual", "fabitn|ot-order", "the two parties of a pair do not run the OT sessions in mirrored order (arms: %s): both would wait in the same role" % arms, where(b, snd[0]))
    if not found:
        res.bad("R8.dual", "fabitn|ot-order", "cannot locate the sequenced sender/receiver OT sessions of fabitn (they must not run concurrently on one untagged channel)")


def rule_burst(S, res):
    """R8.burst: with channels that buffer (at least) one message, a party that both sends and receives a
    message kind in one exchange sends at most one message per peer before it starts receiving: a send
    site inside a loop whose peer does not change with the loop (several messages to the same peer) is
    only allowed where sender and receiver are different roles (the garbler streams chunks while the
    evaluator is receiving them).  Otherwise both sides block on their second message."""
    from an import construction_chain
    fg = S.fg
    eng = {k for k, b in engine_bodies(fg)}
    sites = [s for s in S.inv.direct_sites() if s.bk in eng]
    n = 0
    bad = 0

    def lifted(site):
        """[(body key, block)] of the site itself and of the closure constructions enclosing it"""
        out = [(site.bk, site.block)]
        for (pk, pbi, _si) in construction_chain(fg, site.bk):
            out.append((pk, pbi))
        return out

    def exclusive(a, c):
        la, lc = lifted(a), lifted(c)
        for (ka, ba) in la:
            for (kc, bc) in lc:
                if ka != kc:
                    continue
                b = fg.bodies[ka]
                for bi, blk in enumerate(b.blocks):
                    t = blk["t"]
                    if t["k"] != "switch":
                        continue
                    tg = list(dict.fromkeys([tb for _v, tb in t["ts"]] + [t["else"]]))
                    da = [x for x in tg if b.edge_dominates(bi, x, ba)]
                    dc = [x for x in tg if b.edge_dominates(bi, x, bc)]
                    if da and dc and not (set(da) & set(dc)):
                        return True
        return False
    for s in sites:
        kind, snd, rcv, ver = PRIMS[s.prim]
        if not snd or rcv:
            continue
        b = s.body
        loops = [body for h, body in S.loops(b) if s.block in body]
        if not loops:
            continue
        body = min(loops, key=len)
        peer = s.term["args"][1]
        if peer["k"] == "const":
            continue
        back = fg.backward(fg.operand_nodes(s.bk, peer), node_ok=lambda x: x[0] == s.bk, edge_ok=lambda e: e.kind in ("copy", "ref", "cast", "base2field", "field2whole"))
        locs = {x[1] for x in back}
        varies = False
        for bi in body:
            blk = b.blocks[bi]
            for st in blk["s"]:
                if st["k"] == "assign" and not st["p"]["pr"] and st["p"]["l"] in locs and st["r"]["k"] != "ref":
                    src = st["r"].get("o")
                    if st["r"]["k"] == "use" and src and src["k"] != "const" and src["p"]["l"] in locs and not src["p"]["pr"]:
                        continue
                    varies = True
            t = blk["t"]
            if t["k"] == "call" and t["d"]["l"] in locs:
                varies = True
        if varies:
            continue
        n += 1
        lab = "/".join(s.label or ["?"])
        partners = [r for r in sites if PRIMS[r.prim][2] and r.body.owner == b.owner and set(r.label or []) & set(s.label or [])]
        inst = "%s|%s" % (b.owner.rsplit("::", 1)[-1], lab)
        same_role = [r for r in partners if not exclusive(s, r)]
        if same_role:
            bad += 1
            res.bad("R8.burst", inst, "several %r messages are sent to the same peer in a loop, and the same party also receives %r in this exchange without being in a different role branch: both sides send their second message before either receives, which blocks for good on channels that buffer one message" % (lab, lab), fl(s.sp),
                    key="R8.burst|%s|%s" % (b.owner.rsplit("::", 1)[-1], lab))
        else:
            res.ok("R8.burst", inst, fl(s.sp), "a stream of messages to one peer; the receiving side is a different role (exclusive branch)")
    res.count("streaming_send_sites", n)
    if not bad and not n:
        res.ok("R8.burst", "engine", "", "no send site repeats inside a loop for the same peer")
