"""Rule family R1 (no panic-capable operation on peer-shaped data) and R-ERR, for C08."""
from collections import defaultdict
from mir import callee, callee_names
from an import where, edge_fail_closed, root_local, defs_of, control_deps
from chan import PRIMS, RECV, RECV_VEC
from common import fl
import sec as secmod
import r2

INDEX_TAILS = {"index", "index_mut", "split_at", "split_at_mut", "copy_from_slice", "chunks_exact", "swap", "remove",
               "split_off", "drain", "swap_remove", "split_first", "split_last", "clone_from_slice", "rotate_left", "rotate_right"}
UNWRAP_TAILS = {"unwrap", "expect", "unwrap_unchecked", "unwrap_err", "expect_err"}
ALLOC_TAILS = {"with_capacity", "from_elem", "reserve", "reserve_exact", "resize", "repeat_n", "repeat"}


def norm_ty(t):
    t = t.strip()
    while t.startswith("&"):
        t = t[1:]
        if t.startswith("mut "):
            t = t[4:]
    t = t.replace(", alloc::alloc::Global", "")
    if t.startswith("[") and t.endswith("]") and ";" not in t:
        t = "alloc::vec::Vec<" + t[1:-1] + ">"
    return t


def strip_vec(t):
    p = "alloc::vec::Vec<"
    if t.startswith(p) and t.endswith(">"):
        return t[len(p):-1]
    return None


def is_container(t):
    return t.startswith("alloc::vec::Vec<") or t.startswith("alloc::string::String") or t.startswith("alloc::collections")


def ok_type(result_ty):
    """The T of `core::result::Result<T, E>` (top-level comma split)."""
    p = "core::result::Result<"
    t = result_ty.replace(", alloc::alloc::Global", "")
    if not t.startswith(p):
        return None
    depth = 0
    body = t[len(p):-1]
    for i, ch in enumerate(body):
        if ch in "<([":
            depth += 1
        elif ch in ">)]":
            depth -= 1
        elif ch == "," and depth == 0:
            return body[:i].strip()
    return body


def validated_types(site):
    """(container types of a receive result whose length the primitive validated, full result type).
    The result type is derived from the primitive's generic arguments (the call itself returns a
    future)."""
    from chan import SCATTER, UBCAST, BCAST, BFSS, BVERIF
    d, fr = callee(site.term)
    targs = [x.replace(", alloc::alloc::Global", "") for x in ((fr or {}).get("targs") or []) if not x.startswith("impl ")]
    if not targs:
        return set(), None
    V = "alloc::vec::Vec<%s>"
    if site.prim == RECV:
        return set(), V % targs[0]          # nothing validated: the whole vector is peer shaped
    if site.prim == RECV_VEC:
        return {V % targs[0]}, V % targs[0]
    if site.prim == BFSS and len(targs) >= 2:
        el = "(%s, %s)" % (targs[0], targs[1])
    else:
        el = targs[0]
    inner = V % el
    full = V % inner
    # scatter / broadcasts: per-party vector built locally, per-party length validated
    return {full, inner}, full


def closure_defs_of_call(fg, b, t):
    out = []
    for a in t["args"]:
        ty = a["p"]["ty"] if a["k"] != "const" else ""
        for pre in ("", "&", "&mut "):
            for tag in ("{closure:", "{coroutine_closure:"):
                if ty.startswith(pre + tag):
                    out.append(ty[len(pre) + len(tag):-1])
    return out



def closure_len_predicate_ok(cb, mode):
    """Does this closure (the predicate of `all` / `any`) accept an element only if *every* length
    comparison in it holds?  The small CFG is interpreted for all outcomes of its comparisons:
    mode "all": result true  => every Eq comparison true and every Ne comparison false;
    mode "any": result false => likewise (`any(|x| x.len() != n)` rejects when it returns true)."""
    import itertools
    cmps = {}      # local -> ("Eq"|"Ne")
    for blk in cb.blocks:
        for st in blk["s"]:
            if st["k"] == "assign" and not st["p"]["pr"] and st["r"]["k"] == "bin" and st["r"]["op"] in ("Eq", "Ne"):
                cmps[st["p"]["l"]] = st["r"]["op"]
    if not cmps or len(cmps) > 5:
        return False
    keys = sorted(cmps)
    for vals in itertools.product([False, True], repeat=len(keys)):
        env = dict(zip(keys, vals))
        known = dict(env)
        cur = 0
        ret = None
        for _ in range(200):
            blk = cb.blocks[cur]
            for st in blk["s"]:
                if st["k"] != "assign" or st["p"]["pr"]:
                    continue
                r = st["r"]
                l = st["p"]["l"]
                if l in env:
                    continue
                if r["k"] == "use":
                    o = r["o"]
                    if o["k"] == "const":
                        known[l] = o.get("v") in ("1", "true")
                    elif not o["p"]["pr"] and o["p"]["l"] in known:
                        known[l] = known[o["p"]["l"]]
                elif r["k"] == "un" and r.get("op") == "Not" and r["a"]["k"] != "const" and r["a"]["p"]["l"] in known:
                    known[l] = not known[r["a"]["p"]["l"]]
            t = blk["t"]
            if t["k"] == "return":
                ret = known.get(0)
                break
            if t["k"] == "goto":
                cur = t["t"]
            elif t["k"] == "switch":
                o = t["o"]
                if o["k"] == "const" or o["p"]["pr"] or o["p"]["l"] not in known:
                    return False
                v = "1" if known[o["p"]["l"]] else "0"
                tm = {str(a): tb for a, tb in t["ts"]}
                cur = tm.get(v, t["else"])
            elif t["k"] in ("call", "drop", "assert"):
                cur = t["t"]
                if cur is None:
                    return False
            else:
                return False
        if ret is None:
            return False
        all_equal = all((env[k_] if cmps[k_] == "Eq" else not env[k_]) for k_ in keys)
        accepted = ret if mode == "all" else (not ret)
        if accepted and not all_equal:
            return False
    return True


def _copy_chain(b, l, target, depth=0):
    if l == target:
        return True
    if depth > 4:
        return False
    d = defs_of(b, l)
    if len(d) == 1 and d[0][1] != "t" and d[0][2]["k"] == "use" and d[0][2]["o"]["k"] != "const" and not d[0][2]["o"]["p"]["pr"]:
        return _copy_chain(b, d[0][2]["o"]["p"]["l"], target, depth + 1)
    return False


def length_guards(S, bk, b):
    """Fail-closed length tests of body b: list of (root local of the measured container,
    good edges, exact?) - including tests written as `iter().any(|x| x.len() != n)`."""
    fg = S.fg
    out = []
    for c in S.checks():
        if c.bk != bk:
            continue
        for cbi, names in c.calls:
            tail = names[-1].rsplit("::", 1)[-1] if names else ""
            tt = b.blocks[cbi]["t"]
            if tail in ("len", "is_empty") and tt["args"]:
                # in a compound condition the test of *this* vector must reject on its own: the mismatch edge
                # of the comparison that uses this length cannot reach Ok (`a.len() == n || b.len() == n`
                # accepts a short `a`)
                own_ok = True
                ln = tt["d"]["l"]
                for bj, blk in enumerate(b.blocks):
                    for st in blk["s"]:
                        if st["k"] == "assign" and st["r"]["k"] == "bin" and st["r"]["op"] in ("Eq", "Ne") and blk["t"]["k"] == "switch" and blk["t"]["o"]["k"] != "const" and blk["t"]["o"]["p"]["l"] == st["p"]["l"]:
                            ops = [o for o in (st["r"]["a"], st["r"]["b"]) if o["k"] != "const" and not o["p"]["pr"]]
                            if not any(_copy_chain(b, o["p"]["l"], ln) for o in ops):
                                continue
                            tm = {str(v): tb for v, tb in blk["t"]["ts"]}
                            zero, other = tm.get("0"), blk["t"]["else"]
                            mismatch = other if st["r"]["op"] == "Ne" else zero
                            if mismatch is not None and not edge_fail_closed(b, bj, mismatch)[0]:
                                own_ok = False
                if own_ok:
                    out.append((root_local(b, tt["args"][0]), c.good_edges, True, c))
            if tail in ("any", "all") and tt["args"]:
                # closure(s) measuring elements of the iterated container
                has_len = False
                st = closure_defs_of_call(fg, b, tt)
                seen = set()
                while st:
                    cd = st.pop()
                    if cd in seen:
                        continue
                    seen.add(cd)
                    for ck in fg.by_id.get(cd, []):
                        cb = fg.bodies[ck]
                        for bi2, t2 in cb.calls():
                            n2 = callee_names(t2)
                            if n2 and n2[-1].rsplit("::", 1)[-1] in ("len", "is_empty") and closure_len_predicate_ok(cb, tail):
                                has_len = True
                            st.extend(closure_defs_of_call(fg, cb, t2))
                if has_len:
                    # the collection whose elements are all measured: first named local up the chain
                    up = fg.backward(fg.operand_nodes(bk, tt["args"][0]), node_ok=lambda x: x[0] == bk, edge_ok=secmod.struct_edge)
                    named = [x[1] for x in up if x[0] == bk and b.locals[x[1]]["name"]]
                    for g in named:
                        out.append((("deep", g), c.good_edges, True, c))
    return out


def mpc_closure(S):
    fg, cg = S.fg, S.cg
    roots = [k for k, b in fg.bodies.items() if b.owner == "polytune::mpc::protocol::mpc" and b.krate == "polytune"]
    cl = cg.closure(roots)
    # user supplied Channel implementations are outside the engine (SimpleChannel is a test double)
    return {k for k in cl if "SimpleChannel" not in fg.bodies[k].owner}


def concrete_node_ty(S, n, depth=0, seen=None):
    """Type of a component node; inside a generic helper (`&[T]`) the type of the value the
    caller passed in (callers are not generic in this crate's protocol code)."""
    import re
    fg = S.fg
    ty = norm_ty(S.node_ty(n))
    if not re.search(r"(?<![A-Za-z0-9_:])[A-Z]{1,3}(?![A-Za-z0-9_:])", ty) or depth > 8:
        return ty
    seen = seen or set()
    if n in seen:
        return ty
    seen.add(n)
    for e in fg.inn.get(n, ()):
        if e.kind in ("callarg", "closarg", "upvar", "copy", "ref") and e.src[0] != "F":
            t2 = concrete_node_ty(S, e.src, depth + 1, seen)
            if not re.search(r"(?<![A-Za-z0-9_:])[A-Z]{1,3}(?![A-Za-z0-9_:])", t2):
                return t2
    return ty


def _floor_multiple_of_own_len(fg, bk, b, operand, croots, roots):
    def bin_def(o, ops):
        """(a, b) of the single bin statement with one of `ops` that defines operand o (through moves / `.0` of a checked op)"""
        cur = o
        for _ in range(6):
            if cur["k"] == "const":
                return None
            ds = defs_of(b, cur["p"]["l"])
            if len(ds) != 1 or ds[0][1] == "t":
                return None
            r = ds[0][2]
            if r["k"] == "use":
                cur = r["o"]
                continue
            if r["k"] == "bin" and r["op"] in ops:
                return r["a"], r["b"]
            return None
        return None

    def const_of(o):
        if o["k"] == "const":
            return o.get("v")
        ds = defs_of(b, o["p"]["l"]) if not o["p"]["pr"] else []
        if len(ds) == 1 and ds[0][1] != "t" and ds[0][2]["k"] == "use" and ds[0][2]["o"]["k"] == "const":
            return ds[0][2]["o"].get("v")
        return None
    m = bin_def(operand, ("Mul", "MulWithOverflow", "MulUnchecked"))
    if not m:
        return False
    for x, c in (m, m[::-1]):
        k1 = const_of(c)
        if k1 is None or x["k"] == "const":
            continue
        d = bin_def(x, ("Div",))
        if not d or const_of(d[1]) != k1 or d[0]["k"] == "const":
            continue
        # the dividend is len() of the same container
        cur = d[0]
        for _ in range(6):
            ds = defs_of(b, cur["p"]["l"])
            if len(ds) != 1:
                return False
            if ds[0][1] == "t":
                cn = callee_names(ds[0][2])
                return bool(cn) and cn[-1].rsplit("::", 1)[-1] == "len" and ds[0][2]["args"] and ds[0][2]["args"][0]["k"] != "const" and bool(roots(ds[0][2]["args"][0]) & croots)
            if ds[0][2]["k"] == "use" and ds[0][2]["o"]["k"] != "const":
                cur = ds[0][2]["o"]
                continue
            return False
    return False


def rule_peer_shaped_sinks(S, res):
    """R1.i / R1.iii: index / slice / unwrap on message components below the validated level."""
    fg = S.fg
    cl = mpc_closure(S)
    n_sinks = 0
    n_guarded = 0
    seen = set()
    for s in S.recv_sites:
        if s.bk not in cl:
            continue
        vtypes, T = validated_types(s)
        reach = S.comp_by_site[id(s)]
        lab = (s.label or ["?"])[0]
        guards_cache = {}
        for n in reach:
            if n[0] == "F":
                continue
            bk = n[0]
            b = fg.bodies[bk]
            nty = concrete_node_ty(S, n)
            for e in fg.out.get(n, ()):
                if e.kind != "call" or e.block is None or e.body != bk:
                    continue
                names = (e.info or {}).get("names") or []
                tail = names[-1].rsplit("::", 1)[-1] if names else ""
                if e.info.get("arg") != 0:
                    continue
                t = b.blocks[e.block]["t"]
                key = (bk, e.block)
                if tail in INDEX_TAILS and is_container(nty):
                    if key in seen:
                        continue
                    seen.add(key)
                    n_sinks += 1
                    if nty in vtypes:
                        continue  # length validated by the receive primitive
                    if T is None or nty not in T:
                        continue  # a container the function built itself from message parts (own length)
                    # own containers that merely hold message parts are not peer shaped: the node must
                    # be a component *container* of the received type tree
                    if bk not in guards_cache:
                        guards_cache[bk] = length_guards(S, bk, b)
                    rl = root_local(b, t["args"][0])
                    ok = False
                    up = fg.backward(fg.operand_nodes(bk, t["args"][0]), node_ok=lambda x: x[0] == bk, edge_ok=secmod.struct_edge)
                    for (gl, good, exact, c) in guards_cache[bk]:
                        if any(b.edge_dominates(s_, d_, e.block) for (s_, d_) in good):
                            # the guard measures this container, or the collection it is an element of
                            if gl == rl:
                                ok = True
                            elif isinstance(gl, tuple) and gl[0] == "deep" and any(x[1] == gl[1] for x in up if x[0] == bk):
                                ok = True  # every element of that collection was measured
                    if not ok and tail in ("index", "index_mut", "split_at", "split_at_mut") and len(t["args"]) == 2 and t["args"][1]["k"] != "const":
                        # a range / position clamped to the vector's own length: `v[..n.min(v.len())]`
                        ib = fg.backward(fg.operand_nodes(bk, t["args"][1]), node_ok=lambda x: x[0] == bk, edge_ok=lambda e2: e2.kind in ("copy", "agg", "cast", "ref", "call", "field2whole", "base2field"))
                        il = {x[1] for x in ib}
                        has_min = any(ct["d"]["l"] in il and callee_names(ct) and callee_names(ct)[-1].rsplit("::", 1)[-1] == "min" for _c, ct in b.calls())
                        roots = lambda o: {x[1] for x in fg.backward(fg.operand_nodes(bk, o), node_ok=lambda x: x[0] == bk, edge_ok=lambda e2: e2.kind in ("copy", "ref"))}
                        croots = roots(t["args"][0])
                        own_len = any(ct["d"]["l"] in il and callee_names(ct) and callee_names(ct)[-1].rsplit("::", 1)[-1] == "len" and ct["args"] and ct["args"][0]["k"] != "const" and (roots(ct["args"][0]) & croots) for _c, ct in b.calls())
                        if has_min and own_len:
                            ok = True
                        # `v.split_at_mut(v.len() / K * K)`: the largest multiple of K below the vector's own length
                        if not ok and _floor_multiple_of_own_len(fg, bk, b, t["args"][1], croots, roots):
                            ok = True
                    if ok:
                        n_guarded += 1
                        res.ok("R1.i", "%s|%s[]|%s" % (b.owner.rsplit("::", 1)[-1], (b.locals[rl]["name"] if rl is not None and b.locals[rl]["name"] else "?"), lab), where(b, e.block), "`%s` on a peer-sized vector behind a fail-closed length test (or clamped to its own length)" % tail)
                        continue
                    var = b.locals[rl]["name"] if rl is not None and b.locals[rl]["name"] else "?"
                    res.bad("R1.i", "%s|%s[]|%s" % (b.owner.rsplit("::", 1)[-1], var, lab),
                            "`%s` on a vector of message %r whose length the sender chooses (type %s is below the level validated on receipt): a short vector panics" % (tail, lab, nty),
                            where(b, e.block), key="R1.i|%s|%s|%s" % (b.owner.rsplit("::", 1)[-1], var, lab))
                elif tail in UNWRAP_TAILS:
                    if key in seen:
                        continue
                    seen.add(key)
                    n_sinks += 1
                    # allowed: conversion of a length-validated vector (try_into of a validated container)
                    back = fg.backward([n], node_ok=lambda x: x[0] == bk, edge_ok=secmod.struct_edge)
                    comps = [x for x in back if x in reach and is_container(norm_ty(S.node_ty(x))) and T and norm_ty(S.node_ty(x)) in T]
                    via_try_into = any(e2.kind == "call" and (e2.info or {}).get("names") and e2.info["names"][-1].rsplit("::", 1)[-1] == "try_into" for x in back for e2 in fg.inn.get(x, ()) if e2.body == bk)
                    if comps and via_try_into and all(norm_ty(S.node_ty(x)) in vtypes for x in comps):
                        continue  # fixed-size conversion of a vector whose length was validated on receipt
                    var = tail
                    res.bad("R1.iii", "%s|%s|%s" % (b.owner.rsplit("::", 1)[-1], tail, lab),
                            "`%s` on a value derived from message %r: malformed data panics instead of returning Err" % (tail, lab), where(b, e.block),
                            key="R1.iii|%s|%s|%s" % (b.owner.rsplit("::", 1)[-1], tail, lab))
    # decrypt plaintext
    for n in S.comp.get("decrypt", {}):
        if n[0] == "F":
            continue
        bk = n[0]
        b = fg.bodies[bk]
        for e in fg.out.get(n, ()):
            if e.kind != "call" or e.block is None or e.body != bk or (e.info or {}).get("arg") != 0:
                continue
            names = e.info.get("names") or []
            tail = names[-1].rsplit("::", 1)[-1] if names else ""
            nty = norm_ty(S.node_ty(n))
            if (tail in INDEX_TAILS and is_container(nty)) or tail in UNWRAP_TAILS:
                if (bk, e.block) in seen:
                    continue
                seen.add((bk, e.block))
                n_sinks += 1
                res.bad("R1.i" if tail in INDEX_TAILS else "R1.iii", "%s|%s|decrypt" % (b.owner.rsplit("::", 1)[-1], tail),
                        "`%s` on the decrypted row plaintext (shape chosen by the garbler)" % tail, where(b, e.block))
    # ... and its parts after they were stored into an own table (`macs[p] = mac_r; .. macs[p_j][p_i]`): values
    # of the plaintext's container types reached through alias / store edges inside the same function
    dcomp = [n for n in S.comp.get("decrypt", {}) if n[0] != "F"]
    dtypes = {norm_ty(S.node_ty(n)) for n in dcomp if is_container(norm_ty(S.node_ty(n)))}
    if dcomp and dtypes:
        owners = {fg.bodies[n[0]].owner for n in dcomp}

        def ext_edge(e):
            if e.src[0] == "F" or e.dst[0] == "F" or fg.bodies[e.src[0]].owner != fg.bodies[e.dst[0]].owner:
                return False
            return e.kind in ("alias", "alias_fb", "mutarg", "mutarg2") or secmod.struct_edge(e)
        ext = fg.forward(dcomp, node_ok=lambda x: x[0] != "F" and fg.bodies[x[0]].owner in owners, edge_ok=ext_edge, local=True, deep=True)
        for n in ext:
            if n in S.comp.get("decrypt", {}) or norm_ty(S.node_ty(n)) not in dtypes:
                continue
            bk = n[0]
            b = fg.bodies[bk]
            for e in fg.out.get(n, ()):
                if e.kind != "call" or e.block is None or e.body != bk or (e.info or {}).get("arg") != 0:
                    continue
                names = e.info.get("names") or []
                tail = names[-1].rsplit("::", 1)[-1] if names else ""
                if tail in ("index", "index_mut", "split_at", "copy_from_slice", "swap", "remove") and (bk, e.block) not in seen:
                    seen.add((bk, e.block))
                    n_sinks += 1
                    res.bad("R1.i", "%s|%s|decrypt-stored" % (b.owner.rsplit("::", 1)[-1], tail),
                            "`%s` on a vector taken from the decrypted row plaintext after it was stored in an own table (its length is chosen by the garbler)" % tail, where(b, e.block),
                            key="R1.i|%s|%s|decrypt-stored" % (b.owner.rsplit("::", 1)[-1], tail))
    res.floor("sinks_on_message_components", n_sinks, 20)
    res.count("guarded_peer_shaped_sinks", n_guarded)
    if not [v for v in res.violations if v["rule"] in ("R1.i", "R1.iii")]:
        res.ok("R1.i", "all-receives", "", "%d index/slice/unwrap sinks on message components: validated by the receive primitive or behind a fail-closed length test (%d)" % (n_sinks, n_guarded))


def rule_peer_length_arith(S, res):
    """R1.len: the length of a vector whose size the sender chooses (a container of the received type tree below the
    level validated on receipt) is used as a slice bound / split position on another container, or as the minuend of
    a subtraction (`row.len() - TAG_LEN`), without a dominating fail-closed length test of that vector: a longer /
    shorter vector than the honest one panics (index out of range, `attempt to subtract with overflow`)."""
    fg = S.fg
    cl = mpc_closure(S)
    n_len = 0
    bad = 0
    seen = set()
    work = []
    for s in S.recv_sites:
        if s.bk not in cl:
            continue
        vtypes, T = validated_types(s)
        work.append((S.comp_by_site[id(s)], vtypes, T, (s.label or ["?"])[0]))
    # the rows of the garbled tables reach the evaluator through the gate stream (file_or_mem_buf), not through a
    # receive result: the ciphertext handed to garble::decrypt is a vector whose length the garbler chooses
    for dk, db in fg.bodies.items():
        if db.owner == "polytune::mpc::garble::decrypt" and db.id == db.owner and db.argc >= 2:
            seed = (dk, 2, None)
            rr = fg.forward([seed], node_ok=lambda x: x[0] == dk, edge_ok=lambda e2: e2.kind in ("copy", "ref") or (e2.kind == "call" and secmod.struct_edge(e2)), local=True)
            pty = norm_ty(db.locals[2]["ty"])
            work.append((set(rr.keys()), set(), pty, "garbled row"))
    for reach, vtypes, T, lab in work:
        guards_cache = {}
        for n in reach:
            if n[0] == "F":
                continue
            bk = n[0]
            b = fg.bodies[bk]
            for e in fg.out.get(n, ()):
                if e.kind not in ("call", "shape") or e.block is None or e.body != bk or not isinstance(e.info, dict) or e.info.get("arg") != 0:
                    continue
                names = (e.info or {}).get("names") or []
                if not names or names[-1].rsplit("::", 1)[-1] != "len":
                    continue
                nty = concrete_node_ty(S, n)
                if not is_container(nty) or nty in vtypes or T is None or nty not in T:
                    continue
                if (bk, e.block) in seen:
                    continue
                seen.add((bk, e.block))
                n_len += 1
                t = b.blocks[e.block]["t"]
                rl = root_local(b, t["args"][0])
                croots = {x[1] for x in fg.backward(fg.operand_nodes(bk, t["args"][0]), node_ok=lambda x: x[0] == bk, edge_ok=lambda e2: e2.kind in ("copy", "ref") or (e2.kind == "call" and secmod.struct_edge(e2)))}
                ln = (bk, t["d"]["l"], None)
                # a minimum with another length (`n.min(v.len())`) is a clamp, not a bound the peer controls
                fwd = fg.forward([ln], node_ok=lambda x: x[0] == bk,
                                 edge_ok=lambda e2: e2.kind in ("copy", "cast", "ref", "agg", "field2whole", "base2field") or (e2.kind == "bin" and e2.info in ("Add", "Sub", "Mul", "AddWithOverflow", "SubWithOverflow", "MulWithOverflow", "AddUnchecked", "SubUnchecked")))
                locs = {x[1] for x in fwd}
                if bk not in guards_cache:
                    guards_cache[bk] = length_guards(S, bk, b)

                def guarded(block):
                    for (gl, good, exact, c) in guards_cache[bk]:
                        if any(b.edge_dominates(s_, d_, block) for (s_, d_) in good):
                            if gl == rl or (isinstance(gl, tuple) and gl[0] == "deep" and gl[1] in croots):
                                return True
                    return False
                var = b.locals[rl]["name"] if rl is not None and b.locals[rl]["name"] else "?"
                fn = b.owner.rsplit("::", 1)[-1]
                for bi, blk in enumerate(b.blocks):
                    tt = blk["t"]
                    if tt["k"] == "assert" and tt["mk"] == "Overflow" and any(o["k"] != "const" and o["p"]["l"] in locs for o in tt["mops"][:1]) and "Sub" in str(tt.get("op", "")) + str(tt.get("msg", "")) + str(tt):
                        if not guarded(bi):
                            bad += 1
                            res.bad("R1.len", "%s|%s.len()-|%s" % (fn, var, lab), "the length of `%s` (a vector of message %r whose size the sender chooses) is the minuend of a subtraction: a short vector panics with an arithmetic overflow instead of returning Err" % (var, lab), where(b, bi),
                                    key="R1.len|%s|%s|sub|%s" % (fn, var, lab))
                    if tt["k"] == "call":
                        cn = callee_names(tt)
                        tail = cn[-1].rsplit("::", 1)[-1] if cn else ""
                        if tail in INDEX_TAILS and len(tt["args"]) >= 2 and tt["args"][1]["k"] != "const" and tt["args"][1]["p"]["l"] in locs:
                            # the same vector indexed up to its own length is in range by construction
                            r0 = {x[1] for x in fg.backward(fg.operand_nodes(bk, tt["args"][0]), node_ok=lambda x: x[0] == bk, edge_ok=lambda e2: e2.kind in ("copy", "ref") or (e2.kind == "call" and secmod.struct_edge(e2)))}
                            arith = any(st["k"] == "assign" and st["p"]["l"] in locs and st["r"]["k"] == "bin" for blk2 in b.blocks for st in blk2["s"])
                            if (r0 & croots) and not arith:
                                continue
                            if not guarded(bi):
                                bad += 1
                                res.bad("R1.len", "%s|%s.len()|%s" % (fn, var, lab), "the length of `%s` (a vector of message %r whose size the sender chooses) decides the range / position of `%s`: a vector of another length than the honest one panics instead of returning Err" % (var, lab, tail), where(b, bi),
                                        key="R1.len|%s|%s|%s|%s" % (fn, var, tail, lab))
    res.count("lengths_of_peer_sized_vectors", n_len)
    if not bad:
        res.ok("R1.len", "all-receives", "", "%d len() of peer-sized vectors: none bounds a slice of another container or is subtracted from without a fail-closed length test" % n_len)


def rule_peer_scalar(S, res):
    """R1.ii: a received integer is never used as index, size or divisor."""
    fg = S.fg
    cl = mpc_closure(S)
    INT = {"usize", "u8", "u16", "u32", "u64", "u128", "i32", "i64", "isize"}
    n = 0
    bad = 0
    for lab, comp in S.comp.items():
        for node in comp:
            if node[0] == "F" or node[0] not in cl:
                continue
            ty = norm_ty(S.node_ty(node))
            if ty not in INT:
                continue
            # the integer type must occur in the element type of the message (loop counters produced by
            # enumerate() over a received vector are not received values)
            if not any(ty in (validated_types(s_)[1] or "") for s_ in S.recv_sites if lab in (s_.label or [])) and lab != "decrypt":
                continue
            bk = node[0]
            b = fg.bodies[bk]
            # follow casts / arithmetic inside the body
            fwd = fg.forward([node], node_ok=lambda x: x[0] == bk, edge_ok=lambda e: e.kind in ("copy", "cast", "bin", "un", "ref", "base2field"))
            for x in fwd:
                for e in fg.out.get(x, ()):
                    if e.body != bk or e.block is None:
                        continue
                    if e.kind == "index":
                        n += 1
                        bad += 1
                        res.bad("R1.ii", "%s|index|%s" % (b.owner.rsplit("::", 1)[-1], lab), "a received integer of %r is used as an index" % lab, where(b, e.block, e.idx if e.idx is not None else "t"))
                    if e.kind == "call":
                        names = (e.info or {}).get("names") or []
                        tail = names[-1].rsplit("::", 1)[-1] if names else ""
                        arg = e.info.get("arg")
                        if (tail in INDEX_TAILS or tail in ("get", "take", "skip", "nth", "step_by", "chunks")) and arg == 1 and tail in INDEX_TAILS:
                            n += 1
                            bad += 1
                            res.bad("R1.ii", "%s|%s|%s" % (b.owner.rsplit("::", 1)[-1], tail, lab), "a received integer of %r is used as index/bound in `%s`" % (lab, tail), where(b, e.block))
                        if tail in ALLOC_TAILS:
                            n += 1
                            bad += 1
                            res.bad("R1.alloc", "%s|%s|%s" % (b.owner.rsplit("::", 1)[-1], tail, lab), "allocation size `%s` depends on an integer received in %r (memory out of proportion to the bytes received)" % (tail, lab), where(b, e.block))
            # BoundsCheck / division asserts
            locs = {x[1] for x in fwd}
            for bi, blk in enumerate(b.blocks):
                t = blk["t"]
                if t["k"] == "assert" and t["mk"] in ("BoundsCheck", "DivisionByZero", "RemainderByZero"):
                    for o in t["mops"][-1:]:
                        if o["k"] != "const" and o["p"]["l"] in locs:
                            bad += 1
                            res.bad("R1.ii", "%s|%s|%s" % (b.owner.rsplit("::", 1)[-1], t["mk"], lab), "a received integer of %r reaches a %s assertion" % (lab, t["mk"]), where(b, bi))
    if not bad:
        res.ok("R1.ii", "all-receives", "", "no received integer reaches an index, slice bound, divisor or allocation size")


# R1.iv: sinks on own containers that only run when a peer-chosen optional slot is present.
# Reviewed instances (function, container variable): why the index is in range for every message.
R1IV_TABLE = {
    # (function, container type) -> (reviewed number of sites, why the index is in range for every message)
    ("input_processing", "Vec<Option<Vec<Label>>>"): (1, "evaluator fan-in: `input_labels[w]` with w < max_reg_count from enumerate over a vector of validated length max_reg_count; container is vec![None; max_reg_count]"),
    ("input_processing", "Vec<Label>"): (1, "evaluator fan-in: `labels[p]` with p the sender index (< p_max) into vec![Label(0); p_max]"),
    ("output", "Vec<Option<bool>>"): (1, "`output_wires[out]` with out from circ.output_regs (< max_reg_count by Circuit::validate P2) into vec![None; max_reg_count]"),
    ("flaand", "Vec<Share>"): (2, "`zshares[ll].1.0[j]` with ll < l (own length, checked against xshares/yshares/rshares) and j < n into vec![..; n]"),
    ("evaluate", "Vec<Label>"): (1, "`label[p_i]` with p_i from (0..p_max).filter(..) into vec![Label(0); p_max]; runs when the decrypted MAC vector has an entry for p_i"),
    ("evaluate", "Vec<Vec<Mac>>"): (1, "`macs[p]` same index as label[p] into vec![vec![]; p_max]"),
    ("check_dvalue", "Vec<Vec<(&Share, &Share, &Share)>>"): (1, "`buckets[j][m + 1]`: m bounded by the fail-closed length test d_macs_p.len() == dval.len() == bucket.len() - 1"),
    ("beaver_aand", "Vec<(bool, bool, Mac, Mac)>"): (1, "`de_shares[j]` with j from enumerate over a vector of validated length l == de_shares.len()"),
}


def rule_peer_controlled_panics(S, res):
    """R1.v: no panic (assert!/panic!/unreachable!/expect on own data) whose execution is decided by a
    condition on a message component - including its length - e.g. `assert_eq!(a.len(), b.len())`
    in a helper that is handed a vector of the message."""
    fg = S.fg
    cl = mpc_closure(S)
    all_comp = set()
    for d in S.comp.values():
        all_comp |= set(d.keys())
    n = 0
    bad = 0
    bodies = {n_[0] for n_ in all_comp if n_[0] != "F"}
    for bk in sorted(bodies):
        if bk not in cl and fg.bodies[bk].owner not in {fg.bodies[k].owner for k in cl}:
            continue
        b = fg.bodies[bk]
        panics = []
        for bi, t in b.calls():
            names = callee_names(t)
            if not names or bi not in b.live_blocks():
                continue
            if names[0].startswith("core::panicking::") or names[0].startswith("std::rt::begin_panic") or names[0].endswith("::unwrap_failed") or names[0].endswith("::expect_failed"):
                sp = t["sp"]
                if any(m in sp for m in ("m:debug", "m:trace", "m:instrument", "m:info")):
                    continue
                panics.append(bi)
        if not panics:
            continue
        cd = control_deps(b)
        for pb in panics:
            n += 1
            # transitive controlling switches
            ctrl = set()
            frontier = {pb}
            while frontier:
                nxt = set()
                for x in frontier:
                    for (sw, _s) in cd.get(x, ()):
                        if sw not in ctrl:
                            ctrl.add(sw)
                            nxt.add(sw)
                frontier = nxt
            for sw in sorted(ctrl):
                t = b.blocks[sw]["t"]
                if t["k"] != "switch" or t["o"]["k"] == "const":
                    continue
                back = fg.backward(fg.operand_nodes(bk, t["o"]), node_ok=lambda x: x[0] == bk, local=True,
                                   edge_ok=lambda e: e.kind in ("copy", "ref", "base2field", "field2whole", "agg", "bin", "un", "cast", "shape", "discr", "lcall") or (e.kind == "call" and secmod.struct_edge(e)) or (e.kind == "call" and (e.info or {}).get("names") and e.info["names"][-1].rsplit("::", 1)[-1] in ("len", "is_empty", "eq", "ne")))
                hit = [x for x in back if x in all_comp]
                if hit:
                    labs = sorted({l for x in hit for l in S.labels_of(x)})
                    bad += 1
                    res.bad("R1.v", "%s|panic|%s" % (b.owner.rsplit("::", 1)[-1], "/".join(labs[:2])),
                            "a panic (assert / panic! / unreachable) is reached depending on a condition on data of message %s (value or length): a malformed message aborts the process instead of returning Err" % labs[:3],
                            where(b, pb), key="R1.v|%s|%s" % (b.owner.rsplit("::", 1)[-1], "/".join(labs[:2])))
                    break
    res.count("panic_sites_in_component_bodies", n)
    if not bad:
        res.ok("R1.v", "engine", "", "%d panic sites in functions that handle message components: none is controlled by a condition on a component" % n)


LEN_ADAPTERS = ("Filter<", "FilterMap<", "Flatten<", "FlatMap<", "TakeWhile<", "SkipWhile<", "MapWhile<")


def rule_peer_sized_containers(S, res):
    """R1.vi: a vector whose *length* is decided by message contents (collected through filter /
    filter_map / flatten / take_while .. whose closure looks at a component, or pushed to under a
    switch on a component) is never indexed - in any function it is passed to - unless a fail-closed
    test of its length dominates the index."""
    import r8
    fg = S.fg
    cl = mpc_closure(S)
    all_comp = set()
    for d in S.comp.values():
        all_comp |= set(d.keys())
    val = lambda e: e.kind in ("copy", "ref", "base2field", "field2whole", "upvar", "cast", "un", "bin", "discr", "agg", "closarg", "index") or (e.kind == "call" and secmod.struct_edge(e))
    sources = []
    n_adapt = 0
    msg_types = [validated_types(s_)[1] or "" for s_ in S.recv_sites] + ["(bool, alloc::vec::Vec<polytune::mpc::data_types::Mac>, polytune::mpc::data_types::Label)"]
    for bk in sorted(cl):
        b = fg.bodies[bk]
        cd = None
        for bi, t in b.calls():
            names = callee_names(t)
            if not names or bi not in b.live_blocks() or not t["args"] or t["args"][0]["k"] == "const":
                continue
            tail = names[-1].rsplit("::", 1)[-1]
            if tail in ("collect", "from_iter", "extend", "unzip"):
                ity = t["args"][-1]["p"]["ty"] if t["args"][-1]["k"] != "const" else ""
                if not any(a in ity for a in LEN_ADAPTERS):
                    continue
                n_adapt += 1
                dep = False
                for d in r8.closure_defs_in_type(ity):
                    for ck in fg.by_id.get(d, []):
                        back = fg.backward([(ck, 0, None), (ck, 0, "*")], node_ok=lambda x: x[0] != "F", edge_ok=val)
                        if any(x in all_comp for x in back):
                            dep = True
                # flatten over a component of options: the element type itself is a component
                it_back = fg.backward(fg.operand_nodes(bk, t["args"][-1]), node_ok=lambda x: x[0] == bk, edge_ok=secmod.struct_edge)
                if any(a in ity for a in ("Flatten<", "FlatMap<")) and any(x in all_comp for x in it_back):
                    dep = True
                if dep:
                    seed = fg.node_of_place(bk, t["d"]) if tail != "extend" else fg.operand_nodes(bk, t["args"][0])[0]
                    sources.append((bk, bi, seed, "collected through %s" % [a.rstrip("<") for a in LEN_ADAPTERS if a in ity][0]))
            elif tail in ("push", "insert", "push_back", "extend_from_slice") and (names[-1].startswith("alloc::vec::Vec") or names[-1].startswith("alloc::collections")):
                if cd is None:
                    cd = control_deps(b)
                # switches deciding whether this push runs; not continued through abort checks (`?`,
                # early Err returns) or await points, which decide whether the function goes on at all
                def passable(sw):
                    tt = b.blocks[sw]["t"]
                    if tt["k"] != "switch" or tt["o"]["k"] == "const":
                        return False
                    tm = {x for x in [tb for _v, tb in tt["ts"]] + [tt["else"]] if b.blocks[x]["t"]["k"] != "unreachable"}
                    if any(edge_fail_closed(b, sw, x)[0] for x in tm):
                        return False
                    if any(b.blocks[x]["t"]["k"] in ("yield", "return", "coroutine_drop") for x in tm):
                        return False
                    return True
                ctrl = set()
                frontier = {bi}
                while frontier:
                    nxt = set()
                    for x in frontier:
                        for (sw, _s) in cd.get(x, ()):
                            if sw not in ctrl and passable(sw):
                                ctrl.add(sw)
                                nxt.add(sw)
                    frontier = nxt
                # only tests between the creation of the vector and the push decide its length
                rl = root_local(b, t["args"][0])
                up = fg.backward(fg.operand_nodes(bk, t["args"][0]), node_ok=lambda x: x[0] == bk, edge_ok=lambda e: e.kind in ("ref", "copy"))
                roots = {x[1] for x in up} | {rl}
                allocs = [ab for ab, at in b.calls() if at["d"]["l"] in roots and not at["d"]["pr"] and callee_names(at) and callee_names(at)[-1].rsplit("::", 1)[-1] in ("new", "with_capacity", "from_elem", "default")]
                for sw in sorted(ctrl):
                    if len(allocs) == 1 and not b.dominates(allocs[0], sw):
                        continue
                    tt = b.blocks[sw]["t"]
                    back = fg.backward(fg.operand_nodes(bk, tt["o"]), node_ok=lambda x: x[0] == bk, edge_ok=lambda e: e.kind in ("copy", "ref", "base2field", "field2whole", "discr", "un", "bin", "cast"))
                    if any(x in all_comp and any(norm_ty(S.node_ty(x)) in tt_ for tt_ in msg_types) for x in back):
                        # the exit test of `for x in comp` (discriminant of next()) is bounded by the
                        # component's own (validated or guarded, R1.i) length
                        is_next = any(e.kind == "call" and (e.info or {}).get("names") and e.info["names"][-1].rsplit("::", 1)[-1] in ("next", "poll") for x in back for e in fg.inn.get(x, ()))
                        if is_next:
                            continue
                        sources.append((bk, bi, fg.operand_nodes(bk, t["args"][0])[0], "pushed to under a test of a message component"))
                        break
    bad = 0
    n_sinks = 0
    for (bk, bi, seed, how) in sources:
        b = fg.bodies[bk]
        start = [seed]
        if seed[2] is None:
            start.append((seed[0], seed[1], "*"))
        # the vector itself and the places it is moved / stored / passed to
        root = fg.backward(start, node_ok=lambda x: x[0] == bk, edge_ok=lambda e: e.kind in ("ref",)) if how.startswith("pushed") else {}
        # type-directed: the vector travels inside values whose type mentions its own type
        vty = norm_ty(S.node_ty(seed))
        carries = lambda x: x[0] != "F" and (lambda ty_: vty in ty_ or "{coroutine" in ty_ or "opaque<" in ty_)((S.node_ty(x) + " " + fg.bodies[x[0]].locals[x[1]]["ty"]).replace(", alloc::alloc::Global", ""))
        fwd = fg.forward(list(start) + list(root), node_ok=carries, edge_ok=lambda e: secmod.struct_edge(e) or e.kind in ("alias", "mutarg", "mutarg2", "alias_fb"), local=True, deep=True)
        by_body = defaultdict(set)
        for x in fwd:
            by_body[x[0]].add(x[1])
        hit = None
        for kk, ls in by_body.items():
            bb = fg.bodies[kk]
            guards = None
            for bj, t2 in bb.calls():
                nm = callee_names(t2)
                tl = nm[-1].rsplit("::", 1)[-1] if nm else ""
                if tl in INDEX_TAILS and t2["args"] and t2["args"][0]["k"] != "const" and root_local(bb, t2["args"][0]) in ls:
                    aty = norm_ty(t2["args"][0]["p"]["ty"])
                    if aty != vty:
                        continue
                    n_sinks += 1
                    if guards is None:
                        guards = length_guards(S, kk, bb)
                    rl = root_local(bb, t2["args"][0])
                    if any(gl == rl and any(bb.edge_dominates(s_, d_, bj) for (s_, d_) in good) for (gl, good, ex, c) in guards):
                        continue
                    hit = hit or (bb, bj, tl)
        if hit:
            bad += 1
            hb, hj, tl = hit
            res.bad("R1.vi", "%s|peer-sized|%s" % (b.owner.rsplit("::", 1)[-1], hb.owner.rsplit("::", 1)[-1]),
                    "a vector %s (its length is decided by what the peers sent; built at %s) reaches `%s` without a fail-closed length test: a crafted message panics the party" % (how, where(b, bi), tl),
                    where(hb, hj), key="R1.vi|%s|%s" % (b.owner.rsplit("::", 1)[-1], hb.owner.rsplit("::", 1)[-1]))
    res.count("length_changing_collects", n_adapt)
    res.count("peer_sized_containers", len(sources))
    if not bad:
        res.ok("R1.vi", "engine", "", "%d vectors whose length depends on message contents; none reaches an unguarded index (%d index sites on them)" % (len(sources), n_sinks))


def _fsources(fg, bk, operand, fam):
    """Field-based sources (Context / Circuit fields) an integer operand is a plain copy of."""
    if operand["k"] == "const":
        return {("lit", operand.get("v"))}
    back = fg.backward(fg.operand_nodes(bk, operand), node_ok=lambda n: n[0] == "F" or fg.bodies[n[0]].owner == fam,
                       edge_ok=lambda e: e.kind in ("copy", "ref", "base2field", "upvar", "cast", "field2whole"))
    return {n for n in back if n[0] == "F"}


def provably_in_range(S, bk, b, t):
    """Small symbolic-length argument for `container[idx]`:
       len(container) = N  where the container is allocated by vec![_; N] (type-matched alloc site)
       idx < M             where idx is the counter of enumerate() over a vector received with
                           validated length M, or an element of a range 0..M
       and N, M are plain copies of the same Context/Circuit field."""
    fg = S.fg
    fam = b.owner
    cont, idx = t["args"][0], t["args"][1]
    if cont["k"] == "const" or idx["k"] == "const":
        return None
    cty = norm_ty(cont["p"]["ty"])
    same_fam = lambda n: n[0] != "F" and fg.bodies[n[0]].owner == fam
    cback = fg.backward(fg.operand_nodes(bk, cont), node_ok=same_fam, edge_ok=lambda e: secmod.struct_edge(e) or e.kind == "alias", local=True)
    allocs = []
    by_body = defaultdict(set)
    for n in cback:
        by_body[n[0]].add(n[1])
    for kk, ls in by_body.items():
        bb = fg.bodies[kk]
        for bi, ct in bb.calls():
            if ct["d"]["l"] in ls and any(x.endswith("vec::from_elem") for x in callee_names(ct)):
                if norm_ty(ct["d"].get("ty", "")) == cty:
                    allocs.append((kk, ct))
    if len(allocs) != 1:
        return None
    n_src = _fsources(fg, allocs[0][0], allocs[0][1]["args"][1], fam)
    iback = fg.backward(fg.operand_nodes(bk, idx), node_ok=same_fam, edge_ok=lambda e: secmod.struct_edge(e), local=False)
    by_body = defaultdict(set)
    for n in iback:
        by_body[n[0]].add(n[1])
    bounds = []
    for kk, ls in by_body.items():
        bb = fg.bodies[kk]
        for bi, blk in enumerate(bb.blocks):
            for st in blk["s"]:
                if st["k"] == "assign" and st["p"]["l"] in ls and st["r"]["k"] == "agg" and st["r"].get("adt", "").startswith("core::ops::range::Range") and len(st["r"]["ops"]) == 2:
                    bounds.append(_fsources(fg, kk, st["r"]["ops"][1], fam))
        for s_ in S.recv_sites:
            if s_.bk == kk and s_.term["d"]["l"] in ls and s_.kind == "recv_vec":
                bounds.append(_fsources(fg, kk, s_.term["args"][3], fam))
    bounds = [x for x in bounds if x]
    if len(bounds) != 1:
        return None
    if n_src and n_src == bounds[0] and len(n_src) == 1 and list(n_src)[0][0] == "F":
        f = list(n_src)[0]
        return "%s.%s" % (f[1].rsplit("::", 1)[-1], f[2])
    return None


def rule_peer_controlled_sinks(S, res):
    """R1.iv: index sinks on own data whose execution depends on a peer-chosen Some/None."""
    fg = S.fg
    cl = mpc_closure(S)
    all_comp = set()
    for d in S.comp.values():
        all_comp |= set(d.keys())
    # own containers that message parts are stored into through `&mut` (e.g. the merged masked
    # inputs): their Some/None pattern is chosen by the peers as well
    def ext_edge(e):
        if e.src[0] == "F" or e.dst[0] == "F":
            return False
        if fg.bodies[e.src[0]].owner != fg.bodies[e.dst[0]].owner:
            return False
        if e.kind == "alias_fb":
            return True
        if e.kind == "alias":
            return True
        return secmod.struct_edge(e)
    ext = set(fg.forward(list(all_comp), edge_ok=ext_edge, local=True, deep=True).keys())
    strict_comp = all_comp
    all_comp = ext
    proven = []
    msg_types = [validated_types(s_)[1] or "" for s_ in S.recv_sites] + ["(bool, alloc::vec::Vec<polytune::mpc::data_types::Mac>, polytune::mpc::data_types::Label)"]
    found = {}
    for bk in cl:
        b = fg.bodies[bk]
        comp_here = [n for n in all_comp if n[0] == bk]
        if not comp_here:
            continue
        cd = control_deps(b)
        # switches on the discriminant of a message component (peer decides the arm)
        peer_sw = set()
        for bi, blk in enumerate(b.blocks):
            t = blk["t"]
            if t["k"] != "switch" or t["o"]["k"] == "const":
                continue
            for s in blk["s"]:
                if s["k"] == "assign" and s["r"]["k"] == "discr" and s["p"]["l"] == t["o"]["p"]["l"]:
                    nodes = fg.read_nodes(bk, s["r"]["p"])
                    oty = norm_ty(s["r"]["p"].get("ty", ""))
                    # an optional slot *of the message* (its type occurs in a received element type),
                    # not the Option produced by iterating / looking up
                    if any(x in all_comp for x in nodes) and oty.startswith("core::option::Option<") and any(oty in tt for tt in msg_types):
                        # abort checks (None => Err) are not "peer decides whether code runs"
                        tm = {v: tb for v, tb in t["ts"]}
                        targets = {x for x in set(tm.values()) | {t["else"]} if b.blocks[x]["t"]["k"] != "unreachable"}
                        if not any(edge_fail_closed(b, bi, x)[0] for x in targets):
                            peer_sw.add(bi)
        if not peer_sw:
            continue
        for bi, t in b.calls():
            names = callee_names(t)
            tail = names[-1].rsplit("::", 1)[-1] if names else ""
            if tail not in ("index", "index_mut"):
                continue
            if not any(sw in peer_sw for (sw, _s) in cd.get(bi, ())):
                continue
            # container must be own data (not a component: that is R1.i)
            cn = fg.operand_nodes(bk, t["args"][0])
            back = fg.backward(cn, node_ok=lambda x: x[0] == bk, edge_ok=secmod.struct_edge)
            rl = root_local(b, t["args"][0])
            var = b.locals[rl]["name"] if rl is not None and b.locals[rl]["name"] else "?"
            # (an own container that merely holds message parts - allocated here with vec![..; n] - stays in scope)
            bl = {x[1] for x in back if x[0] == bk}
            own_alloc = any(ct["d"]["l"] in bl and any(x.endswith("vec::from_elem") for x in callee_names(ct)) for _cbi, ct in b.calls())
            if any(x in strict_comp for x in back) and not own_alloc:
                continue
            fn = b.owner.rsplit("::", 1)[-1]
            cty = norm_ty(t["args"][0]["p"]["ty"]) if t["args"][0]["k"] != "const" else "?"
            short = cty.replace("alloc::vec::", "").replace("core::option::", "").replace("polytune::mpc::data_types::", "")
            proof = provably_in_range(S, bk, b, t)
            if proof:
                proven.append((fn, short, b, bi, proof))
                continue
            found.setdefault((fn, short), []).append((b, bi, var))
        # built-in slice / array indexing: Assert(BoundsCheck)
        for bi, blk in enumerate(b.blocks):
            t = blk["t"]
            if t["k"] != "assert" or t["mk"] != "BoundsCheck" or bi not in b.live_blocks():
                continue
            if not any(sw in peer_sw for (sw, _s) in cd.get(bi, ())):
                continue
            idx = t["mops"][1]
            var, cty = "?", "?"
            if idx["k"] != "const":
                il = idx["p"]["l"]
                for s2 in b.blocks[t["t"]]["s"]:
                    if s2["k"] != "assign":
                        continue
                    pl = None
                    r2_ = s2["r"]
                    if r2_["k"] == "use" and r2_["o"]["k"] != "const":
                        pl = r2_["o"]["p"]
                    elif r2_["k"] in ("ref", "rawptr"):
                        pl = r2_["p"]
                    for cand in (pl, s2["p"]):
                        if cand and any(isinstance(e_, dict) and e_.get("i") == il for e_ in cand["pr"]):
                            names_ = [e_["n"] for e_ in cand["pr"] if isinstance(e_, dict) and e_.get("n")]
                            var = (names_[-1] if names_ else (b.locals[cand["l"]]["name"] or "?")).replace("_ref__", "")
                            cty = cand.get("ty", "?")
            fn = b.owner.rsplit("::", 1)[-1]
            short = norm_ty(cty).replace("alloc::vec::", "").replace("core::option::", "").replace("polytune::mpc::data_types::", "")
            found.setdefault((fn, "[%s]" % short), []).append((b, bi, var))
    for (fn, short, b, bi, proof) in proven:
        res.ok("R1.iv", "%s|%s[]@%s" % (fn, short, where(b, bi).rsplit(":", 1)[-1]), where(b, bi), "index in range: container is vec![_; n] and the index is bounded by the same n = %s" % proof)
    for (fn, cty), sites in sorted(found.items(), key=lambda kv: kv[0]):
        b, bi, var = sites[0]
        ent = R1IV_TABLE.get((fn, cty))
        if ent and len(sites) <= ent[0]:
            res.ok("R1.iv", "%s|%s[]" % (fn, cty), where(b, bi), "reviewed (%d site(s), variable `%s`): %s" % (len(sites), var, ent[1]))
        elif ent:
            b2, bi2, var2 = sites[-1]
            res.bad("R1.iv", "%s|%s[]" % (fn, cty), "%d index sites into own data of type %s only run when a peer chose to fill an optional slot, %d were reviewed" % (len(sites), cty, ent[0]), where(b2, bi2))
        else:
            res.bad("R1.iv", "%s|%s[]" % (fn, cty), "an index into own data `%s[..]` (%s) only runs when a peer chose to fill an optional slot; the site is not in the reviewed table (an honest peer's message shape may be what keeps the index in range)" % (var, cty), where(b, bi))
    res.count("peer_controlled_index_sites", sum(len(v) for v in found.values()) + len(proven))


ERR_TYPES = ("polytune::channel::Error", "polytune::mpc::faand::Error", "polytune::mpc::protocol::Error", "polytune::mpc::garble::Error",
             "polytune::mpc::protocol::MpcError", "bincode::error::", "std::io::error::Error")
DROP_TAILS = {"ok", "unwrap_or", "unwrap_or_default", "unwrap_or_else", "is_ok", "is_err", "err", "drop", "is_ok_and"}
KEEP_TAILS = {"branch", "from_residual", "map_err", "map", "and_then", "or_else", "transpose", "collect", "from_iter", "push", "ok_or", "into", "poll",
              "into_future", "try_join", "try_join_all", "new_unchecked", "from"}


def rule_err_not_dropped(S, res):
    """R-ERR: no error of the channel / preprocessing / protocol layers is discarded."""
    fg = S.fg
    cl = mpc_closure(S)
    n = 0
    bad = 0
    for bk in cl:
        b = fg.bodies[bk]
        if "file_or_mem_buf" in b.owner and "Drop" in b.owner:
            continue
        for li, loc in enumerate(b.locals):
            ty = loc["ty"]
            if not ty.startswith("core::result::Result<"):
                continue
            if not any(e in ty.rsplit(",", 1)[-1] or e in ty for e in ERR_TYPES):
                continue
            # definitions from calls / poll results only (skip pure moves: they are followed forward)
            ds = defs_of(b, li)
            if not ds:
                continue
            src_call = any(si == "t" for (bi, si, r) in ds) or any(si != "t" and r["k"] == "use" and r["o"]["k"] != "const" and r["o"]["p"]["pr"] for (bi, si, r) in ds)
            if not src_call:
                continue
            if any("m:instrument" in (b.blocks[bi]["t"].get("sp", "") if si == "t" else b.blocks[bi]["s"][si]["sp"]) for (bi, si, r) in ds):
                continue
            n += 1
            node = (bk, li, None)
            fwd = fg.forward([node], node_ok=lambda x: x[0] == bk, edge_ok=lambda e: e.kind in ("copy", "ref", "base2field", "field2whole", "agg") or (e.kind == "call" and (e.info or {}).get("names") and e.info["names"][-1].rsplit("::", 1)[-1] in KEEP_TAILS) or e.kind in ("ret", "future", "lcall"), local=True)
            consumed = False
            dropped = None
            for x in fwd:
                if x[1] == 0:
                    consumed = True
                for e in fg.out.get(x, ()):
                    if e.body != bk:
                        if e.kind in ("callarg", "upvar", "closarg"):
                            consumed = True
                        continue
                    if e.kind == "discr":
                        consumed = True
                    if e.kind in ("call", "lcall"):
                        names = (e.info or {}).get("names") or []
                        tail = names[-1].rsplit("::", 1)[-1] if names else ""
                        spx = b.blocks[e.block]["t"].get("sp", "") if e.block is not None else ""
                        if "try_join" in spx or "m:$crate::join" in spx or "m:select" in spx:
                            consumed = True
                            continue
                        if tail in DROP_TAILS:
                            dropped = (tail, e.block)
                        elif tail in KEEP_TAILS or e.kind == "lcall":
                            consumed = True
                        else:
                            consumed = True
            fn = b.owner.rsplit("::", 1)[-1]
            if dropped and not consumed:
                bad += 1
                res.bad("R-ERR", "%s|%s" % (fn, dropped[0]), "an error result is discarded with `.%s()`: a failed channel/protocol step would go unnoticed" % dropped[0], where(b, dropped[1]))
            elif dropped and dropped[0] in ("ok", "unwrap_or", "unwrap_or_default", "unwrap_or_else", "is_ok", "err"):
                bad += 1
                res.bad("R-ERR", "%s|%s" % (fn, dropped[0]), "an error result is discarded with `.%s()`" % dropped[0], where(b, dropped[1]))
            elif not consumed:
                bad += 1
                w = ds[0]
                res.bad("R-ERR", "%s|unused" % fn, "a Result of the channel/protocol layer is never inspected (`let _ = ..`)", where(b, w[0], w[1]))
    res.floor("result_values_tracked", n, 30)
    if not bad:
        res.ok("R-ERR", "engine", "", "%d Result values of the channel / preprocessing / protocol error types: all propagated with `?`, matched, or returned" % n)


def rule_wait_only_on_channel(S, res):
    """Every await in the engine polls engine futures or joins of them; no std MutexGuard is held
    across an await."""
    fg = S.fg
    cl = mpc_closure(S)
    n = 0
    bad = 0
    for bk in cl:
        b = fg.bodies[bk]
        if not b.is_coroutine:
            continue
        for bi, t in b.calls():
            if not any(x.endswith("Future::poll") for x in callee_names(t)):
                continue
            if "m:instrument" in t["sp"]:
                continue
            n += 1
            a = t["args"][0]
            ty = a["p"]["ty"] if a["k"] != "const" else ""
            ok = ("polytune::" in ty and ("{coroutine:" in ty or "opaque<" in ty)) or "futures_util::future::" in ty or "tracing::instrument::Instrumented" in ty \
                or "impl Future" in ty or "impl core::future::future::Future" in ty or "Channel" in ty
            if "tokio::" in ty or "Notified" in ty or "Sleep" in ty or "std::sync" in ty:
                ok = False
            if not ok:
                bad += 1
                res.bad("R1.wait", "%s|await" % b.owner.rsplit("::", 1)[-1], "the engine awaits a future that is not a channel operation (type %s): it may wait forever once the peers are gone" % ty[:120], where(b, bi))
        # guards across yields
        for li, loc in enumerate(b.locals):
            if "sync::poison::mutex::MutexGuard" in loc["ty"] or "std::sync::mutex::MutexGuard" in loc["ty"] or ("MutexGuard<" in loc["ty"] and "tokio" not in loc["ty"] and not loc["ty"].startswith("&") and not loc["ty"].startswith("core::result") and not loc["ty"].startswith("std::sync::poison")):
                ds = [d for d in defs_of(b, li)]
                if not ds:
                    continue
                drops = {bi for bi, blk in enumerate(b.blocks) if blk["t"]["k"] == "drop" and blk["t"]["p"]["l"] == li and not blk["t"]["p"]["pr"]}
                for (dbi, si, r) in ds:
                    reach = b.reachable_from(dbi, frozenset(drops))
                    ys = [y for y in reach if b.blocks[y]["t"]["k"] == "yield"]
                    if ys:
                        bad += 1
                        res.bad("R1.wait", "%s|guard-across-await" % b.owner.rsplit("::", 1)[-1], "a std::sync::MutexGuard is alive across an .await (other branches of the join block on it)", where(b, ys[0]))
    res.floor("awaits_in_engine", n, 15)
    if not bad:
        res.ok("R1.wait", "engine", "", "%d awaits, all on engine futures / joins; no std MutexGuard alive across a yield" % n)


def rule_raw_bytes(S, res):
    """R1.raw: inside the receive primitives (src/channel.rs) the raw bytes handed over by the user's
    Channel are attacker-chosen, of any length: before decoding they are only passed on (to the
    decoder, to error mapping), never indexed, split, sliced, converted with unwrap/expect."""
    fg = S.fg
    seeds = []
    n_recv = 0
    chan = lambda k: fg.bodies[k].owner.startswith("polytune::channel::") and "SimpleChannel" not in fg.bodies[k].owner
    for k, b in fg.bodies.items():
        if b.krate != "polytune" or not chan(k):
            continue
        for bi, t in b.calls():
            names = callee_names(t)
            if names and names[0].endswith("channel::Channel::recv_bytes_from") and bi in b.live_blocks():
                n_recv += 1
                seeds.append(fg.node_of_place(k, t["d"]))
    flow = fg.forward(seeds, node_ok=lambda x: x[0] != "F" and chan(x[0]), edge_ok=lambda e: secmod.struct_edge(e) or e.kind in ("lcall",), local=True)
    # stop at the decoder: its result is a typed value whose shape the receive rules (R1.i) cover
    n = 0
    bad = 0
    by_body = defaultdict(set)
    for x in flow:
        ty = norm_ty(S.node_ty(x) or fg.bodies[x[0]].locals[x[1]]["ty"])
        if "u8" in ty:
            by_body[x[0]].add(x[1])
    for k, ls in by_body.items():
        b = fg.bodies[k]
        for bi, t in b.calls():
            names = callee_names(t)
            tail = names[-1].rsplit("::", 1)[-1] if names else ""
            if not t["args"] or t["args"][0]["k"] == "const" or root_local(b, t["args"][0]) not in ls or bi not in b.live_blocks():
                continue
            aty = norm_ty(t["args"][0]["p"]["ty"])
            if not (aty.startswith("alloc::vec::Vec<u8") or "[u8" in aty):
                continue
            n += 1
            if tail in INDEX_TAILS or tail in ("split_at_checked", "first_chunk", "split_first_chunk") and False:
                bad += 1
                res.bad("R1.raw", "%s|%s" % (b.owner.rsplit("::", 1)[-1], tail), "`%s` on the raw bytes received from the peer (any length, before decoding): a short message panics the party instead of returning Err" % tail, where(b, bi),
                        key="R1.raw|%s|%s" % (b.owner.rsplit("::", 1)[-1], tail))
        for bi, blk in enumerate(b.blocks):
            t = blk["t"]
            if t["k"] == "assert" and t["mk"] == "BoundsCheck" and bi in b.live_blocks():
                # base local of the indexed place
                for s2 in b.blocks[t["t"]]["s"]:
                    if s2["k"] == "assign":
                        for cand in ([s2["r"]["o"]["p"]] if s2["r"]["k"] == "use" and s2["r"]["o"]["k"] != "const" else []) + ([s2["r"]["p"]] if s2["r"]["k"] in ("ref", "rawptr") else []) + [s2["p"]]:
                            if cand["l"] in ls and any(isinstance(e_, dict) and "i" in e_ for e_ in cand["pr"]):
                                bad += 1
                                res.bad("R1.raw", "%s|[]" % b.owner.rsplit("::", 1)[-1], "the raw bytes received from the peer are indexed before decoding", where(b, bi))
    res.need("R1.raw", "raw_receive_sites", n_recv, 1, "calls of Channel::recv_bytes_from in the receive primitives")
    res.count("uses_of_raw_message_bytes", n)
    if not bad:
        res.ok("R1.raw", "channel", "", "%d uses of the raw message bytes in the receive primitives: passed to the decoder / error mapping only" % n)


def rule_wire_decoding(S, res):
    """R1.serde: the wire types are decoded by serde's derived implementations only.  The derived decoding of a
    `Vec<T>` reserves at most a capped amount and grows with the bytes actually present; a hand-written
    `Deserialize` that asks the decoder for a byte buffer / string (`deserialize_byte_buf`, `deserialize_bytes`,
    `deserialize_string`) makes bincode allocate the length a peer *claims* before any byte of it has arrived."""
    fg = S.fg
    BAD = ("deserialize_byte_buf", "deserialize_bytes", "deserialize_string", "deserialize_str")
    n = 0
    bad = 0
    for k, b in fg.bodies.items():
        if b.krate != "polytune":
            continue
        for bi, t in b.calls():
            names = callee_names(t)
            if not names:
                continue
            tail = names[0].rsplit("::", 1)[-1]
            if "serde" in names[0] and tail.startswith("deserialize"):
                n += 1
                if tail in BAD and bi in b.live_blocks():
                    bad += 1
                    res.bad("R1.serde", "%s|%s" % (b.owner.rsplit("::", 2)[-2] if b.owner.count("::") > 1 else b.owner, tail),
                            "a wire type is decoded with `%s`: the decoder allocates the length prefix a peer sends before the bytes exist (memory out of proportion to the bytes received)" % tail, where(b, bi),
                            key="R1.serde|%s" % tail)
    res.count("serde_deserializer_calls_in_engine", n)
    if not bad:
        res.ok("R1.serde", "wire-types", "", "no hand-written byte-buffer / string decoding of wire types (%d deserializer calls, all from derives)" % n)
