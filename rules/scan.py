"""Runs the fact extractor over /repo's current working tree (cargo +nightly check with the
polyscan driver as RUSTC_WORKSPACE_WRAPPER) and returns the directory holding the fact files."""
import os, subprocess, shutil, fcntl, sys, time, glob

VERIF = os.path.dirname(os.path.dirname(os.path.abspath(__file__)))
REPO = os.environ.get("POLYSCAN_REPO", "/repo")
DRIVER = os.path.join(VERIF, "driver", "target", "release", "polyscan-driver")
TARGET = os.path.join(VERIF, ".cache", "target")

QUICK_PKGS = ["polytune", "polytune-server-core", "polytune-http-server"]
MEMBER_PREFIXES = ["polytune"]


class MachineryFailure(Exception):
    pass


def sysroot():
    return subprocess.check_output(["rustc", "+nightly", "--print", "sysroot"], text=True).strip()


def ensure_driver():
    if not os.path.exists(DRIVER):
        r = subprocess.run(["cargo", "build", "--release", "--offline"], cwd=os.path.join(VERIF, "driver"),
                           stdout=subprocess.PIPE, stderr=subprocess.STDOUT, text=True)
        if r.returncode != 0 or not os.path.exists(DRIVER):
            raise MachineryFailure("cannot build driver:\n" + r.stdout[-3000:])


def scan(tier="quick", extra_features=None):
    ensure_driver()
    work = os.path.join(VERIF, ".work", "%d_%d" % (os.getpid(), int(time.time() * 1000) % 100000))
    facts = os.path.join(work, "facts")
    os.makedirs(facts, exist_ok=True)
    os.makedirs(TARGET, exist_ok=True)
    env = dict(os.environ)
    env["LD_LIBRARY_PATH"] = sysroot() + "/lib" + (":" + env["LD_LIBRARY_PATH"] if env.get("LD_LIBRARY_PATH") else "")
    env["CARGO_INCREMENTAL"] = "0"
    env["RUSTFLAGS"] = "-Zmir-opt-level=0 -Awarnings"
    env["RUSTC_WORKSPACE_WRAPPER"] = DRIVER
    env["POLYSCAN_OUT"] = facts
    env["CARGO_TARGET_DIR"] = TARGET
    env["CARGO_NET_OFFLINE"] = "true"
    cmd = ["cargo", "+nightly", "check", "--offline"]
    if tier == "thorough":
        cmd += ["--workspace"]
    else:
        for p in QUICK_PKGS:
            cmd += ["-p", p]
    if extra_features:
        cmd += ["--features", extra_features]
    lockf = open(os.path.join(VERIF, ".cache", "scan.lock"), "w")
    fcntl.flock(lockf, fcntl.LOCK_EX)
    try:
        # cargo's freshness cache would skip the wrapper: forget the workspace members
        for d in glob.glob(os.path.join(TARGET, "debug", ".fingerprint", "polytune*")):
            shutil.rmtree(d, ignore_errors=True)
        r = subprocess.run(cmd, cwd=REPO, env=env, stdout=subprocess.PIPE, stderr=subprocess.STDOUT, text=True)
    finally:
        fcntl.flock(lockf, fcntl.LOCK_UN)
        lockf.close()
    if r.returncode != 0:
        raise MachineryFailure("analysis build of /repo failed (does the tree compile?):\n" + r.stdout[-4000:])
    got = sorted(f.split(".")[0] for f in os.listdir(facts) if f.endswith(".json"))
    need = ["polytune", "polytune_server_core", "polytune_http_server"]
    for n in need:
        if n not in got:
            raise MachineryFailure("no fact file for crate %s (wrapper skipped?) got=%s" % (n, got))
    return work, facts


def cleanup(work):
    shutil.rmtree(work, ignore_errors=True)
