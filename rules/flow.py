"""Value-flow graph over MIR locals (depth-1 field sensitive), intra- and inter-body.

Nodes:  (body_key, local, field)  with field = None for the whole local ("base") or the index of
        the first Field projection (after skipping derefs/downcasts).
Edges:  src -> dst with a dict of attributes:
          kind: copy | ref | bin | un | cast | discr | agg | call | callarg | ret | upvar | mutarg
                | index | shape | base2field | future
          plus site information (body, block, stmt index) and, for calls, the callee names.

The graph is an over-approximation of "value of dst may depend on value of src".  Rule modules run
reachability with an edge filter that encodes their sanitizers (hashes, shape-only calls, ...).
"""
from collections import defaultdict
from mir import callee, callee_names

MUT_PLUMBING = {"iter_mut", "index_mut", "get_mut", "deref_mut", "as_mut", "zip", "enumerate", "next", "by_ref", "into_iter",
                "skip", "take", "chunks_mut", "as_mut_slice", "borrow_mut", "last_mut", "first_mut", "split_at_mut", "rev"}

SHAPE_CALLS = (
    "::len", "::is_empty", "::capacity",
)


def first_field(pr):
    """Index of first field projection, skipping derefs/downcasts/opaque; None if there is none
    or if an index/subslice comes first."""
    for e in pr:
        if e == "*" or e == "opaque" or e == "unbinder":
            continue
        if isinstance(e, dict):
            if "dc" in e:
                continue
            if "f" in e:
                return e["f"]
            return None
    return None


def index_locals(pr):
    return [e["i"] for e in pr if isinstance(e, dict) and "i" in e]


def has_deref(pr):
    return any(e == "*" for e in pr)


class Edge:
    __slots__ = ("src", "dst", "kind", "body", "block", "idx", "info")

    def __init__(self, src, dst, kind, body, block, idx, info=None):
        self.src = src
        self.dst = dst
        self.kind = kind
        self.body = body
        self.block = block
        self.idx = idx
        self.info = info

    def __repr__(self):
        return "Edge(%s -> %s %s @%s bb%s)" % (self.src, self.dst, self.kind, self.body, self.block)


class FlowGraph:
    def __init__(self, prog, bodies=None, primitives=(), cha=True, field_based=()):
        """bodies: iterable of Body to include (default all of prog).
        primitives: set of callee def paths that are *not* descended into (their result is a fresh
        value; rule modules treat them as sources/sinks)."""
        self.prog = prog
        self.bodies = {}
        for key, b in prog.bodies.items():
            if bodies is None or b in bodies:
                self.bodies[key] = b
        self.key_of = {id(b): k for k, b in self.bodies.items()}
        self.by_id = defaultdict(list)  # def path -> body keys (same crate tag preferred)
        for k, b in self.bodies.items():
            self.by_id[b.id].append(k)
        self.primitives = set(primitives)
        self.field_based = set(field_based)
        self.out = defaultdict(list)
        self.inn = defaultdict(list)
        self.fields = defaultdict(set)  # (body,local) -> fields seen
        self.ref_target = {}  # (body, local) -> place dict the local points to (single &-assignment)
        self.field_ty = {}    # (body, local, field) -> type of that field
        self.calls = []  # (body_key, block, term, [callee body keys])
        self.trait_impls = defaultdict(list)  # trait method path -> impl method def paths
        for im in prog.impls:
            if im["trait"]:
                for it in im["items"]:
                    name = it.rsplit("::", 1)[-1]
                    self.trait_impls[im["trait"] + "::" + name].append(it)
        self.cha = cha
        self._build()

    # ---------------------------------------------------------------- helpers
    def fb_node(self, p):
        """Global abstract location for a place that goes through a field of a field-based ADT."""
        if not self.field_based:
            return None
        # `(*(*ctx).circ).input_regs`: the place denotes the innermost field
        out = None
        for e in p["pr"]:
            if isinstance(e, dict) and "f" in e and e.get("a") in self.field_based:
                out = ("F", e["a"], e["n"])
        return out

    def fb_outer(self, p):
        """the field-based fields a nested place passes through on the way to its innermost one"""
        fs = [("F", e["a"], e["n"]) for e in p["pr"] if isinstance(e, dict) and "f" in e and e.get("a") in self.field_based]
        return fs[:-1]

    def node_of_place(self, bk, p, write=False):
        fb = self.fb_node(p)
        if fb is not None:
            return fb
        l = p["l"]
        f = first_field(p["pr"])
        if f is not None:
            self.fields[(bk, l)].add(f)
            self._note_field_ty(bk, l, f, p)
        return (bk, l, f)

    def _note_field_ty(self, bk, l, f, p):
        if (bk, l, f) in self.field_ty:
            return
        for e in p["pr"]:
            if isinstance(e, dict) and "f" in e:
                self.field_ty[(bk, l, f)] = e.get("ty", "")
                return

    def node_type(self, n):
        if n[0] == "F":
            return ""
        if n[2] is not None and n[2] != "*":
            return self.field_ty.get(n, "")
        return self.bodies[n[0]].locals[n[1]]["ty"]

    def read_nodes(self, bk, p):
        """Nodes whose value a read of place p depends on (the place itself + index locals)."""
        fb = self.fb_node(p)
        if fb is not None:
            return [fb] + self.fb_outer(p) + [(bk, il, None) for il in index_locals(p["pr"])]
        l = p["l"]
        f = first_field(p["pr"])
        out = []
        if f is None:
            out.append((bk, l, None))
            # whole read: also every field node (added lazily at finalize via 'whole' marker)
            out.append((bk, l, "*"))
        else:
            self.fields[(bk, l)].add(f)
            self._note_field_ty(bk, l, f, p)
            out.append((bk, l, f))
        for il in index_locals(p["pr"]):
            out.append((bk, il, None))
        return out

    def add(self, src, dst, kind, bk, block, idx, info=None):
        e = Edge(src, dst, kind, bk, block, idx, info)
        self.out[src].append(e)
        self.inn[dst].append(e)

    def operand_reads(self, bk, o):
        if o["k"] in ("copy", "move"):
            return self.read_nodes(bk, o["p"])
        return []

    def resolve_callee_bodies(self, bk, t):
        """Body keys a call terminator may enter."""
        d, fr = callee(t)
        if d is None:
            return []
        names = []
        if fr.get("res"):
            names.append(fr["res"])
        else:
            names.append(d)
            if self.cha and fr.get("trait"):
                # unresolved trait method: class-hierarchy fallback to all local impls
                names.extend(self.trait_impls.get(d, []))
        out = []
        mytag = self.bodies[bk].krate
        for n in names:
            ks = self.by_id.get(n, [])
            # prefer same crate tag when a path exists in lib and bin
            same = [k for k in ks if self.bodies[k].krate == mytag]
            out.extend(same or ks)
        # never descend into primitives (nor into their coroutine bodies via Future::poll)
        out = [k for k in out if self.bodies[k].owner not in self.primitives]
        return out

    # ---------------------------------------------------------------- construction
    def _build(self):
        # pass 1: ref targets
        for bk, b in self.bodies.items():
            cnt = defaultdict(int)
            tgt = {}
            for blk in b.blocks:
                for s in blk["s"]:
                    if s["k"] != "assign":
                        continue
                    p = s["p"]
                    if p["pr"]:
                        continue
                    cnt[p["l"]] += 1
                    r = s["r"]
                    if r["k"] == "ref" or r["k"] == "rawptr":
                        tgt[p["l"]] = r["p"]
                    elif r["k"] == "use" and r["o"]["k"] in ("copy", "move") and not r["o"]["p"]["pr"]:
                        tgt[p["l"]] = ("alias", r["o"]["p"]["l"])
                t = blk["t"]
                if t["k"] == "call" and not t["d"]["pr"]:
                    cnt[t["d"]["l"]] += 1
            for l, v in tgt.items():
                if cnt[l] == 1:
                    self.ref_target[(bk, l)] = v
        # pass 2: edges
        for bk, b in self.bodies.items():
            for bi, blk in enumerate(b.blocks):
                for si, s in enumerate(blk["s"]):
                    if s["k"] == "assign":
                        self._assign(bk, b, bi, si, s)
                t = blk["t"]
                if t["k"] == "call":
                    self._call(bk, b, bi, t)
                elif t["k"] == "yield":
                    # resume arg <- nothing interesting
                    pass
        # pass 3: base -> field, field -> whole ("*") edges
        for (bk, l), fs in self.fields.items():
            for f in fs:
                self.add((bk, l, None), (bk, l, f), "base2field", bk, None, None)
                self.add((bk, l, f), (bk, l, "*"), "field2whole", bk, None, None)
                # opt-in: something stored into a field is held by the whole value
                self.add((bk, l, f), (bk, l, None), "alias_fb", bk, None, None)

    def deref_write_targets(self, bk, p):
        """If place p writes through a reference local (has deref), the referent nodes that are
        also written."""
        out = []
        if not has_deref(p["pr"]):
            return out
        seen = set()
        cur = p["l"]
        while (bk, cur) in self.ref_target and cur not in seen:
            seen.add(cur)
            tg = self.ref_target[(bk, cur)]
            if isinstance(tg, tuple):
                cur = tg[1]
                continue
            out.append(self.node_of_place(bk, tg))
            if has_deref(tg["pr"]):
                cur = tg["l"]
                continue
            break
        return out

    def _assign(self, bk, b, bi, si, s):
        dstp = s["p"]
        dsts = [self.node_of_place(bk, dstp)] + self.deref_write_targets(bk, dstp)
        if has_deref(dstp["pr"]) and dsts[0][2] not in (None, "*"):
            # `(*p).f = v`: the write goes through the reference p; its alias edges (back to the borrowed
            # container) start at the whole-value node of p
            dsts.append((bk, dstp["l"], None))
        r = s["r"]
        k = r["k"]
        srcs = []
        kind = k
        info = None
        if k == "use":
            srcs = self.operand_reads(bk, r["o"])
            kind = "copy"
        elif k in ("ref", "rawptr"):
            srcs = self.read_nodes(bk, r["p"])
            kind = "ref"
        elif k == "bin":
            srcs = self.operand_reads(bk, r["a"]) + self.operand_reads(bk, r["b"])
            kind = "bin"
            info = r["op"]
        elif k == "un":
            srcs = self.operand_reads(bk, r["a"])
            kind = "un"
            info = r["op"]
            if r["op"] == "PtrMetadata":
                kind = "shape"
        elif k == "cast":
            srcs = self.operand_reads(bk, r["o"])
            kind = "cast"
        elif k == "discr":
            srcs = self.read_nodes(bk, r["p"])
            kind = "discr"
        elif k == "repeat":
            srcs = self.operand_reads(bk, r["o"])
            kind = "agg"
        elif k == "agg":
            ak = r["ak"]
            if ak in ("closure", "coroutine", "coroutine_closure"):
                # operands become upvar fields of the child body's _1
                childs = self.by_id.get(r["def"], [])
                mytag = b.krate
                childs = [c for c in childs if self.bodies[c].krate == mytag] or childs
                for ci, o in enumerate(r["ops"]):
                    for sn in self.operand_reads(bk, o):
                        for ck in childs:
                            self.fields[(ck, 1)].add(ci)
                            self.add(sn, (ck, 1, ci), "upvar", bk, bi, si, r["def"])
                            # by-ref captures: writes in the child to its upvar flow back
                            if o["k"] in ("copy", "move") and self._is_mut_ref_operand(bk, b, o):
                                tg = self._referent_nodes(bk, o["p"])
                                for tn in tg:
                                    self.add((ck, 1, ci), tn, "mutarg", bk, bi, si, r["def"])
                # the closure/future value carries the child's result
                for ck in childs:
                    for d in dsts:
                        self.add((ck, 0, None), d, "future", bk, bi, si, r["def"])
                        self.add((ck, 0, "*"), d, "future", bk, bi, si, r["def"])
                return
            # tuple / adt / array: operand i -> field i of a fresh value (dst is a base write);
            # keep field sensitivity when dst is a bare local
            if ak == "adt" and r["adt"] in self.field_based:
                for ci, o in enumerate(r["ops"]):
                    for sn in self.operand_reads(bk, o):
                        self.add(sn, ("F", r["adt"], r["fields"][ci]), "agg", bk, bi, si, ak)
                return
            if not dstp["pr"] and ak in ("tuple", "adt"):
                for ci, o in enumerate(r["ops"]):
                    self.fields[(bk, dstp["l"])].add(ci)
                    for sn in self.operand_reads(bk, o):
                        self.add(sn, (bk, dstp["l"], ci), "agg", bk, bi, si, ak)
                return
            for o in r["ops"]:
                srcs += self.operand_reads(bk, o)
            kind = "agg"
        else:
            return
        for sn in srcs:
            for d in dsts:
                self.add(sn, d, kind, bk, bi, si, info)
        if (k == "ref" and r.get("m") == "mut") or (k == "use" and (dstp.get("ty", "").startswith("&mut ") or "IterMut<" in dstp.get("ty", "") or "<&mut " in dstp.get("ty", ""))):
            # data written through the borrow (or a copy of the `&mut` reference) reaches the
            # borrowed place
            for sn in srcs:
                for d in dsts:
                    self.add(d, sn, "alias", bk, bi, si, None)

    def _is_mut_ref_operand(self, bk, b, o):
        ty = o["p"].get("ty", "")
        return ty.startswith("&mut ")

    def _referent_nodes(self, bk, p):
        """Nodes that a reference-typed place p points to (through single-assignment chains)."""
        out = []
        if p["pr"]:
            return out
        cur = p["l"]
        seen = set()
        while (bk, cur) in self.ref_target and cur not in seen:
            seen.add(cur)
            tg = self.ref_target[(bk, cur)]
            if isinstance(tg, tuple):
                cur = tg[1]
                continue
            out.append(self.node_of_place(bk, tg))
            if has_deref(tg["pr"]):
                cur = tg["l"]
                continue
            break
        return out

    def _call(self, bk, b, bi, t):
        d, fr = callee(t)
        dsts = [self.node_of_place(bk, t["d"])] + self.deref_write_targets(bk, t["d"])
        args = t["args"]
        names = callee_names(t)
        if d is None:
            # indirect call: dst <- all args + fn operand
            for o in args + [t["f"]]:
                for sn in self.operand_reads(bk, o):
                    for dn in dsts:
                        self.add(sn, dn, "call", bk, bi, "t", {"names": [], "arg": None})
            self.calls.append((bk, bi, t, []))
            return
        targets = [] if any(n in self.primitives for n in names) else self.resolve_callee_bodies(bk, t)
        self.calls.append((bk, bi, t, targets))
        shape = any(d.endswith(s) for s in SHAPE_CALLS)
        # closures passed directly as arguments (map/filter/for_each/fold/...):
        # other args -> closure params, closure result -> dst
        clos = []
        for o in args:
            ty = o["p"]["ty"] if o["k"] in ("copy", "move") else o.get("ty", "")
            for pre in ("", "&", "&mut "):
                for tag in ("{closure:", "{coroutine_closure:"):
                    if ty.startswith(pre + tag) and ty.endswith("}"):
                        clos.append(ty[len(pre) + len(tag):-1])
        # also closures in the callee's generic args (e.g. map::<B, F>) are the same types as args
        is_poll = d.endswith("::Future::poll")
        if targets:
            for ck in targets:
                cb = self.bodies[ck]
                env_call = cb.kind == "Closure"  # callee is a closure / coroutine body: _1 is its env
                for ai, o in enumerate(args):
                    if env_call:
                        if ai == 0 or is_poll:
                            # env fields are linked at the aggregate that built the closure
                            continue
                        # Fn*::call(env, (a, b, ..)): the argument tuple feeds every parameter
                        for sn in self.operand_reads(bk, o):
                            for pl in range(2, cb.argc + 1):
                                self.add(sn, (ck, pl, None), "callarg", bk, bi, "t", {"names": names, "arg": ai})
                        continue
                    if ai + 1 > cb.argc:
                        break
                    for sn in self.operand_reads(bk, o):
                        self.add(sn, (ck, ai + 1, None), "callarg", bk, bi, "t", {"names": names, "arg": ai})
                    if o["k"] in ("copy", "move") and o["p"]["ty"].startswith("&mut "):
                        for tn in self._referent_nodes(bk, o["p"]):
                            self.add((ck, ai + 1, None), tn, "mutarg", bk, bi, "t", {"names": names, "arg": ai})
                            self.add((ck, ai + 1, "*"), tn, "mutarg", bk, bi, "t", {"names": names, "arg": ai})
                for dn in dsts:
                    self.add((ck, 0, None), dn, "ret", bk, bi, "t", {"names": names})
                    self.add((ck, 0, "*"), dn, "ret", bk, bi, "t", {"names": names})
            # summary edge for plain (non-closure) local callees: result may depend on the arguments.
            # Only used by body-local slices (kind "lcall"); whole-program queries see the precise
            # callarg/ret edges as well.
            if all(self.bodies[ck].kind != "Closure" for ck in targets):
                for ai, o in enumerate(args):
                    for sn in self.operand_reads(bk, o):
                        for dn in dsts:
                            self.add(sn, dn, "lcall", bk, bi, "t", {"names": names, "arg": ai})
        else:
            prim = any(n in self.primitives for n in names)
            kind = "shape" if shape else ("prim" if prim else "call")
            dty = t["d"].get("ty", "")
            mut_plumb = (not prim) and ("&mut " in dty or "IterMut" in dty or "ChunksMut" in dty) and d.rsplit("::", 1)[-1] in MUT_PLUMBING
            for ai, o in enumerate(args if not prim else []):
                for sn in self.operand_reads(bk, o):
                    for dn in dsts:
                        self.add(sn, dn, kind, bk, bi, "t", {"names": names, "arg": ai})
                        if mut_plumb and o["k"] != "const" and any(m in o["p"]["ty"] for m in ("IterMut<", "&mut ", "ChunksMut<")):
                            self.add(dn, sn, "alias", bk, bi, "t", {"names": names, "arg": ai})
                # unknown referent of a &mut argument: the reference value itself carries the write
                if not prim and o["k"] in ("copy", "move") and o["p"]["ty"].startswith("&mut ") and not self._referent_nodes(bk, o["p"]):
                    for aj, o2 in enumerate(args):
                        if aj == ai:
                            continue
                        for sn in self.operand_reads(bk, o2):
                            for tn in self.operand_reads(bk, o):
                                self.add(sn, tn, "mutarg2", bk, bi, "t", {"names": names, "arg": aj})
                # extern callee may write through &mut args
                if not prim and o["k"] in ("copy", "move") and o["p"]["ty"].startswith("&mut "):
                    for tn in self._referent_nodes(bk, o["p"]):
                        for aj, o2 in enumerate(args):
                            if aj == ai:
                                continue
                            for sn in self.operand_reads(bk, o2):
                                self.add(sn, tn, "mutarg", bk, bi, "t", {"names": names, "arg": aj})
        for cdef in clos:
            cks = self.by_id.get(cdef, [])
            for ck in cks:
                cb = self.bodies[ck]
                for o in args:
                    ty = o["p"]["ty"] if o["k"] in ("copy", "move") else ""
                    if cdef in ty and ty.startswith(("{closure:", "{coroutine_closure:", "&{closure", "&mut {closure", "&mut {coroutine_closure", "&{coroutine_closure")):
                        continue
                    for sn in self.operand_reads(bk, o):
                        for pl in range(2, cb.argc + 1):
                            self.add(sn, (ck, pl, None), "closarg", bk, bi, "t", {"names": names})
                for dn in dsts:
                    self.add((ck, 0, None), dn, "closret", bk, bi, "t", {"names": names})
                    self.add((ck, 0, "*"), dn, "closret", bk, bi, "t", {"names": names})

    # ---------------------------------------------------------------- queries
    OPT_IN = frozenset(["alias", "lcall", "mutarg2"])

    def forward(self, seeds, edge_ok=None, node_ok=None, local=False, deep=False):
        """Forward reachability.  Returns dict node -> predecessor edge (None for seeds).
        local=True also follows the opt-in summary/alias edges meant for body-local slices."""
        seen = {}
        st = []
        for s in seeds:
            if s not in seen:
                seen[s] = None
                st.append(s)
        while st:
            n = st.pop()
            for e in self.out.get(n, ()):
                if e.dst in seen:
                    continue
                if not local and e.kind in self.OPT_IN:
                    continue
                if e.kind == "alias_fb" and not deep:
                    continue
                if edge_ok is not None and not edge_ok(e):
                    continue
                if node_ok is not None and not node_ok(e.dst):
                    continue
                seen[e.dst] = e
                st.append(e.dst)
        return seen

    def backward(self, seeds, edge_ok=None, node_ok=None, local=False):
        seen = {}
        st = []
        for s in seeds:
            if s not in seen:
                seen[s] = None
                st.append(s)
        while st:
            n = st.pop()
            for e in self.inn.get(n, ()):
                if e.src in seen:
                    continue
                if not local and e.kind in self.OPT_IN:
                    continue
                if e.kind == "alias_fb":
                    continue
                if edge_ok is not None and not edge_ok(e):
                    continue
                if node_ok is not None and not node_ok(e.src):
                    continue
                seen[e.src] = e
                st.append(e.src)
        return seen

    def path_to(self, reach, node):
        """Witness chain of edges from a seed to node using a forward() result."""
        out = []
        cur = node
        guard = 0
        while reach.get(cur) is not None and guard < 10000:
            e = reach[cur]
            out.append(e)
            cur = e.src
            guard += 1
        out.reverse()
        return out

    def path_from(self, reach, node):
        """Witness chain for a backward() result (from node towards the seed)."""
        out = []
        cur = node
        guard = 0
        while reach.get(cur) is not None and guard < 10000:
            e = reach[cur]
            out.append(e)
            cur = e.dst
            guard += 1
        return out

    def place_nodes(self, bk, p):
        return self.read_nodes(bk, p)

    def operand_nodes(self, bk, o):
        return self.operand_reads(bk, o)

    def describe_node(self, n):
        if n[0] == "F":
            return "%s.%s" % (n[1], n[2])
        bk, l, f = n
        b = self.bodies[bk]
        nm = b.locals[l]["name"]
        s = "%s::_%d" % (b.id, l)
        if nm:
            s += "{%s}" % nm
        if f is not None:
            s += ".%s" % f
        return s

    def describe_edge(self, e):
        b = self.bodies[e.body]
        where = ""
        if e.block is not None:
            blk = b.blocks[e.block]
            if e.idx == "t":
                where = blk["t"].get("sp", "")
            elif e.idx is not None:
                where = blk["s"][e.idx].get("sp", "")
        return "%s -[%s]-> %s @ %s" % (self.describe_node(e.src), e.kind, self.describe_node(e.dst), where.split("|")[0])
