"""C07 - a party's global key stays secret (structural part)."""
import r2, r6

META = {
    "level": "other",
    "explanation": "Declassification analysis over the whole-program value-flow graph: every def-use path from a Delta-typed value to the "
                   "payload of a send must pass through a hash (blake3, hash128, commit, AesHash), garble::encrypt, the correlated-OT "
                   "sender, or an XOR whose other operand is an own Key/Label-derived value that is not a message component; comparison "
                   "results are not key material. A garbler's fresh zero labels reach a payload only inside AEAD rows or through the "
                   "select operator Label ^ Delta. Plus the claimed-bit rule shared with C04: a bit that arrives with a MAC under the "
                   "own key must be MAC-checked before it selects the opened key sum; a Key/Label pad that is looked up with an index carried in a "
                   "message does not count as a pad (the peer can have it applied to both values of a bit); and (R2.8) the equality tests that "
                   "make a peer-chosen Delta offset of an opened value detectable (LaAND hash, d-values, ..) are per element, never on a value "
                   "folded over the elements of a received vector. The OT sender only hides Delta if its pads are private: the entropy provenance rules of C06 (R6.1: Delta, labels, OT session generators are seeded from private randomness, never from a generator the peer shares) are part of this check. Leakage through combinations of individually "
                   "legitimate messages is value-level and not decided.",
    "assumptions": ["hashes / AEAD / OT sender are one-way for Delta", "whether a pad is unknown to a deviating peer is not analysed beyond 'not a message component'"],
}


def run(ctx, res):
    S = r2.get_sec(ctx)
    cs = r2.enrich(S)
    r6.rule_entropy(S, res)
    r6.rule_delta_declass(S, res)
    r6.rule_label_declass(S, res)
    r2.rule_per_element(S, res, {"pre", "online"}, cs)
    r6.rule_generator_clone(S, res)
    r2.rule_check_before_send(S, res, {"pre", "online"}, cs)
    mine = [c for c in cs if "fashare ver" in c.labels and {"CMP", "DELTA"} <= c.ing]
    opens = [s_ for s_ in S.inv.direct_sites() if "fashare di_bi" in (s_.label or []) and s_.body.owner.endswith("faand::fashare")]
    if not mine:
        res.bad("R2.1", "fashare ver|claimed-bit-mac", "aShare: the XOR of the peers' claimed check bits selects whether d0 or d0^Delta is opened, but the claims' MACs under the own key are never verified: a peer that misreports its bit obtains d0^Delta and, with the MAC it holds, Delta", "src/mpc/faand.rs (fashare, step 3c)")
    elif not opens:
        res.bad("R2.1", "fashare ver|claimed-bit-mac", "cannot locate the `fashare di_bi` opening in fashare")
    else:
        # the check sits in the loop over the RHO check positions: "before" = the opening is reached from
        # the check and the check is never reached from the opening
        before = [c for c in mine if all(c.bk == o.bk and o.block in c.body.reachable_from(c.block) and c.block not in c.body.reachable_from(o.block) for o in opens)]
        if before:
            res.ok("R2.1", "fashare ver|claimed-bit-mac", before[0].where(), "the claimed bits are MAC-checked with the own key and Delta, and that check lies before the opening of d0/d1 (`fashare di_bi`)")
        else:
            res.bad("R2.1", "fashare ver|claimed-bit-mac", "the MAC check of the claimed bits does not precede the opening of d0/d1 (`fashare di_bi`): the value selected by a misreported bit is sent before the claim is verified", mine[0].where())
