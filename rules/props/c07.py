"""C07 - a party's global key stays secret (structural part)."""
import r2, r6

META = {
    "level": "other",
    "explanation": "Declassification analysis over the whole-program value-flow graph: every def-use path from a Delta-typed value to the "
                   "payload of a send must pass through a hash (blake3, hash128, commit, AesHash), garble::encrypt, the correlated-OT "
                   "sender, or an XOR whose other operand is an own Key/Label-derived value that is not a message component; comparison "
                   "results are not key material. A garbler's fresh zero labels reach a payload only inside AEAD rows or through the "
                   "select operator Label ^ Delta. Plus the claimed-bit rule shared with C04: a bit that arrives with a MAC under the "
                   "own key must be MAC-checked before it selects the opened key sum; a Key/Label pad that is looked up with an index carried in a "
                   "message does not count as a pad (the peer can have it applied to both values of a bit); and (R2.8) the equality tests that "
                   "make a peer-chosen Delta offset of an opened value detectable (LaAND hash, d-values, ..) are per element, never on a value "
                   "folded over the elements of a received vector. The OT sender only hides Delta if its pads are private: the entropy provenance rules of C06 (R6.1: Delta, labels, OT session generators are seeded from private randomness, never from a generator the peer shares) are part of this check. Leakage through combinations of individually "
                   "legitimate messages is value-level and not decided.",
    "assumptions": ["hashes / AEAD / OT sender are one-way for Delta", "whether a pad is unknown to a deviating peer is not analysed beyond 'not a message component'"],
}


def run(ctx, res):
    S = r2.get_sec(ctx)
    cs = r2.enrich(S)
    r6.rule_entropy(S, res)
    r6.rule_delta_declass(S, res)
    r6.rule_label_declass(S, res)
    r2.rule_per_element(S, res, {"pre", "online"}, cs)
    r6.rule_generator_clone(S, res)
    r2.rule_check_before_send(S, res, {"pre", "online"}, cs)
    r2.rule_claimed_bit(S, res, cs)
    r6.rule_peer_selected_offset(S, res, cs)
    # one label per wire and garbler: a row key that does not bind both input labels lets the evaluator open a second row
    r2.rule_row_key_binding(S, res)
