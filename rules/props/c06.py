"""C06 - revealed input bits are hidden by a fresh, unbiased, private mask (structural part)."""
import r2, r6

META = {
    "level": "other",
    "explanation": "Provenance and flow rules over rustc MIR: (R6.1) every secret of the engine - Delta, wire labels, the aBit bit string, "
                   "HaAND pads, coin-toss contributions, KOS padding, base-OT scalars, OT session generators - is built from private "
                   "entropy (rand::random / Scalar::random / AesRng::new), no Delta/Label is built from a constant except vec![..] "
                   "placeholders, and every SeedableRng seed derives from entropy, an OT output, a generator output or a coin toss that "
                   "includes an own contribution; (R6.2) Context.inputs is read only in validate and input_processing and reaches a payload "
                   "only through `input ^ own_share`; (R6.3) a mask share is stored only into the buffer of the wire's owner and never for "
                   "the own party; (R6.5) the only other message that carries bits of the share table, `output wire shares`, is filled only "
                   "at slots indexed by Circuit.output_regs (the mask share of a register that is not an output - in particular of an own "
                   "input wire - is never sent); (R6.6) in the secret-creating functions a vector allocated with a constant placeholder and filled from "
                   "random data through zip has a zip partner whose length is computed from the vector's own length (zip truncates silently); (R6.7) no privately seeded generator is cloned and (R4.c) no random draw is replicated into all entries of a vector; entropy may be obtained through helpers and through struct fields that only ever store private randomness. "
                   "Distributional statements (balance, uniqueness across runs) are not decided.",
    "assumptions": ["rand::random / ThreadRng / Scalar::random are cryptographically secure", "the property's statistical clauses (N>=200 runs) need execution"],
}


def run(ctx, res):
    S = r2.get_sec(ctx)
    r6.rule_entropy(S, res)
    r6.rule_input_flow(S, res)
    r6.rule_own_share_home(S, res)
    rule_output_slots(ctx, S, res)
    r6.rule_placeholder_overwritten(S, res)
    import r3
    r3.rule_replicated_draw(S, res)
    r6.rule_generator_clone(S, res)


class _Renamed:
    """Result proxy: reports instances of a shared rule under this property's rule id."""

    def __init__(self, res, frm, to):
        self._res, self._frm, self._to = res, frm, to

    def __getattr__(self, name):
        return getattr(self._res, name)

    def bad(self, rule, inst, msg, *a, **kw):
        if kw.get("key"):
            kw["key"] = kw["key"].replace(self._frm, self._to)
        return self._res.bad(rule.replace(self._frm, self._to), inst, msg + " - the mask share of a register that is not an output (e.g. an own input wire) would be disclosed", *a, **kw)

    def ok(self, rule, *a, **kw):
        return self._res.ok(rule.replace(self._frm, self._to), *a, **kw)


def rule_output_slots(ctx, S, res):
    """R6.5: share bits leave in `output wire shares` only for output registers (same structural fact
    as C05's R5.slot, which is a necessary condition for both properties)."""
    from props import c05
    sites = [s for s in S.inv.direct_sites() if s.body.owner == "polytune::mpc::protocol::output" and "output wire shares" in (s.label or []) and s.kind == "send"]
    res.need("R6.5", "output_wire_share_sends", len(sites), 1, "send sites of `output wire shares`")
    for s in sites:
        c05.check_payload_slots(S.fg, s, _Renamed(res, "R5.slot", "R6.5"), "output wire shares")
