"""C06 - revealed input bits are hidden by a fresh, unbiased, private mask (structural part)."""
import r2, r6

META = {
    "level": "other",
    "explanation": "Provenance and flow rules over rustc MIR: (R6.1) every secret of the engine - Delta, wire labels, the aBit bit string, "
                   "HaAND pads, coin-toss contributions, KOS padding, base-OT scalars, OT session generators - is built from private "
                   "entropy (rand::random / Scalar::random / AesRng::new), no Delta/Label is built from a constant except vec![..] "
                   "placeholders, and every SeedableRng seed derives from entropy, an OT output, a generator output or a coin toss that "
                   "includes an own contribution; (R6.2) Context.inputs is read only in validate and input_processing and reaches a payload "
                   "only through `input ^ own_share`; (R6.3) a mask share is stored only into the buffer of the wire's owner and never for "
                   "the own party. Distributional statements (balance, uniqueness across runs) are not decided.",
    "assumptions": ["rand::random / ThreadRng / Scalar::random are cryptographically secure", "the property's statistical clauses (N>=200 runs) need execution"],
}


def run(ctx, res):
    S = r2.get_sec(ctx)
    r6.rule_entropy(S, res)
    r6.rule_input_flow(S, res)
    r6.rule_own_share_home(S, res)
