"""C18 - documented-invalid arguments are rejected up front, without traffic or panic.

  R10.dom     validate(ctx)? dominates every other call of _mpc into the engine; its Err edge cannot
              continue; `mpc` does nothing but build the Context and delegate to _mpc
  R10.field   inside validate: every caller-supplied index field of Context reaches a range check
              (slice::get / comparison against the party count) whose failing edge is Err:
              p_own, p_eval, every element of p_out; inputs.len() is compared with the circuit's
              count; p_out.is_empty() is rejected; circ.validate()? is called
  R10.dup     duplicates in p_out are rejected in validate (or the set is normalised)
  R10.pure    validate performs no channel operation and draws no randomness
  R10.pos     no panicking index by the position of an instruction in circ.insts (only get())
  R10.arg     no panicking index by Input.party / Input.input unless the Some edge of a get() on the same
              value, or a fail-closed range comparison of it, dominates the index
"""
from mir import callee, callee_names
from an import (SliceInfo, ret_blocks, edge_fail_closed, where, true_edges_of_call, root_local, defs_of, cond_switches)
from env import engine, CTX, CIRC, find_owner
from chan import PRIMS
from common import fl
from r6 import engine_bodies

META = {
    "level": "other",
    "explanation": "(R10.slice) the vectors of the circuit description are never range-sliced with a bound taken from other counters of the circuit. Dominance and range-check analysis over rustc MIR: (1) the completed `validate(ctx)?` dominates every "
                   "engine call in `_mpc`, and `mpc` only builds the Context; (2) in validate's CFG each caller-supplied "
                   "index (p_own, p_eval, each p_out element) flows into a bounds test against the party count whose "
                   "failing edge can only reach `Err`; length / emptiness / circuit validation tests likewise; "
                   "(3) duplicates of p_out must be rejected; (4) circuit shapes Circuit::validate does not constrain: no container is "
                   "indexed (panicking) with the position of an instruction, nor with Input.party / Input.input unless a get() on "
                   "the same value or a fail-closed range test dominates the index. Holds for every argument value because it is a property "
                   "of all CFG paths. Does not decide completeness of garble_lang's Circuit::validate.",
    "assumptions": [
        "garble_lang::register_circuit::Circuit::validate is the circuit validator (trusted dependency)",
        "a branch edge is 'fail-closed' when no block constructing Ok(..) is reachable from it",
    ],
}

# iterator plumbing that visits every element of the underlying slice
FULL_ITER = {"iter", "into_iter", "enumerate", "next", "copied", "cloned", "deref", "as_ref", "as_slice", "by_ref", "borrow", "rev"}

LOGM = ("m:debug", "m:info", "m:trace", "m:warn", "m:error", "m:instrument", "m:$crate::event", "m:event")


def is_log(sp):
    return any(m in sp for m in LOGM)


def run(ctx, res):
    bodies, fg, inv, cg = engine(ctx)
    prog = ctx.prog
    mpc_o = find_owner(prog, "mpc::protocol::_mpc")
    val_o = find_owner(prog, "mpc::protocol::validate")
    pub_o = find_owner(prog, "mpc::protocol::mpc")
    if not mpc_o or not val_o or not pub_o:
        res.bad("R10.dom", "anchors", "cannot locate protocol::{mpc,_mpc,validate}")
        return
    check_dominance(fg, cg, inv, res, mpc_o, val_o, pub_o)
    check_fields(fg, res, val_o)
    check_pure(fg, cg, inv, res, val_o)
    check_position_index(fg, res)
    check_input_fields(fg, res)
    check_circuit_slices(fg, res)


def check_position_index(fg, res):
    """R10.pos: no container is indexed (panicking) by the *position* of an instruction in
    circ.insts: Circuit::validate does not relate the number / position of Input instructions to
    input_regs, so a vector sized by a circuit counter can be shorter than the instruction list."""
    n = 0
    bad = 0
    for k, b in fg.bodies.items():
        if not b.owner.startswith("polytune::mpc::protocol::"):
            continue
        # enumerate counters of loops over Circuit.insts: locals named by the (w, inst) pattern whose
        # tuple comes from an Enumerate<Iter<Inst>> iterator
        counters = set()
        for bi, t in b.calls():
            names = callee_names(t)
            if any(n_.endswith("Iterator>::next") or n_.endswith("Iterator::next") for n_ in names) and t["args"] and t["args"][0]["k"] != "const":
                ty = t["args"][0]["p"]["ty"]
                if "Enumerate<core::slice::iter::Iter<garble_lang::register_circuit::Inst>>" in ty:
                    # the usize component copied out of the yielded tuple
                    d = t["d"]["l"]
                    for blk in b.blocks:
                        for s in blk["s"]:
                            if s["k"] == "assign" and s["r"]["k"] == "use" and s["r"]["o"]["k"] != "const" and s["r"]["o"]["p"]["l"] == d and s["r"]["o"]["p"].get("ty") == "usize":
                                counters.add(s["p"]["l"])
        if not counters:
            continue
        # copies of the counters
        changed = True
        while changed:
            changed = False
            for blk in b.blocks:
                for s in blk["s"]:
                    if s["k"] == "assign" and not s["p"]["pr"] and s["r"]["k"] == "use" and s["r"]["o"]["k"] != "const" and not s["r"]["o"]["p"]["pr"] and s["r"]["o"]["p"]["l"] in counters and s["p"]["l"] not in counters and b.locals[s["p"]["l"]]["ty"] == "usize":
                        counters.add(s["p"]["l"])
                        changed = True
        for bi, t in b.calls():
            names = callee_names(t)
            tail = names[-1].rsplit("::", 1)[-1] if names else ""
            if tail in ("index", "index_mut") and len(t["args"]) == 2 and t["args"][1]["k"] != "const" and not t["args"][1]["p"]["pr"] and t["args"][1]["p"]["l"] in counters:
                n += 1
                bad += 1
                from an import root_local
                rl = root_local(b, t["args"][0])
                var = b.locals[rl]["name"] if rl is not None and b.locals[rl]["name"] else "?"
                res.bad("R10.pos", "%s|%s[w]" % (b.owner.rsplit("::", 1)[-1], var), "`%s[w]` is indexed with the position of an instruction: a circuit whose Input instructions are misplaced or surplus (it passes Circuit::validate) panics here instead of returning Err" % var, where(b, bi),
                        key="R10.pos|%s|%s" % (b.owner.rsplit("::", 1)[-1], var))
            elif tail in ("get", "get_mut") and len(t["args"]) == 2 and t["args"][1]["k"] != "const" and not t["args"][1]["p"]["pr"] and t["args"][1]["p"]["l"] in counters:
                n += 1
    res.count("position_indexed_accesses", n)
    if not bad:
        res.ok("R10.pos", "instruction-position", "", "%d accesses by instruction position, all through get()" % n)


INPUT_ADT = "garble_lang::register_circuit::Input"


def some_edges(b, bi):
    """(switch block, target) edges taken when the Option returned by the call in block bi (possibly
    passed through copied()/cloned()/as_ref()) is Some."""
    out = []
    vals = {b.blocks[bi]["t"]["d"]["l"]}
    changed = True
    while changed:
        changed = False
        for bj, t in b.calls():
            names = callee_names(t)
            tail = names[-1].rsplit("::", 1)[-1] if names else ""
            if tail in ("copied", "cloned", "as_ref", "as_mut") and t["args"] and t["args"][0]["k"] != "const" and t["args"][0]["p"]["l"] in vals and t["d"]["l"] not in vals:
                vals.add(t["d"]["l"])
                changed = True
        for blk in b.blocks:
            for st in blk["s"]:
                if st["k"] == "assign" and not st["p"]["pr"] and st["r"]["k"] == "use" and st["r"]["o"]["k"] != "const" and not st["r"]["o"]["p"]["pr"] and st["r"]["o"]["p"]["l"] in vals and st["p"]["l"] not in vals:
                    vals.add(st["p"]["l"])
                    changed = True
    for bj, blk in enumerate(b.blocks):
        t = blk["t"]
        if t["k"] != "switch" or t["o"]["k"] == "const":
            continue
        for st in blk["s"]:
            if st["k"] == "assign" and st["r"]["k"] == "discr" and st["p"]["l"] == t["o"]["p"]["l"] and st["r"]["p"]["l"] in vals and not st["r"]["p"]["pr"]:
                for v, tb in t["ts"]:
                    if str(v) == "1":
                        out.append((bj, tb))
                if not any(str(v) == "1" for v, tb in t["ts"]) and any(str(v) == "0" for v, tb in t["ts"]):
                    out.append((bj, t["else"]))
    return out


def check_input_fields(fg, res):
    """R10.arg: `Input.party` / `Input.input` of an instruction are not range-checked by
    Circuit::validate.  Every panicking index whose index value is one of them must be dominated by
    the Some-edge of a `get(<that value>)` (or a fail-closed comparison of that value)."""
    from mir import callee_names
    n_src = n_sink = 0
    bad = 0
    for k, b in fg.bodies.items():
        if b.krate != "polytune" or not b.owner.startswith("polytune::mpc::"):
            continue
        val = {}   # local -> "party" | "input"
        for blk in b.blocks:
            for st in blk["s"]:
                if st["k"] != "assign" or st["p"]["pr"]:
                    continue
                r = st["r"]
                pl = r["o"]["p"] if r["k"] == "use" and r["o"]["k"] != "const" else None
                if pl is None:
                    continue
                fl_ = [e for e in pl["pr"] if isinstance(e, dict) and e.get("n")]
                if fl_ and (fl_[-1].get("a") or "").startswith(INPUT_ADT) and fl_[-1]["n"] in ("party", "input"):
                    val[st["p"]["l"]] = fl_[-1]["n"]
        if not val:
            continue
        n_src += len(val)
        changed = True
        while changed:
            changed = False
            for blk in b.blocks:
                for st in blk["s"]:
                    if st["k"] != "assign" or st["p"]["pr"] or st["p"]["l"] in val:
                        continue
                    r = st["r"]
                    o = r.get("o") if r["k"] in ("use", "cast") else None
                    if o and o["k"] != "const" and not o["p"]["pr"] and o["p"]["l"] in val:
                        val[st["p"]["l"]] = val[o["p"]["l"]]
                        changed = True
        # guards: Some-edge of get(value) / fail-closed comparison
        guards = []   # (field, (src block, dst block))
        for bi, t in b.calls():
            names = callee_names(t)
            tail = names[-1].rsplit("::", 1)[-1] if names else ""
            if tail in ("get", "get_mut") and len(t["args"]) == 2 and t["args"][1]["k"] != "const" and not t["args"][1]["p"]["pr"] and t["args"][1]["p"]["l"] in val:
                for e in some_edges(b, bi):
                    guards.append((val[t["args"][1]["p"]["l"]], e))
        for bi, blk in enumerate(b.blocks):
            for st in blk["s"]:
                if st["k"] == "assign" and st["r"]["k"] == "bin" and st["r"]["op"] in ("Lt", "Le", "Gt", "Ge"):
                    ops = [o for o in (st["r"]["a"], st["r"]["b"]) if o["k"] != "const" and not o["p"]["pr"] and o["p"]["l"] in val]
                    t = blk["t"]
                    if ops and t["k"] == "switch" and t["o"]["k"] != "const" and t["o"]["p"]["l"] == st["p"]["l"]:
                        tg = [tb for _v, tb in t["ts"]] + [t["else"]]
                        fc = [x for x in tg if edge_fail_closed(b, bi, x)[0]]
                        for x in tg:
                            if x not in fc and fc:
                                guards.append((val[ops[0]["p"]["l"]], (bi, x)))
        for bi, t in b.calls():
            names = callee_names(t)
            tail = names[-1].rsplit("::", 1)[-1] if names else ""
            if tail in ("index", "index_mut") and len(t["args"]) == 2 and t["args"][1]["k"] != "const" and not t["args"][1]["p"]["pr"] and t["args"][1]["p"]["l"] in val:
                n_sink += 1
                f = val[t["args"][1]["p"]["l"]]
                if any(g[0] == f and b.edge_dominates(g[1][0], g[1][1], bi) for g in guards):
                    rl = root_local(b, t["args"][0])
                    res.ok("R10.arg", "%s|%s[%s]" % (b.owner.rsplit("::", 1)[-1], b.locals[rl]["name"] if rl is not None else "?", f), where(b, bi), "index by Input.%s behind the Some edge of a get() on the same value" % f)
                    continue
                bad += 1
                rl = root_local(b, t["args"][0])
                var = b.locals[rl]["name"] if rl is not None and b.locals[rl]["name"] else "?"
                res.bad("R10.arg", "%s|%s[%s]" % (b.owner.rsplit("::", 1)[-1], var, f),
                        "`%s[..]` is indexed with Input.%s of an instruction, which Circuit::validate does not bound, and no get()/range test on that value dominates the index: a circuit with an out-of-range Input.%s panics" % (var, f, f),
                        where(b, bi), key="R10.arg|%s|%s|%s" % (b.owner.rsplit("::", 1)[-1], var, f))
        for bi, blk in enumerate(b.blocks):
            t = blk["t"]
            if t["k"] == "assert" and t.get("mk") == "BoundsCheck":
                idx = t["mops"][1]
                if idx["k"] != "const" and not idx["p"]["pr"] and idx["p"]["l"] in val:
                    n_sink += 1
                    f = val[idx["p"]["l"]]
                    if not any(g[0] == f and b.edge_dominates(g[1][0], g[1][1], bi) for g in guards):
                        bad += 1
                        res.bad("R10.arg", "%s|slice[%s]" % (b.owner.rsplit("::", 1)[-1], f), "a slice is indexed with Input.%s without a dominating range test" % f, where(b, bi))
    res.need("R10.arg", "input_field_reads", n_src, 2, "reads of Input.party / Input.input in the engine")
    res.count("input_field_index_sites", n_sink)
    if not bad and not n_sink:
        res.ok("R10.arg", "engine", "", "%d reads of Input.party / Input.input: none is used as a panicking index (only get())" % n_src)


def engine_call(fg, t, exclude_owners):
    """Is this call into polytune's own (non-logging) code?  returns callee owner or None"""
    for n in callee_names(t):
        for k in fg.by_id.get(n, []):
            cb = fg.bodies[k]
            if cb.krate == "polytune" and cb.owner not in exclude_owners:
                return cb.owner
    return None


def check_dominance(fg, cg, inv, res, mpc_o, val_o, pub_o):
    host = None
    for bk, b in fg.bodies.items():
        if b.owner != mpc_o:
            continue
        vb = [bi for bi, t in b.calls() if val_o in callee_names(t)]
        if vb:
            host = (bk, b, vb[0])
            break
    if host is None:
        res.bad("R10.dom", "_mpc|validate", "_mpc does not call validate(ctx)")
        return
    bk, b, vblock = host
    t = b.blocks[vblock]["t"]
    # the `?`: result -> Try::branch -> switch; Break edge must be fail-closed
    nb = t["t"]
    br = None
    cur = nb
    for _ in range(4):
        tt = b.blocks[cur]["t"]
        if tt["k"] == "call" and any(n.endswith("Try::branch") or n.endswith("::branch") for n in callee_names(tt)):
            br = cur
            break
        if tt["k"] == "goto":
            cur = tt["t"]
            continue
        break
    cont_edge = None
    if br is None:
        res.bad("R10.dom", "_mpc|validate?", "the result of validate(ctx) is not propagated with `?`", where(b, vblock))
    else:
        sw = b.blocks[br]["t"]["t"]
        st = b.blocks[sw]["t"]
        if st["k"] != "switch":
            res.bad("R10.dom", "_mpc|validate?", "unexpected shape after Try::branch", where(b, vblock))
        else:
            tmap = {v: tb for v, tb in st["ts"]}
            cont, brk = tmap.get("0"), tmap.get("1")
            okc, off = edge_fail_closed(b, sw, brk) if brk is not None else (False, None)
            if not okc:
                res.bad("R10.dom", "_mpc|validate?", "a failed validation can still reach Ok(..)", where(b, vblock))
            else:
                res.ok("R10.dom", "_mpc|validate?", where(b, vblock), "Err edge of validate(ctx)? only reaches Err")
            cont_edge = (sw, cont)
    # every other engine call is dominated by the Continue edge
    n_calls = 0
    bad = 0
    fam = {k for k, bb in fg.bodies.items() if bb.owner == mpc_o}
    for k in fam:
        bb = fg.bodies[k]
        for bi, tt in bb.calls():
            if bi not in bb.live_blocks():
                continue
            if is_log(tt["sp"]):
                continue
            o = engine_call(fg, tt, {mpc_o, val_o})
            if o is None or "<impl" in o or o.startswith("polytune::mpc::protocol::Error"):
                continue
            n_calls += 1
            if k != bk:
                # nested body of _mpc (async block): must be constructed after validation
                continue
            if cont_edge is None or not bb.edge_dominates(cont_edge[0], cont_edge[1], bi):
                bad += 1
                res.bad("R10.dom", "_mpc|%s" % o.rsplit("::", 1)[-1], "call to %s is not dominated by a successful validate(ctx)?" % o, where(bb, bi))
    # nothing that can panic on a caller-supplied value runs before the validation succeeded - also not
    # inside the arguments of a log macro (they are evaluated when a subscriber enables the level)
    n_pre = 0
    for k in fam | set(pubk_ for pubk_, bb_ in fg.bodies.items() if bb_.owner == pub_o):
        bb = fg.bodies[k]
        if k != bk and bb.owner == mpc_o:
            # nested bodies of _mpc: closures built for log macros before the validation
            pass
        for bi, blk in enumerate(bb.blocks):
            if bi not in bb.live_blocks():
                continue
            tt = blk["t"]
            risky = None
            if tt["k"] == "call":
                cn = callee_names(tt)
                tl = cn[-1].rsplit("::", 1)[-1] if cn else ""
                if tl in ("index", "index_mut", "unwrap", "expect", "split_at", "copy_from_slice") and tt["args"] and tt["args"][0]["k"] != "const":
                    risky = ("`%s`" % tl, [a for a in tt["args"] if a["k"] != "const"])
            elif tt["k"] == "assert" and tt.get("mk") in ("BoundsCheck", "DivisionByZero", "RemainderByZero"):
                risky = (tt["mk"], [o for o in tt["mops"] if o["k"] != "const"])
            if not risky:
                continue
            # does it depend on the caller-supplied Context fields?
            dep = set()
            for o in risky[1]:
                si = SliceInfo(fg, fg.operand_nodes(k, o))
                dep |= set(si.field_names(CTX)) & {"p_own", "p_eval", "p_out", "inputs", "circ"}
            if not dep:
                continue
            n_pre += 1
            before = (k == bk and (cont_edge is None or not bb.edge_dominates(cont_edge[0], cont_edge[1], bi))) or bb.owner == pub_o
            if k != bk and bb.owner == mpc_o:
                # a closure / async block of _mpc: where is it built?
                from an import construction_chain
                ch = construction_chain(fg, k)
                before = any(pk == bk and (cont_edge is None or not b.edge_dominates(cont_edge[0], cont_edge[1], pbi)) for (pk, pbi, _si) in ch)
            if before:
                bad += 1
                res.bad("R10.dom", "_mpc|panic-before-validate", "%s on a value that depends on the caller-supplied %s can run before validate(ctx)? succeeded (e.g. in the arguments of a log macro): an invalid argument panics instead of being rejected" % (risky[0], sorted(dep)), where(bb, bi),
                        key="R10.dom|_mpc|panic-before-validate")
    res.count("panic_capable_operations_on_arguments_in__mpc", n_pre)
    res.floor("engine_calls_in__mpc", n_calls, 4)
    if not bad and cont_edge is not None:
        res.ok("R10.dom", "_mpc|order", where(b, vblock), "%d engine calls, all dominated by the Continue edge of validate(ctx)?" % n_calls)
    # public entry: only Context::new + _mpc
    pubk = [k for k, bb in fg.bodies.items() if bb.owner == pub_o]
    cl = cg.closure(pubk)
    extra = []
    for k in pubk:
        bb = fg.bodies[k]
        for bi, tt in bb.calls():
            if is_log(tt["sp"]):
                continue
            o = engine_call(fg, tt, {pub_o})
            if o and o not in (mpc_o,) and not o.endswith("Context::<'c, C>::new") and "<impl" not in o:
                extra.append((bb, bi, o))
    if extra:
        for bb, bi, o in extra:
            res.bad("R10.dom", "mpc|%s" % o.rsplit("::", 1)[-1], "public entry `mpc` calls %s before argument validation" % o, where(bb, bi))
    else:
        res.ok("R10.dom", "mpc|entry", "", "mpc() only builds the Context and delegates to _mpc")
    # Context::new must be effect free (no channel / rng)
    cn = [k for k, bb in fg.bodies.items() if bb.owner.endswith("protocol::Context::<'c, C>::new")]
    cl = cg.closure(cn)
    sites = [s for s in inv.sites if s.bk in cl]
    if sites:
        res.bad("R10.dom", "Context::new", "Context::new reaches channel operations", fl(sites[0].sp))
    elif cn:
        res.ok("R10.dom", "Context::new", "", "no channel primitive reachable")


def switch_after_call(b, bi):
    """(switch block, {value: target}, otherwise) for the switch on the discriminant / bool of the
    result of the call in block bi."""
    r_ = _switch_after_call(b, bi)
    if r_ is None:
        later = cond_switches(b)[1].get(bi, [])
        origin = {}
        for x_ in later:
            origin.setdefault(b.blocks[x_]["thr"][0] if b.blocks[x_].get("thr") else x_, x_)
        later = sorted(origin.values())
        if len(later) == 1:
            tt = b.blocks[later[0]]["t"]
            return later[0], {v: tb for v, tb in tt["ts"]}, tt["else"]
    return r_


def _switch_after_call(b, bi):
    t = b.blocks[bi]["t"]
    d = t["d"]["l"]
    cur = t["t"]
    val = {d}
    for _ in range(9):
        if cur is None:
            return None
        blk = b.blocks[cur]
        for s in blk["s"]:
            if s["k"] == "assign":
                r = s["r"]
                if r["k"] == "discr" and r["p"]["l"] in val:
                    val.add(s["p"]["l"])
                elif r["k"] == "use" and r["o"]["k"] != "const" and r["o"]["p"]["l"] in val:
                    val.add(s["p"]["l"])
                elif r["k"] == "un" and r["a"]["k"] != "const" and r["a"]["p"]["l"] in val:
                    val.add(s["p"]["l"])
        tt = blk["t"]
        if tt["k"] == "switch" and tt["o"]["k"] != "const" and tt["o"]["p"]["l"] in val:
            return cur, {v: tb for v, tb in tt["ts"]}, tt["else"]
        if tt["k"] == "goto":
            cur = tt["t"]
            continue
        # adaptors that keep the variant (`.get(i).copied().ok_or(E)?`)
        if tt["k"] == "call" and tt["t"] is not None and tt["args"] and tt["args"][0]["k"] != "const" and tt["args"][0]["p"]["l"] in val and not tt["d"]["pr"]:
            cn = callee_names(tt)
            if cn and cn[0].rsplit("::", 1)[-1] in ("copied", "cloned", "as_ref", "as_mut", "as_deref", "map", "map_err", "inspect"):
                val = val | {tt["d"]["l"]}
                cur = tt["t"]
                continue
        return None
    return None



def b_is_adaptor_call(b, bi):
    t = b.blocks[bi]["t"]
    if t["k"] != "call":
        return False
    n = callee_names(t)
    return bool(n) and n[0].rsplit("::", 1)[-1] in ("find", "any", "position", "all")


_conds = {}


def _is_zero(b, o):
    if o["k"] == "const":
        return o.get("v") in ("0", "0_usize")
    if o["p"]["pr"]:
        return False
    ds = defs_of(b, o["p"]["l"])
    return len(ds) == 1 and ds[0][1] != "t" and ds[0][2]["k"] == "use" and ds[0][2]["o"]["k"] == "const" and ds[0][2]["o"].get("v") in ("0", "0_usize")


def _is_length(b, o, depth=0):
    """operand o is the length of a slice / vector (a `len()` call or the pointer metadata of a slice)"""
    if o["k"] == "const" or o["p"]["pr"] or depth > 4:
        return False
    ds = defs_of(b, o["p"]["l"])
    if len(ds) != 1:
        return False
    _bi, si, r = ds[0]
    if si == "t":
        cn = callee_names(r)
        return bool(cn) and cn[-1].rsplit("::", 1)[-1] == "len"
    if r["k"] == "un" and r.get("op") == "PtrMetadata":
        return True
    if r["k"] == "use":
        return _is_length(b, r["o"], depth + 1)
    return False


def check_fields(fg, res, val_o):
    _conds.clear()
    fam = {k: b for k, b in fg.bodies.items() if b.owner == val_o}
    found = {"p_own": None, "p_eval": None, "p_out": None, "inputs_len": None, "p_out_empty": None, "circ_validate": None, "dup": None}
    for k, b in fam.items():
        # comparisons  idx >= / < bound
        for bi, blk in enumerate(b.blocks):
            for si, s in enumerate(blk["s"]):
                if s["k"] != "assign" or s["r"]["k"] != "bin":
                    continue
                op = s["r"]["op"]
                if op not in ("Ge", "Lt", "Gt", "Le", "Ne", "Eq"):
                    continue
                a, c = s["r"]["a"], s["r"]["b"]
                sa = SliceInfo(fg, fg.operand_nodes(k, a)) if a["k"] != "const" else None
                sc = SliceInfo(fg, fg.operand_nodes(k, c)) if c["k"] != "const" else None
                fa = sa.field_names(CTX) if sa else set()
                fc = sc.field_names(CTX) if sc else set()
                ca = sa.field_names(CIRC) if sa else set()
                cc = sc.field_names(CIRC) if sc else set()
                tt = blk["t"]
                # range test: idx (op) bound, bound = p_max or input_regs.len()
                def is_bound(f, cset):
                    return f == {"p_max"} or (cset == {"input_regs"} and not f)
                if b.id != b.owner and s["p"]["l"] == 0 and not s["p"]["pr"]:
                    # the predicate of `iter().find / any / position (idx >= n)` or `all(idx < n)` over the list
                    for idx_f, bnd_f, bnd_c, flip in ((fa, fc, cc, False), (fc, fa, ca, True)):
                        # (the element parameter of the predicate is linked to every argument of the adaptor,
                        # including the closure that captured the bound)
                        if "p_out" in idx_f and idx_f <= {"p_out", "p_max"} and "p_out" not in bnd_f and is_bound(bnd_f, bnd_c):
                            o = {"Ge": "Le", "Le": "Ge", "Gt": "Lt", "Lt": "Gt"}.get(op, op) if flip else op
                            for pk, pb in fam.items():
                                for pbi, pt in pb.calls():
                                    pn = callee_names(pt)
                                    tl = pn[0].rsplit("::", 1)[-1] if pn else ""
                                    if tl not in ("find", "any", "position", "all") or not any(a_["k"] != "const" and b.id in a_["p"]["ty"] for a_ in pt["args"]):
                                        continue
                                    sw = switch_after_call(pb, pbi)
                                    if sw is None:
                                        continue
                                    sblock, tm2, other2 = sw
                                    if (tl in ("find", "position") and o == "Ge"):
                                        rej = tm2.get("1", other2)
                                    elif tl == "any" and o == "Ge":
                                        rej = other2 if "0" in tm2 else tm2.get("1", other2)
                                    elif tl == "all" and o == "Lt":
                                        rej = tm2.get("0", other2)
                                    else:
                                        if found["p_out"] is None:
                                            found["p_out"] = ("weak", pb, pbi, "predicate `%s` in %s() is not the range idiom" % (o, tl))
                                        continue
                                    okc, _ = edge_fail_closed(pb, sblock, rej)
                                    found["p_out"] = ("ok" if okc else "open", pb, pbi, "%s(idx %s party count) over the list, reject edge %s" % (tl, o, "only reaches Err" if okc else "can reach Ok"))
                    continue
                sw_b = bi
                if tt["k"] != "switch" or tt["o"]["k"] == "const" or tt["o"]["p"]["l"] != s["p"]["l"]:
                    # the comparison may be stored in a flag / a tuple of flags and branched on later
                    later = _conds.setdefault(id(b), cond_switches(b))[0].get((bi, si), [])
                    # (copies of one switch made by variant threading count once)
                    origin = {}
                    for x_ in later:
                        origin.setdefault(b.blocks[x_]["thr"][0] if b.blocks[x_].get("thr") else x_, x_)
                    later = sorted(origin.values())
                    if not later:
                        continue
                    # an or-pattern over a tuple of facts (`(None, _) | (_, false) => return Err(..)`) tests the same
                    # flag in more than one place: every one of those branches has to reject
                    more_sw = later[1:]
                    sw_b = later[0]
                    tt = b.blocks[sw_b]["t"]
                    # a negation on the way flips the polarity: follow only plain moves here
                    if any(st2["k"] == "assign" and st2["r"]["k"] == "un" for x2 in later for st2 in b.blocks[x2]["s"]):
                        continue
                else:
                    more_sw = []
                tm = {v: tb for v, tb in tt["ts"]}
                zero, other = tm.get("0"), tt["else"]

                def _all_closed(kind):
                    """kind: 'zero' / 'other' - the reject edge of every switch on this flag is fail-closed"""
                    for x2 in [sw_b] + list(more_sw):
                        t2 = b.blocks[x2]["t"]
                        tm2_ = {v: tb for v, tb in t2["ts"]}
                        r2 = tm2_.get("0") if kind == "zero" else t2["else"]
                        if r2 is None or not edge_fail_closed(b, x2, r2)[0]:
                            return False
                    return True
                for idx_f, bnd_f, bnd_c, flip in ((fa, fc, cc, False), (fc, fa, ca, True)):
                    for name in ("p_own", "p_eval", "p_out"):
                        if idx_f == {name} and is_bound(bnd_f, bnd_c):
                            o = op
                            if flip:
                                o = {"Ge": "Le", "Le": "Ge", "Gt": "Lt", "Lt": "Gt"}.get(op, op)
                            # reject edge: idx >= bound true / idx < bound false
                            if o == "Ge":
                                rej = other
                            elif o == "Lt":
                                rej = zero
                            else:
                                # `>` / `<=` are off by one, Eq/Ne are not range tests
                                if found[name] is None:
                                    found[name] = ("weak", b, bi, "comparison `%s` is not the range idiom idx >= n / idx < n" % o)
                                continue
                            okc = _all_closed("other" if o == "Ge" else "zero")
                            found[name] = ("ok" if okc else "open", b, bi, "idx %s party count, reject edge %s" % (o, "only reaches Err" if okc else "can reach Ok"))
                # inputs.len() vs expected
                if op in ("Ne", "Eq") and ((fa == {"inputs"} and "input_regs" in cc) or (fc == {"inputs"} and "input_regs" in ca)
                                           or (fa >= {"inputs"} and fc and "inputs" not in fc and "input_regs" in (ca | cc))):
                    okc = _all_closed("other" if op == "Ne" else "zero")
                    found["inputs_len"] = ("ok" if okc else "open", b, bi, "inputs.len() %s expected" % op)
                # `p_out.len() == 0`, also as the slice pattern `[]` (PtrMetadata of the slice compared with 0)
                if op in ("Eq", "Ne"):
                    for x_, y_, fx_ in ((a, c, fa), (c, a, fc)):
                        if _is_zero(b, y_) and x_["k"] != "const" and fx_ == {"p_out"} and _is_length(b, x_):
                            okc = _all_closed("other" if op == "Eq" else "zero")
                            found["p_out_empty"] = ("ok" if okc else "open", b, bi, "p_out.len() %s 0, empty edge %s" % (op, "only reaches Err" if okc else "can reach Ok"))
        for bi, t in b.calls():
            names = callee_names(t)
            # slice::get(idx) with None -> Err
            if any(n.endswith("<impl [T]>::get") or n.endswith("::get") and "slice" in n for n in names) and len(t["args"]) == 2:
                recv = SliceInfo(fg, fg.operand_nodes(k, t["args"][0]))
                idx = t["args"][1]
                if idx["k"] == "const":
                    continue
                ix = SliceInfo(fg, fg.operand_nodes(k, idx))
                if recv.field_names(CIRC) == {"input_regs"}:
                    for name in ("p_own", "p_eval", "p_out"):
                        if ix.field_names(CTX) == {name}:
                            sw = switch_after_call(b, bi)
                            if sw is None:
                                found[name] = ("open", b, bi, "result of input_regs.get(%s) is not tested" % name)
                                continue
                            sblock, tm, other = sw
                            # Option discriminant: 0 = None, 1 = Some
                            none_t = tm.get("0", other if "1" in tm else None)
                            if none_t is None:
                                none_t = other
                            okc, _ = edge_fail_closed(b, sblock, none_t)
                            found[name] = ("ok" if okc else "open", b, bi, "input_regs.get(%s): None edge %s" % (name, "only reaches Err" if okc else "can reach Ok"))
            # get()/get_mut() on a table that has one entry per party (`vec![x; p_max]`): the None edge is the
            # range test of the index
            if any(n.rsplit("::", 1)[-1] in ("get", "get_mut") for n in names) and len(t["args"]) == 2 and t["args"][1]["k"] != "const" and t["args"][0]["k"] != "const":
                ix = SliceInfo(fg, fg.operand_nodes(k, t["args"][1]))
                ixf = ix.field_names(CTX)
                if len(ixf) == 1 and list(ixf)[0] in ("p_own", "p_eval", "p_out"):
                    name = list(ixf)[0]
                    recv = SliceInfo(fg, fg.operand_nodes(k, t["args"][0]))
                    sized = False
                    for (_rb, _rbi, rt) in recv.calls:
                        rn = callee_names(rt)
                        if rn and rn[0].endswith("vec::from_elem") and len(rt["args"]) == 2 and rt["args"][1]["k"] != "const":
                            ln = SliceInfo(fg, fg.operand_nodes([kk for kk, bb in fam.items() if bb is _rb][0] if any(bb is _rb for bb in fam.values()) else k, rt["args"][1]))
                            if ln.field_names(CTX) == {"p_max"} or (ln.field_names(CIRC) == {"input_regs"} and not ln.field_names(CTX)):
                                sized = True
                    if sized and (found[name] is None or found[name][0] != "ok"):
                        sw = switch_after_call(b, bi)
                        if sw is not None:
                            sblock, tm, other = sw
                            none_t = tm.get("0", other)
                            okc, _ = edge_fail_closed(b, sblock, none_t)
                            found[name] = ("ok" if okc else "open", b, bi, "lookup of %s in a table with one entry per party: None edge %s" % (name, "only reaches Err" if okc else "can reach Ok"))
                        # seen-table: the flag found at the index is tested (set => reject) and then set
                        if name == "p_out" and "bool" in t["args"][0]["p"]["ty"]:
                            dl = t["d"]["l"]
                            for bj, blk2 in enumerate(b.blocks):
                                t2 = blk2["t"]
                                if t2["k"] != "switch" or t2["o"]["k"] == "const" or t2["o"]["p"]["ty"] != "bool":
                                    continue
                                back = fg.backward(fg.operand_nodes(k, t2["o"]), node_ok=lambda x: x[0] == k, local=True)
                                if not any(x[1] == dl for x in back):
                                    continue
                                okc, _ = edge_fail_closed(b, bj, t2["else"])
                                sets = False
                                for blk3 in b.blocks:
                                    for st3 in blk3["s"]:
                                        if st3["k"] == "assign" and st3["p"]["pr"] and st3["r"]["k"] == "use" and st3["r"]["o"]["k"] == "const" and st3["r"]["o"].get("v") in ("1", "true"):
                                            bk3 = fg.backward([(k, st3["p"]["l"], None)] if False else fg.operand_nodes(k, {"k": "copy", "p": {"l": st3["p"]["l"], "pr": [], "ty": ""}}), node_ok=lambda x: x[0] == k, local=True)
                                            if any(x[1] == dl for x in bk3):
                                                sets = True
                                if okc and sets:
                                    found["dup"] = ("ok", b, bj, "seen-table: the flag at the party's index rejects when already set and is set otherwise")
            if any(n.endswith("::is_empty") for n in names) and t["args"]:
                r = SliceInfo(fg, fg.operand_nodes(k, t["args"][0]))
                if r.field_names(CTX) == {"p_out"}:
                    sw = switch_after_call(b, bi)
                    if sw:
                        sblock, tm, other = sw
                        okc, _ = edge_fail_closed(b, sblock, other)
                        found["p_out_empty"] = ("ok" if okc else "open", b, bi, "p_out.is_empty() true edge %s" % ("only reaches Err" if okc else "can reach Ok"))
            if any(n == "garble_lang::register_circuit::Circuit::validate" for n in names):
                # must be followed by `?`
                nb = t["t"]
                tt = b.blocks[nb]["t"] if nb is not None else None
                if tt and tt["k"] == "call" and any(n.endswith("::branch") for n in callee_names(tt)):
                    sw = switch_after_call(b, nb)
                    if sw:
                        sblock, tm, other = sw
                        okc, _ = edge_fail_closed(b, sblock, tm.get("1", other))
                        found["circ_validate"] = ("ok" if okc else "open", b, bi, "circ.validate()? Err edge %s" % ("only reaches Err" if okc else "can reach Ok"))
                else:
                    found["circ_validate"] = ("open", b, bi, "result of circ.validate() is not propagated")
            # duplicate detection idioms on p_out
            if any(n.endswith("::contains") or n.endswith("::insert") for n in names) and t["args"]:
                srcs = set()
                for a in t["args"]:
                    if a["k"] != "const":
                        srcs |= SliceInfo(fg, fg.operand_nodes(k, a)).field_names(CTX)
                if srcs == {"p_out"}:
                    sw = switch_after_call(b, bi)
                    if sw:
                        sblock, tm, other = sw
                        is_insert = any(n.endswith("::insert") for n in names)
                        rej = tm.get("0") if is_insert else other
                        if rej is not None:
                            okc, _ = edge_fail_closed(b, sblock, rej)
                            if okc:
                                found["dup"] = ("ok", b, bi, "duplicate test on p_out with fail-closed reject edge")
        # len() comparison of a set built from p_out against p_out.len()
        for bi, blk in enumerate(b.blocks):
            for s in blk["s"]:
                if s["k"] == "assign" and s["r"]["k"] == "bin" and s["r"]["op"] in ("Ne", "Eq", "Lt", "Gt"):
                    a, c = s["r"]["a"], s["r"]["b"]
                    if a["k"] == "const" or c["k"] == "const":
                        continue
                    sa = SliceInfo(fg, fg.operand_nodes(k, a))
                    sc = SliceInfo(fg, fg.operand_nodes(k, c))
                    if sa.field_names(CTX) == {"p_out"} and sc.field_names(CTX) == {"p_out"}:
                        def has_set(si):
                            return any("Set" in n for (bb, bi2, t2) in si.calls for n in callee_names(t2) + [t2["d"]["ty"]]) or \
                                any(any(x.endswith(("::dedup", "::sort_unstable", "::sort")) for x in callee_names(t2)) for (bb, bi2, t2) in si.calls)
                        if has_set(sa) != has_set(sc):
                            tt = blk["t"]
                            if tt["k"] == "switch":
                                tm = {v: tb for v, tb in tt["ts"]}
                                rej = tt["else"] if s["r"]["op"] != "Eq" else tm.get("0")
                                okc, _ = edge_fail_closed(b, bi, rej)
                                if okc:
                                    found["dup"] = ("ok", b, bi, "set-size comparison on p_out with fail-closed reject edge")
    labels = {
        "p_own": "own party index is range-checked",
        "p_eval": "evaluator index is range-checked",
        "p_out": "every output party index is range-checked",
        "inputs_len": "number of input bits is compared with the circuit",
        "p_out_empty": "empty output set is rejected",
        "circ_validate": "circuit.validate()? is called",
        "dup": "duplicate output parties are rejected or normalised",
    }
    for name, f in found.items():
        rule = "R10.dup" if name == "dup" else "R10.field"
        inst = "validate|%s" % name
        if f is None:
            res.bad(rule, inst, "validate() has no check for: %s" % labels[name])
        elif f[0] == "ok":
            res.ok(rule, inst, where(f[1], f[2]), f[3])
        else:
            res.bad(rule, inst, "%s: %s" % (labels[name], f[3]), where(f[1], f[2]))
    # p_out range check must be inside a loop over p_out (every element): its block lies on a cycle
    f = found["p_out"]
    if f and f[0] == "ok" and b_is_adaptor_call(f[1], f[2]):
        # find / any / position / all visit the elements themselves: the receiver must be the whole list
        b, bi = f[1], f[2]
        bk_ = [k for k, bb in fam.items() if bb is b][0]
        t = b.blocks[bi]["t"]
        si = SliceInfo(fg, fg.operand_nodes(bk_, t["args"][0]))
        SHORTEN = {"take", "skip", "filter", "step_by", "take_while", "skip_while", "windows", "chunks", "chunks_exact", "split_at", "split_first", "split_last", "first", "last", "get", "nth", "filter_map"}
        shorten = [callee_names(t2)[-1] for (_b, _bi, t2) in si.calls if callee_names(t2) and callee_names(t2)[-1].rsplit("::", 1)[-1] in SHORTEN]
        if shorten:
            res.bad("R10.field", "validate|p_out|every-element", "the range test does not visit every element of p_out (iterator passes through %s)" % sorted(set(shorten)), where(b, bi))
        else:
            res.ok("R10.field", "validate|p_out|every-element", where(b, bi), "the range predicate is applied by an adaptor over the whole list")
    elif f and f[0] == "ok":
        b, bi = f[1], f[2]
        on_cycle = bi in b.reachable_from(b.succ()[bi][0]) or any(bi in b.reachable_from(s) for s in b.succ()[bi])
        # the iterator feeding the check must visit every element: only length-preserving adaptors
        bk_ = [k for k, bb in fam.items() if bb is b][0]
        shorten = []
        for st in b.blocks[bi]["s"]:
            if st["k"] == "assign" and st["r"]["k"] == "bin":
                for o in (st["r"]["a"], st["r"]["b"]):
                    if o["k"] == "const":
                        continue
                    si = SliceInfo(fg, fg.operand_nodes(bk_, o))
                    if si.field_names(CTX) != {"p_out"}:
                        continue
                    for (_b, _bi, t2) in si.calls:
                        nm = callee_names(t2)[-1]
                        last = nm.rsplit("::", 1)[-1]
                        if last not in FULL_ITER:
                            shorten.append(nm)
        if on_cycle and shorten:
            res.bad("R10.field", "validate|p_out|every-element", "the loop that range-checks p_out does not visit every element (iterator passes through %s)" % sorted(set(shorten)), where(b, bi))
        elif on_cycle:
            res.ok("R10.field", "validate|p_out|every-element", where(b, bi), "range check lies inside the loop over p_out")
        else:
            res.bad("R10.field", "validate|p_out|every-element", "output party range check is not applied to every element of p_out", where(b, bi))


def check_pure(fg, cg, inv, res, val_o):
    ks = [k for k, b in fg.bodies.items() if b.owner == val_o]
    cl = cg.closure(ks)
    sites = [s for s in inv.sites if s.bk in cl]
    rnd = []
    for k in cl:
        b = fg.bodies[k]
        for bi, t in b.calls():
            if any(n.startswith("rand::") or "::random" in n for n in callee_names(t)):
                rnd.append((b, bi))
    if sites:
        res.bad("R10.pure", "validate|channel", "validate reaches channel operations", fl(sites[0].sp))
    elif rnd:
        res.bad("R10.pure", "validate|rng", "validate draws randomness", where(rnd[0][0], rnd[0][1]))
    else:
        res.ok("R10.pure", "validate", "", "no channel primitive / RNG reachable from validate (%d bodies)" % len(cl))


def check_circuit_slices(fg, res):
    """R10.slice: the vectors of the circuit description (`insts`, `input_regs`, `output_regs`) are never
    range-sliced (`&circ.insts[..n]`) with a bound that is not taken from the vector's own length: the counters of
    a circuit (sum of input_regs, and_ops, max_reg_count) are not tied to the number of instructions by
    Circuit::validate, so a description whose counters disagree with its instructions panics on the slice bound."""
    n = 0
    bad = 0
    for k, b in engine_bodies(fg):
        if not b.owner.startswith("polytune::mpc::protocol::"):
            continue
        for bi, t in b.calls():
            names = callee_names(t)
            if not names or names[0].rsplit("::", 1)[-1] not in ("index", "index_mut") or len(t["args"]) != 2 or bi not in b.live_blocks():
                continue
            ix = t["args"][1]
            ity = ix["p"]["ty"] if ix["k"] != "const" else ix.get("ty", "")
            if not ity.startswith("core::ops::range::Range"):
                continue
            rv = t["args"][0]
            if rv["k"] == "const":
                continue
            rty = rv["p"]["ty"]
            if not ("register_circuit::Inst" in rty or "register_circuit::Reg" in rty or rty.lstrip("&").startswith("alloc::vec::Vec<usize") or rty.lstrip("&") == "[usize]"):
                continue
            si = SliceInfo(fg, fg.operand_nodes(k, rv))
            cf = si.field_names(CIRC) & {"insts", "input_regs", "output_regs"}
            if not cf and "circ" in si.field_names(CTX):
                # reached through `ctx.circ.<field>`: the element type names the field
                if "register_circuit::Inst" in rty:
                    cf = {"insts"}
                elif "register_circuit::Reg" in rty:
                    cf = {"output_regs"}
                elif "usize" in rty:
                    cf = {"input_regs"}
            if not cf:
                continue
            n += 1
            bs = SliceInfo(fg, fg.operand_nodes(k, ix))
            own_len = False
            for (_b, _bi, t2) in bs.calls:
                cn = callee_names(t2)
                if cn and cn[-1].rsplit("::", 1)[-1] in ("len", "min") and t2["args"] and t2["args"][0]["k"] != "const":
                    si2 = SliceInfo(fg, fg.operand_nodes([kk for kk, bb in fg.bodies.items() if bb is _b][0], t2["args"][0]))
                    if si2.field_names(CIRC) & cf or ("circ" in si2.field_names(CTX) and t2["args"][0]["p"]["ty"].lstrip("&") == rty.lstrip("&")):
                        own_len = True
            if own_len:
                res.ok("R10.slice", "%s|%s[range]" % (b.owner.rsplit("::", 1)[-1], "/".join(sorted(cf))), where(b, bi), "range bound derived from the vector's own length")
                continue
            bad += 1
            res.bad("R10.slice", "%s|%s[range]" % (b.owner.rsplit("::", 1)[-1], "/".join(sorted(cf))),
                    "`circ.%s` is range-sliced with a bound computed from other counters of the circuit (%s): a circuit description whose counters disagree with its instructions (it passes Circuit::validate) panics here instead of returning Err" % ("/".join(sorted(cf)), sorted(bs.field_names(CTX) | bs.field_names(CIRC)) or "?"), where(b, bi),
                    key="R10.slice|%s|%s" % (b.owner.rsplit("::", 1)[-1], "/".join(sorted(cf))))
    res.count("range_slices_of_circuit_vectors", n)
    if not bad:
        res.ok("R10.slice", "engine", "", "%d range slices of circuit vectors, none with a foreign bound" % n)
