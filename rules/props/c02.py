"""C02 - a malicious peer can never make an honest party accept a wrong output (structural part)."""
import r2

META = {
    "level": "other",
    "explanation": "(R2.10) every equality comparison of a compound abort condition rejects on its own (`a != x && b != y` needs two wrong values); (R2.11) the conflicting-mask test inspects the table of the own masked inputs. For every protocol message that can influence an output bit (online and preprocessing labels) the receive must reach "
                   "the demanded fail-closed abort checks (R2.1, classified by condition ingredients: received bit+MAC, Delta, own key, "
                   "open_commitment, clmul correlation, label); a received bit is used only after its MAC check (R2.3); an absent "
                   "Option<(bit,MAC)> share is an error, never 'treated as 0' (R2.4); the loop carrying a MAC check cannot be shortened by "
                   "a peer-sized vector (R2.5); equivocation-sensitive labels use the verified broadcast (R2.6); an equality test is never applied to a value folded over the elements "
                   "of a received vector (R2.8); where opened values are accepted through a symmetric fold with the own value (sum compared with 0, "
                   "or the sum becomes a seed) the commitment binds the id of the committing party (R3.bind-id: no mirroring). All facts are over every CFG "
                   "path, i.e. for every adversarial message, index and party. Does not decide that the checks are cryptographically "
                   "sufficient or that the accepted value is f(x_honest, x'). (R2.key) the AEAD key and nonce of a garbled row bind all four GarblingKey components: the writes into the key / nonce arrays have pairwise disjoint constant byte ranges and every field reaches one.",
    "assumptions": [
        "message component = value reached from a receive result through structure-preserving MIR edges inside the receiving function",
        "a weakened-but-still-Delta-dependent comparison (e.g. on some bits only) is not detected",
    ],
}


def run(ctx, res):
    S = r2.get_sec(ctx)
    labs, cl = r2.rule_inventory(S, res, {"pre", "online"})
    cs = r2.rule_checks(S, res, {"pre", "online"}, labs)
    r2.rule_bit_use(S, res, {"pre", "online"}, cs)
    r2.rule_presence(S, res, {"pre", "online"}, cs)
    r2.rule_every_element(S, res, {"pre", "online"}, cs)
    r2.rule_unconditional(S, res, {"pre", "online"}, cs)
    r2.rule_per_element(S, res, {"pre", "online"}, cs)
    r2.rule_conjunct(S, res, {"pre", "online"}, cs)
    r2.rule_adaptor_polarity(S, res, {"pre", "online"}, cs)
    r2.rule_conflict_covers_own(S, res, cs)
    r2.rule_check_before_send(S, res, {"pre", "online"}, cs)
    r2.rule_verified(S, res, {"online"}, labs)
    # the echo round behind the verified broadcast of `masked inputs` (shared with C04)
    r2.rule_broadcast_impl(S, res)
    import r3
    r2.enrich(S)
    r3.rule_bind_id(S, res)
    r2.rule_row_key_binding(S, res)
