"""C19 - spilling to temp files is observationally identical to staying in memory (structural part).

  R19.create   the only file-creating API reachable in crate polytune is tempfile::tempfile_in
               (anonymous, already unlinked): nothing can remain in the directory
  R19.order    in FileOrMemBuf::iter and ::chunks: flush()? -> rewind()? -> BufReader::new  (dominance)
  R19.drop     the shared file offset is restored after reading: Iter and ChunkIter have a Drop impl reaching
               seek(SeekFrom::End(0)), or write_chunk seeks to the end before writing (if under a writer flag, every
               reader constructor sets that flag)
               (writer and reader share one OS file offset: append-after-read needs it)
  R19.flush    TrackWrite::flush forwards to the BufWriter (otherwise R19.order's flush is a no-op)
  R19.sibling  every method of FileOrMemBuf / Iter / ChunkIter switches on the variant and handles
               both; both iterators map UnexpectedEof to None and other errors to Some(Err)
  R19.codec    writer (encode_into_std_write) and both readers (decode_from_std_read) use the same
               bincode configuration constructor
  R19.tmpdir   Context.tmp_dir flows only into the `dir` argument of FileOrMemBuf::new: no branch,
               length, label or payload depends on the spill choice
  R19.chunk    the chunk size the AND-share writer flushes at and the size handed to chunks(..) come
               from the same Context method (memory variant re-chunks by that parameter)
"""
from mir import callee, callee_names
from an import (SliceInfo, ret_blocks, edge_fail_closed, where, root_local, defs_of, CallGraph, control_deps)
from env import engine, CTX, CIRC, find_owner
from common import fl

META = {
    "level": "other",
    "explanation": "Who-may-call, must-precede (CFG dominance) and sibling-agreement rules over the MIR of "
                   "utils::file_or_mem_buf plus a forward value-flow slice of Context.tmp_dir. These are necessary "
                   "conditions for file/memory equivalence that hold for every operation sequence because they are "
                   "facts about all CFG paths; equality of the produced item sequences themselves is not decided.",
    "assumptions": [
        "tempfile::tempfile_in returns an anonymous (unlinked) file",
        "std BufWriter/BufReader/Seek semantics; bincode legacy config is fixed-width",
    ],
}

FOM = "polytune::utils::file_or_mem_buf::"
CREATE_DENY_PREFIX = ("std::fs::", "tempfile::", "std::os::", "tokio::fs::")
CREATE_ALLOW = {"tempfile::file::tempfile_in"}


def followed_by_try(b, bi):
    """call in block bi -> its result goes through `?` (Try::branch). Returns (switch block, cont, brk)."""
    t = b.blocks[bi]["t"]
    cur = t["t"]
    for _ in range(4):
        if cur is None:
            return None
        tt = b.blocks[cur]["t"]
        if tt["k"] == "call" and any(n.endswith("::branch") for n in callee_names(tt)):
            sw = tt["t"]
            st = b.blocks[sw]["t"]
            if st["k"] == "switch":
                tm = {v: tb for v, tb in st["ts"]}
                return sw, tm.get("0"), tm.get("1")
            return None
        if tt["k"] == "goto":
            cur = tt["t"]
            continue
        return None
    return None


def run(ctx, res):
    bodies, fg, inv, cg = engine(ctx)
    prog = ctx.prog
    # ---------------------------------------------------------------- R19.create
    n_fs = 0
    for k, b in fg.bodies.items():
        for bi, t in b.calls():
            for n in callee_names(t):
                if n.startswith(CREATE_DENY_PREFIX):
                    n_fs += 1
                    if n in CREATE_ALLOW:
                        if b.owner != FOM + "FileOrMemBuf::<T>::new":
                            res.bad("R19.create", "tempfile_in|%s" % b.owner, "temp file created outside FileOrMemBuf::new", where(b, bi))
                        else:
                            res.ok("R19.create", "tempfile_in", where(b, bi), "anonymous temp file, created only by FileOrMemBuf::new")
                    else:
                        res.bad("R19.create", "%s|%s" % (n, b.owner.rsplit("::", 1)[-1]), "file-system API %s used in the engine: a named file could remain in the directory" % n, where(b, bi))
    res.floor("fs_api_calls", n_fs, 1)
    # ---------------------------------------------------------------- R19.order
    for meth in ("iter", "chunks"):
        owner = FOM + "FileOrMemBuf::<T>::" + meth
        fam = [(k, b) for k, b in fg.bodies.items() if b.owner == owner]
        if not fam:
            res.bad("R19.order", meth, "cannot locate FileOrMemBuf::%s" % meth)
            continue
        for k, b in fam:
            fl_b = [bi for bi, t in b.calls() if "std::io::Write::flush" in callee_names(t)]
            rw_b = [bi for bi, t in b.calls() if "std::io::Seek::rewind" in callee_names(t) or any(n.endswith("::rewind") for n in callee_names(t))]
            br_b = [bi for bi, t in b.calls() if any(n.endswith("BufReader::<R>::new") for n in callee_names(t))]
            if not br_b:
                res.bad("R19.order", meth, "no BufReader::new in the file arm of %s" % meth)
                continue
            for rb in br_b:
                probs = []
                okf = okr = False
                for f in fl_b:
                    tr = followed_by_try(b, f)
                    if tr and tr[1] is not None and b.edge_dominates(tr[0], tr[1], rb):
                        okf = True
                for r in rw_b:
                    tr = followed_by_try(b, r)
                    if tr and tr[1] is not None and b.edge_dominates(tr[0], tr[1], rb):
                        # and flush before rewind
                        if any((followed_by_try(b, f) and b.edge_dominates(followed_by_try(b, f)[0], followed_by_try(b, f)[1], r)) for f in fl_b):
                            okr = True
                        else:
                            probs.append("rewind is not preceded by a successful flush")
                if not okf:
                    probs.append("a successful flush()? of the writer does not dominate the reader's creation")
                if not okr and not probs:
                    probs.append("a successful rewind()? does not dominate the reader's creation")
                if probs:
                    res.bad("R19.order", meth, "; ".join(probs), where(b, rb))
                else:
                    res.ok("R19.order", meth, where(b, rb), "flush()? dominates rewind()? dominates BufReader::new")
    # ---------------------------------------------------------------- R19.flush
    fo = [(k, b) for k, b in fg.bodies.items() if b.owner == "polytune::<utils::file_or_mem_buf::TrackWrite as std::io::Write>::flush"]
    if not fo:
        res.bad("R19.flush", "TrackWrite::flush", "cannot locate TrackWrite's Write::flush")
    else:
        k, b = fo[0]
        inner = [bi for bi, t in b.calls() if "std::io::Write::flush" in callee_names(t) and "BufWriter" in " ".join(callee_names(t) + callee(t)[1].get("targs", []))]
        if inner and all(b.dominates(inner[0], r) for r in [bi for bi, blk in enumerate(b.blocks) if blk["t"]["k"] == "return" and bi in b.live_blocks()]):
            res.ok("R19.flush", "TrackWrite::flush", where(b, inner[0]), "forwards to BufWriter::flush on every path")
        else:
            res.bad("R19.flush", "TrackWrite::flush", "TrackWrite::flush does not forward to the BufWriter on every path", fl(b.span))
    # ---------------------------------------------------------------- R19.drop
    # The readers share the file offset with the writer. It is restored to the end either by the
    # reader's Drop impl, or lazily by write_chunk (seek(End(0)) before encoding) - if that seek is
    # guarded by a flag of the writer, every reader constructor has to set the flag.
    def seeks_to_end(b):
        out = []
        for bi, t in b.calls():
            if any(n.endswith("Seek::seek") or n.endswith("::seek") for n in callee_names(t)):
                a = t["args"][1] if len(t["args"]) > 1 else None
                if a is not None and a["k"] != "const":
                    for d in defs_of(b, a["p"]["l"]):
                        r = d[2]
                        if d[1] != "t" and r["k"] == "agg" and r.get("variant") == "End" and r["ops"] and r["ops"][0]["k"] == "const" and r["ops"][0].get("v") == "0" and bi in b.live_blocks():
                            out.append(bi)
        return out
    # lazy mechanism: seek(End(0)) reachable from write_chunk inside this module
    lazy_flag = None      # None: no lazy seek; "": unconditional; "<field>": guarded by that writer field
    wc = [k for k, b in fg.bodies.items() if b.owner.endswith("file_or_mem_buf::FileOrMemBuf::<T>::write_chunk")]
    if wc:
        for k in set(wc) | set(cg.closure(wc)):
            b = fg.bodies[k]
            if "file_or_mem_buf" not in b.owner:
                continue
            for sbi in seeks_to_end(b):
                cd = control_deps(b)
                guard = ""
                for (sw, _s) in cd.get(sbi, ()):
                    tt = b.blocks[sw]["t"]
                    if tt["k"] != "switch" or tt["o"]["k"] == "const":
                        continue
                    found = None
                    for d in defs_of(b, tt["o"]["p"]["l"]):
                        r = d[2]
                        pl = None
                        if d[1] != "t" and r["k"] == "use" and r["o"]["k"] != "const":
                            pl = r["o"]["p"]
                        elif d[1] == "t" and r.get("args") and r["args"][0]["k"] != "const" and callee_names(r) and callee_names(r)[-1].rsplit("::", 1)[-1] in ("take", "replace", "swap", "get", "load", "fetch_and", "fetch_or"):
                            # `if std::mem::take(&mut self.flag) { seek }`: the flag is read (and cleared) through a reference
                            cur = r["args"][0]["p"]["l"]
                            for _ in range(6):
                                nxt = None
                                for d2 in defs_of(b, cur):
                                    if d2[1] != "t" and d2[2]["k"] == "ref":
                                        if d2[2]["p"]["pr"] == ["*"]:
                                            nxt = d2[2]["p"]["l"]        # reborrow
                                        else:
                                            pl = d2[2]["p"]
                                    elif d2[1] != "t" and d2[2]["k"] == "use" and d2[2]["o"]["k"] != "const" and not d2[2]["o"]["p"]["pr"]:
                                        nxt = d2[2]["o"]["p"]["l"]
                                if pl is not None or nxt is None:
                                    break
                                cur = nxt
                        if pl is not None:
                            fl_ = [e for e in pl["pr"] if isinstance(e, dict) and e.get("n")]
                            if fl_ and "TrackWrite" in (fl_[-1].get("a") or ""):
                                found = fl_[-1]["n"]
                    if found:
                        guard = found
                    elif tt["o"]["p"].get("ty") == "bool" and not guard:
                        guard = "?"
                lazy_flag = guard
    ctor = {"Iter": "iter", "ChunkIter": "chunks"}
    for ty in ("Iter", "ChunkIter"):
        owner = "polytune::<utils::file_or_mem_buf::%s<'a, T> as core::ops::drop::Drop>::drop" % ty
        fam = [(k, b) for k, b in fg.bodies.items() if b.owner == owner]
        if fam:
            k, b = fam[0]
            se = seeks_to_end(b)
            if se:
                # on *every* path of the file arm: the only branch that may skip the seek is the test of
                # the variant (the memory variant has nothing to restore)
                rets = {bi for bi, blk in enumerate(b.blocks) if blk["t"]["k"] == "return" and bi in b.live_blocks()}
                skipping = []
                for bi, blk in enumerate(b.blocks):
                    t = blk["t"]
                    if t["k"] != "switch" or bi not in b.live_blocks() or not any(b.reachable_from(bi) & {x} for x in se):
                        continue
                    is_variant = any(st["k"] == "assign" and st["r"]["k"] == "discr" and st["p"]["l"] == (t["o"]["p"]["l"] if t["o"]["k"] != "const" else -1) and ty in (st["r"]["p"].get("ty", "") + b.locals[st["r"]["p"]["l"]]["ty"]) for st in blk["s"])
                    if is_variant:
                        continue
                    for x in [tb for _v, tb in t["ts"]] + [t["else"]]:
                        if b.blocks[x]["t"]["k"] == "unreachable":
                            continue
                        if b.reachable_from(x, frozenset(se)) & rets and not blk.get("cleanup"):
                            skipping.append(bi)
                if skipping:
                    res.bad("R19.drop", ty, "Drop for %s restores the shared file offset only under a condition: on the other path the offset stays where the reader left it and the next append overwrites existing chunks" % ty, where(b, skipping[0]))
                else:
                    res.ok("R19.drop", ty, where(b, se[0]), "Drop seeks the shared file to SeekFrom::End(0) on every path of the file variant")
                continue
            if lazy_flag is None:
                res.bad("R19.drop", ty, "Drop for %s does not seek the file back to its end (SeekFrom::End(0))" % ty, fl(b.span))
                continue
        if lazy_flag is None:
            res.bad("R19.drop", ty, "%s has no Drop impl and write_chunk does not seek to the end either: the shared file offset is not restored after reading" % ty)
            continue
        if lazy_flag == "":
            res.ok("R19.drop", ty, "", "write_chunk seeks the shared file to SeekFrom::End(0) before every write")
            continue
        if lazy_flag == "?":
            res.bad("R19.drop", ty, "write_chunk seeks back to the end of the file only under a condition that is not a flag of the writer set by FileOrMemBuf::%s(): on the other path an append after reading overwrites earlier chunks" % ctor[ty])
            continue
        # guarded by a flag: the constructor of this reader must set it before the reader exists
        mo = [(k, b) for k, b in fg.bodies.items() if b.owner.endswith("file_or_mem_buf::FileOrMemBuf::<T>::%s" % ctor[ty]) and b.id == b.owner]
        sets = []
        for k, b in mo:
            for bi, blk in enumerate(b.blocks):
                for st in blk["s"]:
                    if st["k"] == "assign" and st["r"]["k"] == "use" and st["r"]["o"]["k"] == "const" and st["r"]["o"].get("v") in ("true", "1"):
                        fl_ = [e for e in st["p"]["pr"] if isinstance(e, dict) and e.get("n")]
                        if fl_ and fl_[-1]["n"] == lazy_flag and bi in b.live_blocks():
                            sets.append((b, bi))
        if sets:
            res.ok("R19.drop", ty, where(sets[0][0], sets[0][1]), "write_chunk seeks to the end when `%s` is set, and %s() sets it" % (lazy_flag, ctor[ty]))
        else:
            res.bad("R19.drop", ty, "write_chunk only seeks back to the end of the file when `%s` is set, but FileOrMemBuf::%s() moves the shared offset without setting it: an append after %s() overwrites earlier chunks (the memory variant keeps appending)" % (lazy_flag, ctor[ty], ctor[ty]),
                    fl(mo[0][1].span) if mo else "")
    # ---------------------------------------------------------------- R19.sibling
    methods = {
        FOM + "FileOrMemBuf::<T>::iter": 2, FOM + "FileOrMemBuf::<T>::chunks": 2, FOM + "FileOrMemBuf::<T>::write_chunk": 2,
        "polytune::<utils::file_or_mem_buf::Iter<'a, T> as core::iter::traits::iterator::Iterator>::next": 2,
        "polytune::<utils::file_or_mem_buf::ChunkIter<'a, T> as core::iter::traits::iterator::Iterator>::next": 2,
    }
    for owner, nvar in methods.items():
        fam = [(k, b) for k, b in fg.bodies.items() if b.owner == owner and b.id == owner]
        short = owner.split("file_or_mem_buf::")[-1]
        if not fam:
            res.bad("R19.sibling", short, "cannot locate %s" % owner)
            continue
        k, b = fam[0]
        # first switch on discriminant(*self)
        found = False
        for bi, blk in enumerate(b.blocks):
            t = blk["t"]
            if t["k"] != "switch" or bi not in b.live_blocks():
                continue
            disc = None
            for s in blk["s"]:
                if s["k"] == "assign" and s["r"]["k"] == "discr" and s["r"]["p"]["l"] == 1:
                    disc = s["p"]["l"]
            if disc is None or t["o"]["k"] == "const" or t["o"]["p"]["l"] != disc:
                continue
            found = True
            targets = {tb for _, tb in t["ts"]} | {t["else"]}
            live_t = [x for x in targets if b.blocks[x]["t"]["k"] != "unreachable"]
            if len(live_t) >= nvar:
                res.ok("R19.sibling", short, where(b, bi), "matches on the variant, %d arms" % len(live_t))
            else:
                res.bad("R19.sibling", short, "only %d of %d variants are handled" % (len(live_t), nvar), where(b, bi))
            break
        if not found:
            res.bad("R19.sibling", short, "method does not match on the buffer variant", fl(b.span))
    # EOF handling in both iterators
    for ty in ("Iter", "ChunkIter"):
        owner = "polytune::<utils::file_or_mem_buf::%s<'a, T> as core::iter::traits::iterator::Iterator>::next" % ty
        fam = [(k, b) for k, b in fg.bodies.items() if b.owner == owner and b.id == owner]
        if not fam:
            continue
        k, b = fam[0]
        has_kind = [bi for bi, t in b.calls() if any(n.endswith("io::error::Error::kind") for n in callee_names(t))]
        has_eq = [bi for bi, t in b.calls() if any("ErrorKind" in n and n.endswith("::eq") for n in callee_names(t))]
        # None / Some(Err) constructions
        from an import option_return_blocks
        none_b, someerr_b = option_return_blocks(b)
        if has_kind and has_eq and none_b and someerr_b:
            # the eq result's true edge must reach a None block, the false edge a Some(..) block
            ok = False
            for eb in has_eq:
                from props.c18 import switch_after_call
                sw = switch_after_call(b, eb)
                if sw:
                    sblock, tm, other = sw
                    tr_reach = b.reachable_from(other)
                    fa_reach = b.reachable_from(tm.get("0")) if tm.get("0") is not None else set()
                    if (tr_reach & none_b) and not (tr_reach & someerr_b) and (fa_reach & someerr_b):
                        ok = True
            if ok:
                res.ok("R19.sibling", "%s|eof" % ty, where(b, has_eq[0]), "UnexpectedEof => None, other decode errors => Some(Err)")
            else:
                res.bad("R19.sibling", "%s|eof" % ty, "end-of-file handling differs: UnexpectedEof must end the iteration and any other error must be yielded", where(b, has_eq[0]))
        else:
            res.bad("R19.sibling", "%s|eof" % ty, "iterator does not distinguish UnexpectedEof from other decode errors", fl(b.span))
    # ---------------------------------------------------------------- R19.codec
    cfgs = {}
    for k, b in fg.bodies.items():
        if not b.owner.startswith("polytune::") or "file_or_mem_buf" not in b.owner:
            continue
        for bi, t in b.calls():
            names = callee_names(t)
            if any(n.endswith("encode_into_std_write") or n.endswith("decode_from_std_read") for n in names):
                # config argument: last arg; find its constructor
                cfg = t["args"][-1]
                ctor = None
                if cfg["k"] != "const":
                    for d in defs_of(b, cfg["p"]["l"]):
                        if d[1] == "t":
                            ctor = callee_names(d[2])[0]
                cfgs[(b.owner.split("file_or_mem_buf::")[-1], where(b, bi))] = (names[0].rsplit("::", 1)[-1], ctor)
    res.need("R19.codec", "tmpfile_codec_sites", len(cfgs), 3, "temp-file encode/decode sites (write_chunk, Iter::next, ChunkIter::next)")
    ctors = {v[1] for v in cfgs.values()}
    kinds = {v[0] for v in cfgs.values()}
    if len(ctors) == 1 and None not in ctors and kinds >= {"encode_into_std_write", "decode_from_std_read"}:
        c = list(ctors)[0]
        if c.endswith("config::legacy"):
            res.ok("R19.codec", "tmpfile", "", "%d encode/decode sites, all with %s" % (len(cfgs), c))
        else:
            res.bad("R19.codec", "tmpfile", "temp-file codec is %s, not the fixed-width bincode legacy configuration" % c)
    else:
        res.bad("R19.codec", "tmpfile", "temp-file writer and readers do not use one bincode configuration: %s" % sorted((k[0], v) for k, v in cfgs.items()))
    # ---------------------------------------------------------------- R19.tmpdir
    src = ("F", CTX, "tmp_dir")
    new_owner = FOM + "FileOrMemBuf::<T>::new"
    allowed_bodies = {k for k, b in fg.bodies.items() if b.owner == new_owner}
    # the sanctioned sink is the `dir` parameter of FileOrMemBuf::new: do not follow the value into it
    fwd = fg.forward([src], edge_ok=lambda e: not (e.dst[0] in allowed_bodies))
    n_use = 0
    probs = []
    for n in fwd:
        if n[0] == "F":
            continue
        bk = n[0]
        if bk in allowed_bodies:
            continue
        b = fg.bodies[bk]
        # uses of this local in switch / call args
        for bi, blk in enumerate(b.blocks):
            t = blk["t"]
            if t["k"] == "switch" and t["o"]["k"] != "const" and t["o"]["p"]["l"] == n[1] and bi in b.live_blocks():
                if "m:instrument" in t["sp"] or "m:debug" in t["sp"]:
                    continue
                probs.append((b, bi, "a branch depends on Context.tmp_dir"))
            if t["k"] == "call":
                for ai, a in enumerate(t["args"]):
                    if a["k"] != "const" and a["p"]["l"] == n[1]:
                        names = callee_names(t)
                        n_use += 1
                        if new_owner in names and ai == 0:
                            continue
                        if any(x in fg.primitives for x in names):
                            probs.append((b, bi, "Context.tmp_dir reaches a channel operation"))
                        elif any(x.startswith("polytune::") for x in names) and not any(x.endswith("Context::<'c, C>::new") or x.endswith("protocol::mpc") or x.endswith("protocol::_mpc") for x in names):
                            # passing it on to engine code other than the constructor: follow (it is in fwd)
                            pass
    # discriminant reads of tmp_dir-derived locals (is_some / match)
    for n in fwd:
        if n[0] == "F" or n[0] in allowed_bodies:
            continue
        b = fg.bodies[n[0]]
        for bi, blk in enumerate(b.blocks):
            for s in blk["s"]:
                if s["k"] == "assign" and s["r"]["k"] == "discr" and s["r"]["p"]["l"] == n[1] and b.locals[n[1]]["ty"].startswith("core::option::Option<&std::path::Path"):
                    if "m:" in s["sp"] and ("instrument" in s["sp"] or "debug" in s["sp"]):
                        continue
                    probs.append((b, bi, "the Some/None state of Context.tmp_dir is inspected outside FileOrMemBuf::new"))
        for bi, t in b.calls():
            if any(x.endswith("::is_some") or x.endswith("::is_none") or x.endswith("::map") or x.endswith("::unwrap_or") for x in callee_names(t)):
                for a in t["args"]:
                    if a["k"] != "const" and a["p"]["l"] == n[1] and "Path" in b.locals[n[1]]["ty"]:
                        probs.append((b, bi, "the Some/None state of Context.tmp_dir is inspected outside FileOrMemBuf::new"))
    res.floor("tmp_dir_uses", n_use, 1)
    if probs:
        seen = set()
        for b, bi, m in probs:
            key = (b.owner, m)
            if key in seen:
                continue
            seen.add(key)
            res.bad("R19.tmpdir", b.owner.rsplit("::", 1)[-1], m + " (results/traffic could differ between file and memory mode)", where(b, bi))
    else:
        res.ok("R19.tmpdir", "Context.tmp_dir", "", "%d uses, all as the `dir` argument of FileOrMemBuf::new" % n_use)
    # ---------------------------------------------------------------- R19.chunk
    check_chunk_agreement(fg, res)


def size_sources(fg, bk, operand):
    """Context methods / fields an integer operand is computed from."""
    si = SliceInfo(fg, fg.operand_nodes(bk, operand))
    meths = set()
    for (b, bi, t) in si.calls:
        for n in callee_names(t):
            if n.startswith("polytune::mpc::protocol::Context"):
                meths.add(n.rsplit("::", 1)[-1])
    return meths, si


def check_chunk_agreement(fg, res):
    init_o = "polytune::mpc::protocol::init_and_shares"
    gab_o = "polytune::mpc::protocol::gen_auth_bits"
    writer = None
    for k, b in fg.bodies.items():
        if b.owner != init_o:
            continue
        # the flush comparison: Ge(len, bound) guarding write_chunk in the loop
        for bi, blk in enumerate(b.blocks):
            for s in blk["s"]:
                if s["k"] == "assign" and s["r"]["k"] == "bin" and s["r"]["op"] in ("Ge", "Gt", "Eq", "Lt", "Le"):
                    a, c = s["r"]["a"], s["r"]["b"]
                    if c["k"] == "const" or a["k"] == "const":
                        continue
                    m, si = size_sources(fg, k, c)
                    if m:
                        writer = (k, b, bi, s["r"]["op"], m, c)
    reader = None
    for k, b in fg.bodies.items():
        if b.owner != gab_o:
            continue
        for bi, t in b.calls():
            if any(n.endswith("FileOrMemBuf::<T>::chunks") for n in callee_names(t)):
                a = t["args"][1]
                if a["k"] == "const":
                    reader = (k, b, bi, {"<literal>"}, a)
                else:
                    m, si = size_sources(fg, k, a)
                    if si.literals and not m:
                        m = {"<literal>"}
                    reader = (k, b, bi, m, a)
    if writer is None:
        res.bad("R19.chunk", "init_and_shares|flush", "cannot locate the flush comparison `chunk.len() >= <batch size>` in init_and_shares")
        return
    if reader is None:
        res.bad("R19.chunk", "gen_auth_bits|chunks", "cannot locate and_shares.chunks(<batch size>) in gen_auth_bits")
        return
    wk, wb, wbi, wop, wm, wbound = writer
    rk, rb, rbi, rm, rarg = reader
    from an import plain_value_origin
    rcalls, rcomputed = plain_value_origin(fg, rk, rarg, rb.owner)
    if rcomputed or len(rcalls) != 1 or not list(rcalls)[0].startswith("polytune::mpc::protocol::Context"):
        res.bad("R19.chunk", "gen_auth_bits|chunks", "the reader's chunk size is computed from the batch size (%s) instead of being the batch size the writer flushed at: the memory variant re-chunks by this size while the file variant hands back the written chunks, so the two variants produce different batches"
                % (sorted(x.rsplit("::", 1)[-1] for x in rcalls) or "arithmetic"), where(rb, rbi))
        return
    wcalls, wcomputed = plain_value_origin(fg, wk, wbound, wb.owner)
    if wcomputed or len([c for c in wcalls if c.startswith("polytune::mpc::protocol::Context")]) != 1 or len(wcalls) != 1:
        res.bad("R19.chunk", "init_and_shares|flush", "the writer's flush bound is computed from the batch size (%s) instead of being the batch size itself: the file variant hands the written chunks back while the memory variant re-chunks by the reader's size, so the two variants produce different batches"
                % (sorted(x.rsplit("::", 1)[-1] for x in wcalls) or "arithmetic"), where(wb, wbi))
        return
    if wop != "Ge":
        res.bad("R19.chunk", "init_and_shares|flush", "flush condition is `%s`, not `len >= bound`: written chunks would not have exactly the batch size" % wop, where(wb, wbi))
    elif wm != rm or len(wm) != 1:
        res.bad("R19.chunk", "writer/reader", "writer flushes at Context::%s but the reader re-chunks by %s" % (sorted(wm), sorted(rm)), where(rb, rbi))
    else:
        res.ok("R19.chunk", "writer/reader", where(rb, rbi), "both sizes come from Context::%s" % list(wm)[0])
