"""C01 - honest execution computes the circuit for every role assignment (structural part):
sibling agreement of the instruction walkers, batch-size provenance, no literal party indices."""
from collections import defaultdict
from mir import callee, callee_names
from an import where, root_local, SliceInfo, defs_of, plain_value_origin
from env import CTX, CIRC
from chan import PRIMS
from common import fl
import r2
import sec as secmod
from r6 import engine_bodies

META = {
    "level": "other",
    "explanation": "(C01.a) every loop that walks circ.insts and consumes preprocessing streams (init_and_shares, both arms of garble, "
                   "evaluate) is located by its switch on the discriminant of garble_lang's Op; per Op variant the number of "
                   "Iterator::next sites on each stream in one iteration is computed and all walkers must agree: the random-share stream "
                   "advances exactly once for Input and And and never for Xor/Not, the AND-share / table-share / garbled-gate streams only "
                   "for And; (C01.b) every Context method a chunk size is computed from (found from the chunk consumers, not by name; "
                   "transitively through delegating methods) reads only num_inputs / num_and_ops, every flush comparison is "
                   "`len >= bound` with a bound from such a method and every chunk_size_iter / chunks argument comes from the same methods; "
                   "(C01.d) a register-indexed slot updated from its own previous value inside a loop (XOR of the peers' output mask shares) "
                   "is visited once per register: the loop iterates a set, or a sorted and dedup-ed vector; (C01.e) no fail-closed branch "
                   "compares own secret values (labels, keys, MACs) without a message component being involved - such an abort can "
                   "be taken by an all-honest run; "
                   "(C01.f) register-machine discipline of every instruction walk: stores into a register-indexed table go to inst.out, "
                   "the Xor / And arms read each table they update at both operand registers (Not: at its operand), for Xor / Not the stored "
                   "value is computed from those reads, and no operand read of a table follows the store into it within one iteration "
                   "(the output register may be one of the operands); "
                   "(C01.c) no literal is used as a party index (peer of a channel operation, xor_key, index into per-party vectors). "
                   "These are necessary conditions for all parties staying in step for every circuit, role assignment and batch count; "
                   "functional correctness of garbling/evaluation is value-level and not decided.",
    "assumptions": ["garble_lang::register_circuit::Op has the variants Xor, And, Not, Input (indices 0..3)"],
}

OP_TY = "garble_lang::register_circuit::Op"
OPS = {0: "Xor", 1: "And", 2: "Not", 3: "Input"}
FOM = "polytune::utils::file_or_mem_buf::"


def walkers(S):
    """[(bk, body, switch block, {variant idx: target}, loop)] for switches on Op inside a loop."""
    fg = S.fg
    out = []
    for k, b in engine_bodies(fg):
        for bi, blk in enumerate(b.blocks):
            t = blk["t"]
            if t["k"] != "switch" or t["o"]["k"] == "const" or bi not in b.live_blocks():
                continue
            for s in blk["s"]:
                if s["k"] == "assign" and s["r"]["k"] == "discr" and s["p"]["l"] == t["o"]["p"]["l"] and s["r"]["p"].get("ty", "").lstrip("&") == OP_TY:
                    lp = S.inner_loop(b, bi)
                    if lp is None:
                        continue
                    tm = {}
                    for v, tb in t["ts"]:
                        tm[int(v)] = tb
                    for v in OPS:
                        tm.setdefault(v, t["else"])
                    out.append((k, b, bi, tm, lp))
    return out


def stream_nexts(S, k, b, lp, start):
    """next() call sites on FileOrMemBuf iterators reachable in one iteration from `start`:
    {stream root local: count}"""
    fg = S.fg
    h, body = lp
    reach = {x for x in b.reachable_from(start, frozenset([h])) if x in body}
    out = defaultdict(int)
    for bi in reach:
        t = b.blocks[bi]["t"]
        if t["k"] != "call":
            continue
        names = callee_names(t)
        # a local closure that advances a stream (`let mut next_share = |w| iter.next().ok_or(..)`): its calls count
        if any(n.rsplit("::", 1)[-1] in ("call_mut", "call", "call_once") for n in names) and t["args"] and t["args"][0]["k"] != "const" and "{closure:" in t["args"][0]["p"]["ty"]:
            cdef = next((n for n in names if n in fg.by_id and "{closure" in n), "")
            for ck in fg.by_id.get(cdef, []):
                cb = fg.bodies[ck]
                for cbi, ct in cb.calls():
                    cn = callee_names(ct)
                    if any(n.endswith("Iterator::next") or n.endswith("::next") for n in cn) and ct["args"] and ct["args"][0]["k"] != "const":
                        cty = ct["args"][0]["p"]["ty"]
                        if "file_or_mem_buf::Iter<" in cty and cbi in cb.live_blocks():
                            el = cty[cty.index("file_or_mem_buf::Iter<") + len("file_or_mem_buf::Iter<"):].rstrip(">")
                            out[("closure:" + cdef, el)] += 1
            continue
        if not any(n.endswith("Iterator::next") or n.endswith("::next") for n in names):
            continue
        a = t["args"][0]
        ty = a["p"]["ty"] if a["k"] != "const" else ""
        if "file_or_mem_buf::Iter<" not in ty and a["k"] != "const":
            # a generic helper (`fn next_share(it: &mut impl Iterator<..>, w)`) spliced into the walker: the `next`
            # is typed by the helper's parameter; the stream is the variable the parameter was bound to
            rl0 = root_local(b, a)
            if rl0 is not None and "file_or_mem_buf::Iter<" in b.locals[rl0]["ty"]:
                ty = b.locals[rl0]["ty"]
        if "file_or_mem_buf::Iter<" not in ty:
            continue
        rl = root_local(b, a)
        # index into a vector of iterators (garbled_gates[p]): name the vector
        if rl is not None and not b.locals[rl]["name"]:
            st = defs_of(b, rl)
            for (dbi, si, r) in st:
                if si == "t" and any(n.endswith("index_mut") for n in callee_names(r)):
                    rl = root_local(b, r["args"][0])
        el = ty[ty.index("file_or_mem_buf::Iter<") + len("file_or_mem_buf::Iter<"):].rstrip(">")
        out[(rl, el)] += 1
    return out


def run(ctx, res):
    S = r2.get_sec(ctx)
    fg = S.fg
    # ------------------------------------------------------------------ (a) walkers
    ws = walkers(S)
    consuming = []
    for (k, b, bi, tm, lp) in ws:
        per = {v: stream_nexts(S, k, b, lp, tm[v]) for v in OPS}
        if any(per[v] for v in OPS):
            consuming.append((k, b, bi, tm, lp, per))
    res.need("C01.a", "stream_consuming_walkers", len(consuming), 4, "loops over circ.insts that consume preprocessing streams (init_and_shares, garble x2, evaluate)")
    for (k, b, bi, tm, lp, per) in consuming:
        fn = b.owner.rsplit("::", 1)[-1]
        inst = "%s@%s" % (fn, fl(b.blocks[bi]["t"]["sp"]).rsplit(":", 1)[-1])
        probs = []
        share_streams = [key for v in OPS for key in per[v] if key[1].endswith("data_types::Share")]
        share_streams = list(dict.fromkeys(share_streams))
        # the random-share stream is the Share stream advanced for Input
        rs = [key for key in share_streams if per[3].get(key, 0) > 0]
        if share_streams:
            if len(rs) != 1:
                if not rs and fn == "evaluate":
                    pass
                else:
                    probs.append("exactly one Share stream must advance for Input instructions (found %d)" % len(rs))
            else:
                r_ = rs[0]
                want = {3: 1, 1: 1, 0: 0, 2: 0}
                for v, w in want.items():
                    got = per[v].get(r_, 0)
                    if got != w:
                        probs.append("random-share stream advances %d time(s) for %s (must be %d)" % (got, OPS[v], w))
                for key in share_streams:
                    if key == r_:
                        continue
                    for v in (0, 2, 3):
                        if per[v].get(key, 0):
                            probs.append("the AND-share stream advances for %s" % OPS[v])
                    if per[1].get(key, 0) != 1:
                        probs.append("the AND-share stream advances %d time(s) for And (must be 1)" % per[1].get(key, 0))
        for key in {key for v in OPS for key in per[v]}:
            if key in share_streams:
                continue
            for v in (0, 2, 3):
                if per[v].get(key, 0):
                    probs.append("stream of %s advances for %s" % (key[1].rsplit("::", 1)[-1], OPS[v]))
            if per[1].get(key, 0) < 1:
                probs.append("stream of %s does not advance for And" % key[1].rsplit("::", 1)[-1])
        # explicit arm for every op
        if probs:
            res.bad("C01.a", inst, "; ".join(probs) + " - the parties' wire masks would shift against each other", where(b, bi))
        else:
            desc = {OPS[v]: {"%s" % (key[1].rsplit("::", 1)[-1].rstrip("]").lstrip("[")): c for key, c in per[v].items()} for v in OPS}
            res.ok("C01.a", inst, where(b, bi), "per-op stream consumption %s" % desc)
    # the three preprocessing walkers agree
    sig = {}
    for (k, b, bi, tm, lp, per) in consuming:
        fn = b.owner.rsplit("::", 1)[-1]
        if fn == "evaluate":
            continue
        sig[(fn, bi)] = tuple(sum(c for key, c in per[v].items() if key[1].endswith("data_types::Share") and per[3].get(key, 0)) for v in sorted(OPS))
    if len(set(sig.values())) <= 1 and len(sig) >= 3:
        res.ok("C01.a", "sibling-agreement", "", "%d preprocessing walkers consume the random-share stream identically: %s" % (len(sig), list(sig.values())[0]))
    else:
        res.bad("C01.a", "sibling-agreement", "the preprocessing walkers disagree on random-share consumption per op: %s" % sig)
    # ------------------------------------------------------------------ (b) batch sizes
    # Context methods, by what they read of the Context (own body + Context methods they call): a chunk
    # size is public iff everything it is computed from is in PUBLIC_FIELDS (identical at all parties)
    PUBLIC_FIELDS = {"num_inputs", "num_and_ops"}
    CTX_M = "polytune::mpc::protocol::Context"
    own_reads = {}
    calls_of = {}
    for k, b in fg.bodies.items():
        if not b.owner.startswith(CTX_M) or b.krate != "polytune":
            continue
        reads = own_reads.setdefault(b.owner, set())
        cs = calls_of.setdefault(b.owner, set())
        for blk in b.blocks:
            for s in blk["s"]:
                if s["k"] != "assign":
                    continue
                for o in [s["r"].get("o"), s["r"].get("a"), s["r"].get("b")] + ([{"k": "copy", "p": s["r"]["p"]}] if s["r"]["k"] in ("ref", "discr") else []):
                    if o and o["k"] != "const":
                        for e in o["p"]["pr"]:
                            if isinstance(e, dict) and e.get("a") == CTX:
                                reads.add(e["n"])
            for a in (blk["t"].get("args") or []):
                if a["k"] != "const":
                    for e in a["p"]["pr"]:
                        if isinstance(e, dict) and e.get("a") == CTX:
                            reads.add(e["n"])
            if blk["t"]["k"] == "call":
                for n in callee_names(blk["t"]):
                    if n.startswith(CTX_M) and n != b.owner:
                        cs.add(n)

    def method_reads(owner, seen=None):
        seen = seen or set()
        if owner in seen:
            return set()
        seen.add(owner)
        r = set(own_reads.get(owner, ()))
        for c in calls_of.get(owner, ()):
            r |= method_reads(c, seen)
        return r
    methods = {}

    def batch_sources(k, o):
        """names of the Context methods a size is computed from ('<literal>' if only constants)."""
        if o["k"] == "const":
            return {"<literal>"}
        si = SliceInfo(fg, fg.operand_nodes(k, o))
        m = set()
        for (bb, bi2, t2) in si.calls:
            for n in callee_names(t2):
                if n.startswith(CTX_M) and n in own_reads:
                    m.add(n.rsplit("::", 1)[-1])
                    methods[n.rsplit("::", 1)[-1]] = method_reads(n)
        # a method called by another method of the set is part of that one
        full = {n for n in own_reads if n.rsplit("::", 1)[-1] in m}

        def reach(o_, seen):
            for c in calls_of.get(o_, ()):
                if c not in seen:
                    seen.add(c)
                    reach(c, seen)
            return seen
        inner = set()
        for n in full:
            inner |= {c.rsplit("::", 1)[-1] for c in reach(n, set())}
        m -= inner
        direct = set(si.field_names(CTX)) - PUBLIC_FIELDS
        # a size that is *chosen* by a branch (`if self.tmp_dir.is_some() { a } else { b }`, e.g. a sizing helper that
        # was spliced in) depends on what the branch tests as well
        from an import control_deps
        locs_by_body = {}
        for n_ in si.reach:
            if n_[0] != "F":
                locs_by_body.setdefault(n_[0], set()).add(n_[1])
        for bk_, ls_ in locs_by_body.items():
            bb_ = fg.bodies.get(bk_)
            if bb_ is None or not bb_.owner.startswith("polytune::mpc::protocol::"):
                continue
            cd_ = None
            for l_ in ls_:
                ds_ = defs_of(bb_, l_)
                if len(ds_) < 2:
                    continue
                if cd_ is None:
                    cd_ = control_deps(bb_)
                for (dbi, _si, _r) in ds_:
                    for (sw_, _succ) in cd_.get(dbi, ()):
                        tt_ = bb_.blocks[sw_]["t"]
                        if tt_["k"] == "switch" and tt_["o"]["k"] != "const":
                            csi = SliceInfo(fg, fg.operand_nodes(bk_, tt_["o"]))
                            direct |= set(csi.field_names(CTX)) - PUBLIC_FIELDS - {"circ"}
        for f in direct:
            m.add("<field %s>" % f)
        if not m and si.literals:
            m.add("<literal>")
        return m

    def private_reads(src):
        out = set()
        for x in src:
            if x.startswith("<field "):
                out.add(x[7:-1])
            elif x in methods:
                out |= methods[x] - PUBLIC_FIELDS
        return out
    # sizing methods: the Context methods some chunk consumer (chunk_size_iter / chunks) takes its size from
    sizing = set()
    for k, b in engine_bodies(fg):
        if not b.owner.startswith("polytune::mpc::protocol::"):
            continue
        for bi, t in b.calls():
            names = callee_names(t)
            if any(n.endswith("protocol::chunk_size_iter") for n in names) or any(n.endswith("FileOrMemBuf::<T>::chunks") for n in names):
                sizing |= {x for x in batch_sources(k, t["args"][1]) if not x.startswith("<")}
    n_flush = 0
    n_chunk = 0
    for k, b in engine_bodies(fg):
        if not b.owner.startswith("polytune::mpc::protocol::"):
            continue
        for bi, blk in enumerate(b.blocks):
            for si_, s in enumerate(blk["s"]):
                if s["k"] == "assign" and s["r"]["k"] == "bin" and s["r"]["op"] in ("Ge", "Gt", "Le", "Lt", "Eq"):
                    a, c = s["r"]["a"], s["r"]["b"]
                    for x, y, flipped in ((a, c, False), (c, a, True)):
                        if y["k"] == "const" or x["k"] == "const":
                            continue
                        src = batch_sources(k, y)
                        if not (src & sizing):
                            continue
                        # x is a len() of a chunk buffer
                        xs = SliceInfo(fg, fg.operand_nodes(k, x))
                        if not any(any(n.endswith("::len") for n in callee_names(t2)) for (_b, _bi, t2) in xs.calls):
                            continue
                        # a flush test: the branch on it writes / sends / empties the buffer (an unrelated length
                        # comparison, e.g. a bounds pre-check, is not one)
                        tt_ = blk["t"]
                        flushes = False
                        if tt_["k"] == "switch" and tt_["o"]["k"] != "const" and tt_["o"]["p"]["l"] == s["p"]["l"]:
                            for tgt in dict.fromkeys([tb for _v, tb in tt_["ts"]] + [tt_["else"]]):
                                for xb in b.reachable_from(tgt):
                                    if b.edge_dominates(bi, tgt, xb):
                                        ct = b.blocks[xb]["t"]
                                        if ct["k"] == "call" and callee_names(ct) and callee_names(ct)[-1].rsplit("::", 1)[-1] in ("write_chunk", "send_to", "clear"):
                                            flushes = True
                        if not flushes:
                            continue
                        n_flush += 1
                        op = s["r"]["op"]
                        if flipped:
                            op = {"Ge": "Le", "Le": "Ge", "Gt": "Lt", "Lt": "Gt"}.get(op, op)
                        inst = "%s|flush@%s" % (b.owner.rsplit("::", 1)[-1], fl(s["sp"]).rsplit(":", 1)[-1])
                        if op != "Ge":
                            res.bad("C01.b", inst, "flush condition is `len %s bound`, not `len >= bound`: chunks would not have exactly the batch size the reader expects" % op, where(b, bi, si_))
                        elif len(src) != 1:
                            res.bad("C01.b", inst, "flush bound mixes sources %s" % sorted(src), where(b, bi, si_))
                        elif (lambda pc: pc[1] or len(pc[0]) != 1 or not list(pc[0])[0].startswith(CTX_M))(plain_value_origin(fg, k, y, b.owner)):
                            res.bad("C01.b", inst, "the flush bound is computed from Context::%s() instead of being that value: the reader chunks by the batch size itself, so writer and reader (or the file and the memory variant of the buffer) disagree on the chunk boundaries" % list(src)[0], where(b, bi, si_))
                        elif private_reads(src):
                            res.bad("C01.b", inst, "the flush bound Context::%s() depends on %s, which is not the same at every party: writer and reader would chunk differently" % (list(src)[0], sorted(private_reads(src))), where(b, bi, si_))
                        else:
                            res.ok("C01.b", inst, where(b, bi, si_), "len >= Context::%s()" % list(src)[0])
        for bi, t in b.calls():
            names = callee_names(t)
            if any(n.endswith("protocol::chunk_size_iter") for n in names) or any(n.endswith("FileOrMemBuf::<T>::chunks") for n in names):
                n_chunk += 1
                arg = t["args"][1]
                src = batch_sources(k, arg)
                inst = "%s|%s@%s" % (b.owner.rsplit("::", 1)[-1], names[0].rsplit("::", 1)[-1], fl(t["sp"]).rsplit(":", 1)[-1])
                if src and "<literal>" not in src and len(src) == 1 and (lambda pc: pc[1] or len(pc[0]) != 1 or not list(pc[0])[0].startswith(CTX_M))(plain_value_origin(fg, k, arg, b.owner)):
                    res.bad("C01.b", inst, "the chunk size is computed from Context::%s() instead of being that value: writer and reader (or the file and the memory variant of the buffer) disagree on the chunk boundaries" % list(src)[0], where(b, bi))
                elif src and "<literal>" not in src and len(src) == 1 and private_reads(src):
                    res.bad("C01.b", inst, "the chunk size Context::%s() depends on %s, which is not the same at every party: writer and reader would chunk differently" % (list(src)[0], sorted(private_reads(src))), where(b, bi))
                elif src and "<literal>" not in src and len(src) == 1:
                    res.ok("C01.b", inst, where(b, bi), "chunk size from Context::%s(), which reads only %s" % (list(src)[0], sorted(methods.get(list(src)[0], ()))))
                else:
                    res.bad("C01.b", inst, "chunk size does not come from a Context batch-size method (%s): reader and writer would disagree" % (sorted(src) or "unknown"), where(b, bi))
    for mname, reads in sorted(methods.items()):
        if mname not in sizing:
            continue
        if reads <= PUBLIC_FIELDS and reads:
            res.ok("C01.b", "%s|reads" % mname, "", "depends only on %s (public, identical at every party)" % sorted(reads))
        else:
            res.bad("C01.b", "%s|reads" % mname, "a batch / chunk size depends on %s: parties with different roles / settings would chunk differently" % sorted(reads - PUBLIC_FIELDS))
    res.need("C01.b", "batch_size_methods", len(sizing), 2, "Context methods that chunk / batch sizes are computed from")
    res.need("C01.b", "flush_comparisons", n_flush, 3, "chunk flush comparisons `len >= batch size`")
    res.need("C01.b", "chunk_size_consumers", n_chunk, 3, "chunk_size_iter / chunks consumers of a batch size")
    # writer / reader pairs use the same method
    # (garble: sender flush, receiver chunk_size_iter, evaluator table-share flush; init_and_shares/gen_auth_bits)
    # ------------------------------------------------------------------ (d) accumulate once per register
    accumulate_once(fg, res)
    spontaneous_aborts(S, fg, res)
    operand_discipline(S, ws, res)
    per_party_tables(S, fg, res)
    # ------------------------------------------------------------------ (c) literal party indices
    n_idx = 0
    bad = 0
    for s in S.inv.direct_sites():
        b = s.body
        if "fpre" in b.owner or "bench" in b.owner:
            continue
        n_idx += 1
        po = s.term["args"][1]
        if po["k"] == "const" and PRIMS[s.prim][0] in ("send", "recv", "recv_vec"):
            bad += 1
            res.bad("C01.c", "%s|%s|peer" % (b.owner.rsplit("::", 1)[-1], "/".join(s.label or ["?"])), "the peer of a channel operation is the literal %s (breaks for other role assignments)" % po.get("v"), fl(s.sp))
    PER_PARTY = ("(polytune::mpc::data_types::Mac, polytune::mpc::data_types::Key)", "alloc::vec::Vec<polytune::mpc::data_types::Mac", "alloc::vec::Vec<polytune::mpc::data_types::Label")
    for k, b in engine_bodies(fg):
        for bi, t in b.calls():
            names = callee_names(t)
            if not names:
                continue
            tail = names[-1].rsplit("::", 1)[-1]
            if names[0].endswith("data_types::Auth::xor_key"):
                n_idx += 1
                if t["args"][1]["k"] == "const":
                    bad += 1
                    res.bad("C01.c", "%s|xor_key" % b.owner.rsplit("::", 1)[-1], "xor_key is applied for the literal party %s instead of the evaluator" % t["args"][1].get("v"), where(b, bi))
            if tail in ("index", "index_mut", "get", "get_mut") and len(t["args"]) == 2:
                cty = t["args"][0]["p"]["ty"] if t["args"][0]["k"] != "const" else ""
                if any(p in cty for p in PER_PARTY) and ("Vec<(" in cty or "[(" in cty or "Vec<alloc::vec::Vec<" in cty):
                    n_idx += 1
                    ix = t["args"][1]
                    lit = ix["k"] == "const"
                    if not lit:
                        d = defs_of(b, ix["p"]["l"]) if not ix["p"]["pr"] else []
                        lit = len(d) == 1 and d[0][1] != "t" and d[0][2]["k"] == "use" and d[0][2]["o"]["k"] == "const"
                    if lit:
                        bad += 1
                        res.bad("C01.c", "%s|index" % b.owner.rsplit("::", 1)[-1], "a per-party vector is indexed with a literal party index", where(b, bi))
    res.floor("party_index_positions", n_idx, 30)
    if not bad:
        res.ok("C01.c", "party-indices", "", "%d party-index positions (channel peers, xor_key, per-party vectors): none is a literal" % n_idx)


REG = "garble_lang::register_circuit::Reg"
SET_ITERS = ("alloc::collections::btree::set::Iter", "alloc::collections::btree::set::IntoIter", "std::collections::hash::set::Iter",
             "std::collections::hash::set::IntoIter", "hashbrown::set::Iter", "core::ops::range::Range<")


def _origin(b, o, depth=0):
    """[(local, field path)] places an index operand is a plain copy / cast of, up to and including the
    first projected place."""
    if o is None or o["k"] == "const" or depth > 12:
        return []
    pl = o["p"]
    path = tuple(e.get("n") or str(e.get("f", "")) for e in pl["pr"] if isinstance(e, dict) and ("n" in e or "f" in e))
    if pl["pr"] and path:
        return [(pl["l"], path)]
    out = [(pl["l"], ())]
    d = defs_of(b, pl["l"])
    if len(d) == 1 and d[0][1] != "t":
        r = d[0][2]
        if r["k"] in ("use", "cast") and r.get("o") and r["o"]["k"] != "const":
            out += _origin(b, r["o"], depth + 1)
    return out


def _same_place(w, r):
    for (lw, pw) in w:
        for (lr, pr_) in r:
            if lw == lr and (pw[:len(pr_)] == pr_ or pr_[:len(pw)] == pw):
                return True
    return False


def _aliases(b, l):
    """locals that are `&`/`&mut`/deref-call results of local l (one body, shallow)."""
    out = {l}
    changed = True
    while changed:
        changed = False
        for blk in b.blocks:
            for st in blk["s"]:
                if st["k"] == "assign" and not st["p"]["pr"] and st["p"]["l"] not in out:
                    r = st["r"]
                    src = r["p"]["l"] if r["k"] in ("ref", "rawptr") else (r["o"]["p"]["l"] if r["k"] == "use" and r["o"]["k"] != "const" else None)
                    if src in out:
                        out.add(st["p"]["l"])
                        changed = True
            t = blk["t"]
            if t["k"] == "call" and t["args"] and t["args"][0]["k"] != "const" and t["args"][0]["p"]["l"] in out and t["d"]["l"] not in out:
                cn = callee_names(t)
                if cn and cn[-1].rsplit("::", 1)[-1] in ("deref", "deref_mut", "as_slice", "as_mut_slice"):
                    out.add(t["d"]["l"])
                    changed = True
    return out


def accumulate_once(fg, res):
    """C01.d: a register-indexed slot that is updated from its own previous value (`x[r] = f(x[r], ..)`,
    e.g. XOR-ing the other parties' mask shares into the output wire) inside a loop over registers
    must be visited once per register: the loop iterates a set (BTreeSet / HashSet), or a Vec that is
    sorted and dedup-ed.  circ.output_regs may name a register several times, at any positions."""
    n = 0
    for k, b in engine_bodies(fg):
        if not b.owner.startswith("polytune::mpc::protocol::"):
            continue
        for bi, t in b.calls():
            names = callee_names(t)
            if not names or not any("IndexMut<%s>" % REG in x for x in names) or bi not in b.live_blocks():
                continue
            ptr = t["d"]["l"]
            cont = root_local(b, t["args"][0])
            if cont is None:
                continue
            # the value stored through the returned reference
            stored = []
            for bj, blk in enumerate(b.blocks):
                for st in blk["s"]:
                    if st["k"] == "assign" and st["p"]["l"] == ptr and st["p"]["pr"] and st["r"]["k"] in ("use", "agg", "bin"):
                        ops = [st["r"].get("o"), st["r"].get("a"), st["r"].get("b")] + list(st["r"].get("ops") or [])
                        for o in ops:
                            if o and o["k"] != "const":
                                stored += fg.operand_nodes(k, o)
            # in-place update through a reference derived from the slot (`if let Some(o) = t[reg].as_mut() { *o ^= x }`)
            derived = {ptr}
            grew = True
            while grew:
                grew = False
                for blk in b.blocks:
                    for st in blk["s"]:
                        if st["k"] == "assign" and not st["p"]["pr"] and st["p"]["l"] not in derived:
                            r = st["r"]
                            src = r["p"]["l"] if r["k"] in ("ref", "rawptr") else (r["o"]["p"]["l"] if r["k"] == "use" and r["o"]["k"] != "const" else None)
                            if src in derived:
                                derived.add(st["p"]["l"])
                                grew = True
                    ct = blk["t"]
                    if ct["k"] == "call" and ct["args"] and ct["args"][0]["k"] != "const" and ct["args"][0]["p"]["l"] in derived and ct["d"]["l"] not in derived:
                        cn = callee_names(ct)
                        if cn and cn[-1].rsplit("::", 1)[-1] in ("as_mut", "as_deref_mut", "deref_mut", "unwrap", "expect", "get_or_insert", "get_or_insert_with"):
                            derived.add(ct["d"]["l"])
                            grew = True
            inplace = False
            for blk in b.blocks:
                for st in blk["s"]:
                    if st["k"] == "assign" and st["p"]["l"] in derived and st["p"]["l"] != ptr and st["p"]["pr"] and st["r"]["k"] == "bin":
                        for o in (st["r"]["a"], st["r"]["b"]):
                            if o["k"] != "const" and o["p"]["l"] in derived:
                                inplace = True
            if not stored and not inplace:
                continue
            back = fg.backward(stored, node_ok=lambda x: x[0] == k, edge_ok=lambda e: e.kind not in ("alias", "alias_fb", "lcall", "mutarg2")) if stored else {}
            if not inplace and not any(x[1] == cont for x in back):
                continue   # plain overwrite
            # ... of the *same slot*: some read of the container in that slice is keyed by the same place
            widx = _origin(b, t["args"][1])
            same = inplace
            bl = {x[1] for x in back}
            for cbi, ct in b.calls():
                cn = callee_names(ct)
                tl = cn[-1].rsplit("::", 1)[-1] if cn else ""
                if tl in ("get", "index", "get_mut", "index_mut") and cbi != bi and len(ct["args"]) == 2 and ct["d"]["l"] in bl and ct["args"][0]["k"] != "const" and root_local(b, ct["args"][0]) in _aliases(b, cont):
                    ridx = _origin(b, ct["args"][1])
                    if _same_place(widx, ridx):
                        same = True
            if not same:
                continue
            # self-dependent update keyed by a register: which loop yields the register?
            idx = t["args"][1]
            if idx["k"] == "const":
                continue
            iback = fg.backward(fg.operand_nodes(k, idx), node_ok=lambda x: x[0] == k, edge_ok=lambda e: e.kind in ("copy", "ref", "base2field", "field2whole") or (e.kind == "call" and (e.info or {}).get("names") and e.info["names"][-1].rsplit("::", 1)[-1] in ("next", "copied", "cloned", "deref")))
            its = []
            for cbi, ct in b.calls():
                cn = callee_names(ct)
                if cn and cn[0].endswith("Iterator::next") and ct["d"]["l"] in {x[1] for x in iback} and ct["args"] and ct["args"][0]["k"] != "const":
                    its.append((cbi, ct["args"][0]["p"]["ty"], ct))
            if not its:
                continue   # not keyed by a loop element (single update)
            n += 1
            var = b.locals[cont]["name"] or "?"
            inst = "%s|%s[reg]" % (b.owner.rsplit("::", 1)[-1], var)
            ity = its[0][1]
            if any(s_ in ity for s_ in SET_ITERS):
                res.ok("C01.d", inst, where(b, bi), "updated from its own previous value once per register: the loop iterates a set (%s)" % ity.split("<")[0].replace("&mut ", ""))
                continue
            # a Vec: must be sorted and dedup-ed before the loop
            vback = fg.backward(fg.operand_nodes(k, its[0][2]["args"][0]), node_ok=lambda x: x[0] == k, edge_ok=lambda e: e.kind in ("copy", "ref", "base2field", "field2whole") or (e.kind == "call" and (e.info or {}).get("names") and e.info["names"][-1].rsplit("::", 1)[-1] in ("iter", "into_iter", "deref", "as_slice", "copied", "cloned")))
            vl = {x[1] for x in vback}
            ops_ = set()
            for cbi, ct in b.calls():
                cn = callee_names(ct)
                tl = cn[-1].rsplit("::", 1)[-1] if cn else ""
                if tl in ("sort", "sort_unstable", "sort_by_key", "sort_unstable_by_key", "dedup", "dedup_by_key") and ct["args"] and ct["args"][0]["k"] != "const" and root_local(b, ct["args"][0]) in vl and b.dominates(cbi, its[0][0]):
                    ops_.add("sort" if tl.startswith("sort") else "dedup")
            if ops_ == {"sort", "dedup"}:
                res.ok("C01.d", inst, where(b, bi), "updated once per register: the loop iterates a sorted and dedup-ed vector")
            else:
                res.bad("C01.d", inst, "`%s[reg]` is updated from its own previous value inside a loop over registers that is not known to be duplicate-free (iterator %s%s): a register named twice is accumulated twice (for XOR: cancels)"
                        % (var, ity[:70], "; dedup() alone only removes adjacent repeats" if ops_ == {"dedup"} else ""), where(b, bi))
    res.need("C01.d", "self_dependent_register_updates", n, 1, "register-indexed slots updated from their previous value inside a loop")


def spontaneous_aborts(S, fg, res):
    """C01.e: in an honest run nothing the party computes itself makes it abort: a fail-closed branch
    whose condition compares own secret values (labels, keys, MACs, share bits) with each other or a
    constant, and involves no message component, can be taken in an all-honest execution for some
    circuit / coins (e.g. `label == Label(0)` is true for the wire `x XOR x` under free-XOR)."""
    from an import edge_fail_closed
    SECRET = (secmod.T_LABEL, secmod.T_KEY, secmod.T_MAC, secmod.T_DELTA)
    all_comp = set()
    for d in S.comp.values():
        all_comp |= set(d.keys())
    n = 0
    bad = 0
    for k, b in engine_bodies(fg):
        if not b.owner.startswith("polytune::mpc::protocol::") or "Result" not in b.locals[0]["ty"] and not b.is_coroutine:
            continue
        for bi, blk in enumerate(b.blocks):
            t = blk["t"]
            if t["k"] != "switch" or t["o"]["k"] == "const" or bi not in b.live_blocks():
                continue
            sp = t["sp"]
            if "|" in sp and any(m in sp for m in ("m:debug", "m:trace", "m:instrument", "m:info", "m:warn", "m:error")):
                continue
            tg = [x for x in dict.fromkeys([tb for _v, tb in t["ts"]] + [t["else"]]) if b.blocks[x]["t"]["k"] != "unreachable"]
            if len(tg) < 2:
                continue
            fc = [edge_fail_closed(b, bi, x)[0] for x in tg]
            if not any(fc) or all(fc):
                continue
            # a value comparison (not a presence / discriminant test)
            cmp_ops = []
            for st in blk["s"]:
                if st["k"] == "assign" and st["p"]["l"] == t["o"]["p"]["l"] and st["r"]["k"] == "bin" and st["r"]["op"] in ("Eq", "Ne"):
                    cmp_ops = [st["r"]["a"], st["r"]["b"]]
            for pb in b.pred()[bi]:
                pt = b.blocks[pb]["t"]
                if pt["k"] == "call" and pt["d"]["l"] == t["o"]["p"]["l"] and callee_names(pt) and callee_names(pt)[0].rsplit("::", 1)[-1] in ("eq", "ne"):
                    cmp_ops = pt["args"]
            if not cmp_ops:
                continue
            tys = [o["p"]["ty"].lstrip("&") for o in cmp_ops if o["k"] != "const"]
            if not any(ty in SECRET for ty in tys):
                continue
            n += 1
            back = fg.backward([x for o in cmp_ops if o["k"] != "const" for x in fg.operand_nodes(k, o)], node_ok=lambda x: x[0] == k, local=True)
            if set(back) & all_comp:
                continue
            bad += 1
            res.bad("C01.e", "%s|abort-on-own-values" % b.owner.rsplit("::", 1)[-1], "an abort is decided by comparing own secret values (%s) that no peer message enters: an all-honest execution takes this branch for some circuits / coins (e.g. the zero label of `x XOR x` is Label(0))" % ", ".join(sorted({ty.rsplit("::", 1)[-1] for ty in tys})), where(b, bi),
                    key="C01.e|%s" % b.owner.rsplit("::", 1)[-1])
    res.count("fail_closed_comparisons_of_secret_values", n)
    if not bad:
        res.ok("C01.e", "engine", "", "%d fail-closed comparisons of secret-typed values in the protocol walkers: each involves a message component (an abort needs a deviating peer)" % n)


def _operand_of(b, inst_l, o, depth=0):
    """classify a register index operand of a walker: ('out',) for `inst.out`, (variant, k) for the k-th
    operand of `inst.op as Variant`, or None - following plain copies / casts / `.0` of the Reg"""
    if o is None or o["k"] == "const" or depth > 12:
        return None
    pl = o["p"]
    if pl["l"] == inst_l and pl["pr"]:
        names = [e.get("n") for e in pl["pr"] if isinstance(e, dict) and "n" in e]
        dcs = [e.get("dc") for e in pl["pr"] if isinstance(e, dict) and "dc" in e]
        if names and names[0] == "out":
            return ("out",)
        if names and names[0] == "op" and dcs and len(names) >= 3:
            try:
                return (dcs[0], int(names[2]))
            except ValueError:
                return None
        return None
    d = defs_of(b, pl["l"])
    if len(d) == 1 and d[0][1] != "t":
        r = d[0][2]
        if r["k"] in ("use", "cast") and r.get("o"):
            return _operand_of(b, inst_l, r["o"], depth + 1)
    return None


ARITY = {"Xor": 2, "And": 2, "Not": 1, "Input": 0}


def operand_discipline(S, ws, res):
    """C01.f: in every loop that walks circ.insts with a switch on the Op variant, the register-indexed
    tables (Vec<_> indexed through garble_lang's `Index<Reg>`) obey the register-machine discipline that
    makes the walk correct for every circuit, register reuse included:
      f.write   every store into a register table inside the walk goes to `inst.out`;
      f.reads   an arm for Xor / And reads each table it (or the code after the match) writes at *both*
                operands, an arm for Not at its operand;
      f.dep     for Xor / Not the value stored at `inst.out` is computed from those reads;
      f.order   no operand read of a table follows the store into the same table within one iteration
                (`out` may be the same register as an operand)."""
    fg = S.fg
    n_w = 0
    n_arm = 0
    for (k, b, bi, tm, lp) in ws:
        h, body = lp
        # the instruction local
        inst_l = None
        for s in b.blocks[bi]["s"]:
            if s["k"] == "assign" and s["r"]["k"] == "discr" and s["r"]["p"].get("ty", "").lstrip("&") == OP_TY:
                inst_l = s["r"]["p"]["l"]
        if inst_l is None:
            continue
        fn = b.owner.rsplit("::", 1)[-1]
        line = fl(b.blocks[bi]["t"]["sp"]).rsplit(":", 1)[-1]
        reads, writes = [], []      # (block, table root, class, term)
        for cbi in body:
            # slice indexing is a place projection, not a call: `&(*t)[i]`
            for st_ in b.blocks[cbi]["s"]:
                if st_["k"] != "assign":
                    continue
                r_ = st_["r"]
                pl_ = r_.get("p") if r_["k"] in ("ref", "rawptr") else (r_["o"]["p"] if r_["k"] == "use" and r_["o"]["k"] != "const" else None)
                if pl_ is None:
                    continue
                for e_ in pl_["pr"]:
                    if isinstance(e_, dict) and "i" in e_:
                        cls_ = _operand_of(b, inst_l, {"k": "copy", "p": {"l": e_["i"], "pr": [], "ty": "usize"}})
                        if cls_ and cls_ != ("out",):
                            reads.append((cbi, root_local(b, {"k": "copy", "p": {"l": pl_["l"], "pr": [], "ty": ""}}), cls_, {"d": st_["p"], "t": None}))
            t = b.blocks[cbi]["t"]
            if t["k"] != "call" or len(t.get("args") or []) < 2:
                continue
            fnr = (t["f"].get("fn") or {}) if t["f"]["k"] == "const" else {}
            targs = fnr.get("targs") or []
            d = fnr.get("def", "")
            if len(t["args"]) == 2 and len(targs) >= 2 and targs[1] == REG and d.endswith("IndexMut::index_mut"):
                writes.append((cbi, root_local(b, t["args"][0]), _operand_of(b, inst_l, t["args"][1]), t))
                continue
            # a read of table T at an operand: `T[x]`, `T.get(x.0 as usize)`, or a helper that is handed the
            # table together with the operand register
            clss = [c for c in (_operand_of(b, inst_l, a) for a in t["args"]) if c and c != ("out",)]
            if not clss:
                continue
            for a in t["args"]:
                if a["k"] != "const" and _operand_of(b, inst_l, a) is None and ("Vec<" in a["p"]["ty"] or "[" in a["p"]["ty"]):
                    for c in clss:
                        reads.append((cbi, root_local(b, a), c, t))
        if not writes:
            continue
        n_w += 1
        for (wbi, tbl, cls, t) in writes:
            nm = b.locals[tbl]["name"] if tbl is not None else "?"
            if cls != ("out",):
                res.bad("C01.f", "%s@%s|%s|write" % (fn, line, nm), "a store into the register table `%s` inside the instruction walk is not addressed by `inst.out` (%s): the walk no longer implements the register machine" % (nm, cls), where(b, wbi),
                        key="C01.f|%s|%s|write" % (fn, nm))
        explicit = {int(v_) for v_, _tb in b.blocks[bi]["t"]["ts"]}
        missing_v = [v_ for v_ in OPS if v_ not in explicit]
        if len(missing_v) == 1 and b.blocks[b.blocks[bi]["t"]["else"]]["t"]["k"] != "unreachable":
            explicit.add(missing_v[0])     # an exhaustive match may lower its last variant to `otherwise`
        for v, name in OPS.items():
            ar = ARITY[name]
            if not ar or v not in explicit:
                continue                   # variants that share the fall-through edge are not told apart here
            reach = {x for x in b.reachable_from(tm[v], frozenset([h])) if x in body}
            wr = [(wbi, tbl, t) for (wbi, tbl, cls, t) in writes if wbi in reach and cls == ("out",)]
            for tbl in dict.fromkeys(x[1] for x in wr):
                n_arm += 1
                nm = b.locals[tbl]["name"] if tbl is not None else "?"
                inst = "%s@%s|%s|%s" % (fn, line, name, nm)
                kbase = "C01.f|%s|%s|%s" % (fn, name, nm)
                got = {}
                for (rbi, rt, cls, t) in reads:
                    if rt == tbl and rbi in reach and cls and cls[0] == name:
                        got.setdefault(cls[1], []).append((rbi, t))
                missing = [i for i in range(ar) if i not in got]
                if missing:
                    res.bad("C01.f", inst, "the %s arm stores into `%s[inst.out]` but never reads `%s` at operand %s of the instruction: the result cannot depend on that operand (wrong register read)" % (name, nm, nm, "/".join("xy"[i] for i in missing)), where(b, tm[v]),
                            key=kbase + "|reads")
                    continue
                # f.order: no operand read of this table after a store into it, within the iteration
                late = []
                for (wbi, wt, t) in wr:
                    if wt != tbl:
                        continue
                    after = {x for x in b.reachable_from(t["t"], frozenset([h])) if x in body} if t.get("t") is not None else set()
                    for (rbi, rt, cls, rt_) in reads:
                        if rt == tbl and cls and cls[0] == name and rbi in after and rbi in reach:
                            late.append((wbi, rbi))
                if late:
                    res.bad("C01.f", inst, "in the %s arm `%s` is read at an operand register after `%s[inst.out]` was stored in the same iteration: when the output register is one of the operands (register reuse) the new value is read instead of the operand" % (name, nm, nm), where(b, late[0][1]),
                            key=kbase + "|order")
                    continue
                # f.dep (Xor, Not): the stored value is computed from the operand reads
                if name in ("Xor", "Not"):
                    okdep = True
                    for (wbi, wt, t) in wr:
                        if wt != tbl:
                            continue
                        ptr = t["d"]["l"]
                        stored = []
                        for bj in reach:
                            for st in b.blocks[bj]["s"]:
                                if st["k"] == "assign" and st["p"]["l"] == ptr and st["p"]["pr"]:
                                    r = st["r"]
                                    for o in [r.get("o"), r.get("a"), r.get("b")] + list(r.get("ops") or []):
                                        if o and o["k"] != "const":
                                            stored.append(o["p"]["l"])
                        # body-local backward closure over the arm's definitions
                        seen = set(stored)
                        work = list(stored)
                        while work:
                            l = work.pop()
                            for (dbi, si, r) in defs_of(b, l):
                                if dbi not in reach:
                                    continue
                                if si == "t":
                                    srcs = [a for a in r["args"] if a["k"] != "const"]
                                else:
                                    srcs = [o for o in [r.get("o"), r.get("a"), r.get("b")] + list(r.get("ops") or []) if o and o["k"] != "const"]
                                    if r["k"] in ("ref", "discr", "len") and r.get("p"):
                                        srcs.append({"k": "copy", "p": r["p"]})
                                for o in srcs:
                                    if o["p"]["l"] not in seen:
                                        seen.add(o["p"]["l"])
                                        work.append(o["p"]["l"])
                        for i in range(ar):
                            if not any(rt_["d"]["l"] in seen for (rbi, rt_) in got[i]):
                                okdep = False
                    if not okdep:
                        res.bad("C01.f", inst, "the value stored into `%s[inst.out]` by the %s arm is not computed from the reads of `%s` at every operand" % (nm, name, nm), where(b, tm[v]), key=kbase + "|dep")
                        continue
                res.ok("C01.f", inst, where(b, tm[v]), "store at inst.out; reads `%s` at %s before the store%s" % (nm, " and ".join("xy"[:ar]), "; stored value computed from them" if name in ("Xor", "Not") else ""))
    res.need("C01.f", "walkers_with_register_tables", n_w, 4, "instruction walks that store into register-indexed tables (init_and_shares, garble x2, evaluate)")
    res.need("C01.f", "op_arm_table_pairs", n_arm, 15, "(Op arm, register table) pairs with a store at inst.out")


def per_party_tables(S, fg, res):
    """C01.g: a vector that is looked up by party number is filled by party number.  A local `Vec` that is read
    with an index drawn from `0..p_max` (or p_eval / p_own / an output party) must get its entries through
    `v[p] = ..` / `vec![x; p_max]` / a collect over all parties - not through `push`, whose positions depend on
    the order in which parties are visited and on which of them are skipped (own party first, `continue` for the
    own index): such a layout coincides with the party numbering only for one role assignment (evaluator = 0)."""
    PARTY_FIELDS = {"p_max", "p_eval", "p_own", "p_out"}
    n = 0
    bad = 0
    for k, b in engine_bodies(fg):
        if not b.owner.startswith("polytune::mpc::protocol::"):
            continue
        pushes = {}     # vector root local -> [block]
        reads = {}      # vector root local -> [block] party-indexed reads
        for bi, t in b.calls():
            if bi not in b.live_blocks():
                continue
            names = callee_names(t)
            tail = names[-1].rsplit("::", 1)[-1] if names else ""
            if tail == "push" and len(t["args"]) == 2 and t["args"][0]["k"] != "const" and "alloc::vec::Vec<" in t["args"][0]["p"]["ty"]:
                rl = root_local(b, t["args"][0])
                if rl is not None and b.locals[rl]["name"]:
                    pushes.setdefault(rl, []).append(bi)
            if tail in ("get", "index", "get_mut", "index_mut") and len(t["args"]) == 2 and t["args"][0]["k"] != "const" and t["args"][1]["k"] != "const":
                ity = t["args"][1]["p"]["ty"]
                if ity != "usize":
                    continue
                rl = root_local(b, t["args"][0])
                if rl is None or not b.locals[rl]["name"]:
                    continue
                si = SliceInfo(fg, fg.operand_nodes(k, t["args"][1]), edge_ok=lambda e: e.kind in ("copy", "ref", "cast", "base2field", "field2whole", "upvar", "closarg", "agg") or (e.kind == "call" and (e.info or {}).get("names") and e.info["names"][-1].rsplit("::", 1)[-1] in ("next", "into_iter", "iter", "filter", "copied", "cloned", "deref", "enumerate", "map")))
                if si.field_names(CTX) & PARTY_FIELDS and not (si.field_names(CTX) - PARTY_FIELDS - {"circ"}):
                    reads.setdefault(rl, []).append(bi)
        for rl, rb in reads.items():
            if rl not in pushes:
                continue
            n += 1
            nm = b.locals[rl]["name"]
            # every push must sit in a loop over all parties that cannot skip it
            okp = True
            why = ""
            for pb in pushes[rl]:
                lp = S.inner_loop(b, pb)
                if lp is None:
                    okp = False
                    why = "an entry is pushed outside any loop over the parties"
                    break
                h, body = lp
                # does an iteration reach the header again without passing the push?
                skip = False
                for sc in b.succ()[h]:
                    if sc in body and h in b.reachable_from(sc, frozenset([pb])) and sc != pb:
                        r_ = b.reachable_from(sc, frozenset([pb]))
                        if h in r_:
                            skip = True
                if skip:
                    okp = False
                    why = "an iteration of the loop can skip the push (`continue` / filter for one party)"
                    break
            if okp:
                res.ok("C01.g", "%s|%s" % (b.owner.rsplit("::", 1)[-1], nm), where(b, rb[0]), "read by party number; filled by one push per iteration of a loop that visits every party")
            else:
                bad += 1
                res.bad("C01.g", "%s|%s" % (b.owner.rsplit("::", 1)[-1], nm), "`%s` is looked up by party number but %s: entry k is then the k-th party visited, which is party k only for one role assignment (e.g. evaluator 0)" % (nm, why), where(b, pushes[rl][0]),
                        key="C01.g|%s|%s" % (b.owner.rsplit("::", 1)[-1], nm))
    res.count("pushed_vectors_read_by_party_number", n)
    if not bad:
        res.ok("C01.g", "engine", "", "%d vector(s) filled with push and read by party number: each filled once per party in party order" % n)
