"""C12 - result independent of scheduling; never two sends / two receives outstanding per peer
(structural part)."""
import r2, r8

META = {
    "level": "other",
    "explanation": "Channel-discipline rules over rustc MIR and the resolved call graph, valid for every schedule and buffer size because "
                   "they are facts of the code shape: (R8.join) at every try_join_all the per-element future addresses only the element "
                   "of an iteration over pairwise distinct peers, at every try_join / try_join! the branches are direction-disjoint; "
                   "(R8.seq) outside joins each channel operation's await completes (Ready edge dominance) before the next one is "
                   "created; (R8.pair/order) every label has a sender and a receiver and, under role branches, both sides run it after "
                   "the same set of earlier labels; (R8.dual) the pairwise OT sessions of aBit run in mirrored order selected by an order "
                   "comparison of the party indices. Termination with the correct result additionally needs equal chunk counts and a "
                   "fair Channel, which are not decided here.",
    "assumptions": ["distinctness of p_out entries is enforced by validate() (C18 R10.dup)", "channels are per-pair FIFO without sub-streams"],
}


def run(ctx, res):
    S = r2.get_sec(ctx)
    r8.rule_joins(S, res)
    r8.rule_sequential(S, res)
    r8.rule_consumers(S, res)
    r8.rule_burst(S, res)
    r8.rule_roles(S, res)
