"""C04 - preprocessing: cheating detected, commit-before-reveal, challenge-after-data."""
import r2, r3

META = {
    "level": "other",
    "explanation": "Static rules over rustc MIR of polytune's preprocessing: (R2.0/R2.1) every receive label reachable from mpc has an "
                   "entry in the obligation table and reaches the demanded fail-closed abort checks, classified by the ingredients of the "
                   "branch condition (received MAC / bit, Delta, open_commitment, point validation, clmul correlation, literal range, zero "
                   "test); (R2.1c) every received commitment component is opened; (R2.3) received bits are only used after their MAC check; "
                   "(R2.6) consistency-critical labels use the verified broadcast and the echo layer is fail-closed; (R3) the completed await "
                   "of each commit round dominates the creation of the reveal round and the revealed local is the committed one; (R3.bind-id) commitments whose openings are accepted through a symmetric fold "
                   "with the own value (coin tossing, Pi_LaAND zero-sum) contain the id of the committing party as data and are opened against the "
                   "sender's id; (R4) every "
                   "draw from / clone of a shared ChaCha20 generator is enumerated. Decides presence, placement and fail-closedness of the "
                   "checks for every index, party and history; does not decide their cryptographic soundness error.",
    "assumptions": [
        "message component = value reached from a receive result through structure-preserving MIR edges inside the receiving function",
        "a check is an abort check iff one branch edge cannot reach an Ok(..) construction and another can",
        "BLAKE3 commitments are binding/hiding; curve25519-dalek rejects non-points; MAC forgery probability is not analysed",
    ],
}


def run(ctx, res):
    S = r2.get_sec(ctx)
    labs, cl = r2.rule_inventory(S, res, {"pre"})
    cs = r2.rule_checks(S, res, {"pre"}, labs)
    r2.rule_bit_use(S, res, {"pre"}, cs)
    r2.rule_unconditional(S, res, {"pre"}, cs)
    r2.rule_per_element(S, res, {"pre"}, cs)
    r2.rule_conjunct(S, res, {"pre"}, cs)
    r2.rule_adaptor_polarity(S, res, {"pre"}, cs)
    r2.rule_verified(S, res, {"pre"}, labs)
    r2.rule_broadcast_impl(S, res)
    r3.rule_commit_components(S, res)
    r3.rule_order(S, res)
    r3.rule_commit_binding(S, res)
    r3.rule_bind_id(S, res)
    r3.rule_coins(S, res)
    r3.rule_replicated_draw(S, res)
    # the claimed check bit of the aShare round arrives with MACs under the recipients' keys and
    # must be MAC-checked before it selects d0/d1 (root of the C07 leak as well)
    r2.rule_claimed_bit(S, res, cs)
