"""C03 - tampering with authenticated values in the online phase makes the victim abort."""
import r2
from mir import callee_names
from an import where
from common import fl

META = {
    "level": "other",
    "explanation": "Per authenticated field of each online-phase message (input mask share, masked-input broadcast, wire label, garbled "
                   "row, share inside a row, output mask share, evaluator's revealed value+label): the consuming party has a fail-closed "
                   "abort check with the right ingredients (R2.1), the received bit is used only behind it (R2.3), absent shares are "
                   "errors (R2.4), masked inputs use the verified broadcast and conflicting masks are rejected (R2.6), and the AEAD result "
                   "of garble::decrypt is propagated as Err - not unwrapped (R-ERR.decrypt). Decides existence / placement / fail-closedness "
                   "for every register, row, recipient and role; unforgeability of MAC and AEAD is assumed. (R2.key) the AEAD key and nonce of a garbled row bind all four GarblingKey components: the writes into the key / nonce arrays have pairwise disjoint constant byte ranges and every field reaches one.",
    "assumptions": ["ChaCha20-Poly1305 rejects altered ciphertexts; IT-MAC forgery probability 2^-128 is not analysed"],
}


def run(ctx, res):
    S = r2.get_sec(ctx)
    labs, cl = r2.rule_inventory(S, res, {"online"})
    cs = r2.rule_checks(S, res, {"online"}, labs)
    r2.rule_bit_use(S, res, {"online"}, cs)
    r2.rule_presence(S, res, {"online"}, cs)
    r2.rule_unconditional(S, res, {"online"}, cs)
    r2.rule_per_element(S, res, {"online"}, cs)
    r2.rule_conjunct(S, res, {"online"}, cs)
    r2.rule_adaptor_polarity(S, res, {"online"}, cs)
    r2.rule_conflict_covers_own(S, res, cs)
    r2.rule_check_before_send(S, res, {"online"}, cs)
    r2.rule_verified(S, res, {"online"}, labs)
    # the echo round behind the verified broadcast of `masked inputs` (shared with C04)
    r2.rule_broadcast_impl(S, res)
    rule_decrypt_result(S, res)


def rule_decrypt_result(S, res):
    """The Result of garble::decrypt must be `?`-propagated / matched fail-closed, never unwrapped."""
    fg = S.fg
    n = 0
    for bk, bi, t, targets in fg.calls:
        if "polytune::mpc::garble::decrypt" not in callee_names(t):
            continue
        b = fg.bodies[bk]
        if not b.owner.startswith("polytune::mpc::protocol"):
            continue
        n += 1
        d = t["d"]["l"]
        nb = t["t"]
        tt = b.blocks[nb]["t"] if nb is not None else None
        names = callee_names(tt) if tt and tt["k"] == "call" else []
        inst = "%s|decrypt" % b.owner.rsplit("::", 1)[-1]
        if any(x.endswith("::expect") or x.endswith("::unwrap") or x.endswith("unwrap_or_default") or x.endswith("::unwrap_or") or x.endswith("unwrap_or_else") for x in names):
            res.bad("R-ERR.decrypt", inst, "a garbled row that fails AEAD decryption (tampered row or label) makes the evaluator %s instead of returning Err" % names[0].rsplit("::", 1)[-1], where(b, bi),
                    key="R-ERR.decrypt|%s" % b.owner.rsplit("::", 1)[-1])
        elif any(x.endswith("::branch") for x in names):
            res.ok("R-ERR.decrypt", inst, where(b, bi), "decrypt(..)? : decryption failure is returned as Err")
        else:
            # matched explicitly: the Err arm must be fail-closed
            from props.c18 import switch_after_call
            sw = switch_after_call(b, bi)
            from an import edge_fail_closed
            if sw and edge_fail_closed(b, sw[0], sw[1].get("1", sw[2]))[0]:
                res.ok("R-ERR.decrypt", inst, where(b, bi), "decryption failure handled fail-closed")
            else:
                res.bad("R-ERR.decrypt", inst, "the result of garble::decrypt is not propagated as an error", where(b, bi), key="R-ERR.decrypt|%s" % b.owner.rsplit("::", 1)[-1])
    res.floor("decrypt_call_sites", n, 1)
    r2.rule_row_key_binding(S, res)
