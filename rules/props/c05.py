"""C05 - only designated output parties obtain the result (rule family R5).

Decided structurally, for every output set / evaluator / circuit at once:
  R5.phase   which functions run after input_processing (dominance in _mpc)
  R5.send    every send in that phase is a plain send_to whose recipient is drawn from
             Context.p_out (minus self) and from nothing else
  R5.slot    every slot written into such a payload is indexed by a register taken from
             circ.output_regs (nothing else writes the payload)
  R5.recv    every receive in that phase is guarded by membership of p_own in p_out
  R5.result  the vector returned by `output` is only filled under p_out.contains(&p_own);
             _mpc returns exactly that vector
  R5.silent  `evaluate` (and anything else in the phase without a send obligation) performs no
             channel operation
"""
from mir import callee, callee_names
from an import (SliceInfo, root_local, CallGraph, defs_of, peel, true_edges_of_call, site_dominated_by_edge,
                construction_chain, where, ret_blocks)
from env import engine, CTX, CIRC, find_owner
from chan import PRIMS
from common import fl

META = {
    "level": "other",
    "explanation": "Who-may-send analysis over the type-checked MIR of polytune: all channel call sites reachable "
                   "from the functions that `_mpc` runs after `input_processing` are enumerated through the resolved "
                   "call graph; each send's recipient operand and each payload slot index is traced by backward value "
                   "flow to the Context / Circuit fields it is drawn from; each receive and each write to the result "
                   "vector must be dominated by the true edge of `p_out.contains(&p_own)`. Decides the structural "
                   "who-is-sent-what clause for all output sets, evaluators and circuits; does not decide what a "
                   "non-output party could infer from preprocessing traffic.",
    "assumptions": [
        "value-flow graph over-approximates dependence (extern calls: result depends on all arguments)",
        "Channel implementations deliver a message only to the addressed party",
        "rustc nightly MIR of the analysed configuration (x86_64, default features) equals what ships",
    ],
}


def post_input_functions(fg, res):
    """Local callees invoked in `_mpc` after the call to input_processing (dominance)."""
    prog = fg.prog
    mpc_owner = find_owner(prog, "mpc::protocol::_mpc")
    ip_owner = find_owner(prog, "mpc::protocol::input_processing")
    if not mpc_owner or not ip_owner:
        res.bad("R5.phase", "_mpc/input_processing", "cannot locate polytune::mpc::protocol::_mpc or input_processing")
        return None, []
    after = []
    host = None
    for bk, b in fg.bodies.items():
        if b.owner != mpc_owner:
            continue
        ip_blocks = [bi for bi, t in b.calls() if ip_owner in callee_names(t)]
        if not ip_blocks:
            continue
        host = (bk, b, ip_blocks[0])
        for bi, t in b.calls():
            if bi == ip_blocks[0]:
                continue
            if not b.dominates(ip_blocks[0], bi) or bi not in b.live_blocks():
                continue
            for (cbk, cbi, ct, targets) in []:
                pass
            d, fr = callee(t)
            if d is None:
                continue
            for n in callee_names(t):
                ks = fg.by_id.get(n, [])
                for k in ks:
                    cb = fg.bodies[k]
                    if cb.krate == "polytune" and cb.owner not in (mpc_owner, ip_owner) and not cb.owner.startswith("polytune::mpc::protocol::Error") and "tracing" not in cb.owner:
                        after.append((cb.owner, bi))
    if host is None:
        res.bad("R5.phase", "_mpc", "no call to input_processing found in _mpc")
        return None, []
    return host, after


def run(ctx, res):
    bodies, fg, inv, cg = engine(ctx)
    prog = ctx.prog
    host, after = post_input_functions(fg, res)
    if host is None:
        return
    hbk, hb, ipblock = host
    owners = []
    for o, bi in after:
        if o not in owners:
            owners.append(o)
    # keep only functions of the protocol itself (not trait glue like From::from / Drop)
    phase_fns = [o for o in owners if o.startswith("polytune::mpc::protocol::") and "<impl" not in o and "::{impl" not in o]
    res.count("post_input_functions", len(phase_fns))
    res.ok("R5.phase", ",".join(x.rsplit("::", 1)[-1] for x in phase_fns), where(hb, ipblock), "functions _mpc runs after input_processing completed")
    if not any(o.endswith("::output") for o in phase_fns) or not any(o.endswith("::evaluate") for o in phase_fns):
        res.bad("R5.phase", "output/evaluate", "expected `evaluate` and `output` to run after input_processing; got %s" % phase_fns, where(hb, ipblock))
    roots = [k for k, b in fg.bodies.items() if b.owner in phase_fns]
    closure = cg.closure(roots)
    # plus the tail of _mpc itself
    phase_sites = []
    for s in inv.sites:
        if s.bk in closure and s.body.owner not in PRIMS:
            phase_sites.append(s)
        elif s.body.owner == hb.owner and s.bk == hbk and hb.dominates(ipblock, s.block):
            phase_sites.append(s)
    res.need("R5.phase", "post_input_channel_sites", len(phase_sites), 4, "channel operations after input processing (2 sends, 2 receives of the output phase)")

    contains_edges = {}   # body key -> [(switch block, true target)]
    contains_sites = 0
    for bk in closure | {hbk}:
        b = fg.bodies[bk]

        def is_member_test(bi, t):
            if not any(n.endswith("::contains") for n in callee_names(t)):
                return False
            if len(t["args"]) != 2:
                return False
            a = SliceInfo(fg, fg.operand_nodes(bk, t["args"][0]))
            e = SliceInfo(fg, fg.operand_nodes(bk, t["args"][1]))
            return a.field_names(CTX) == {"p_out"} and e.field_names(CTX) == {"p_own"}
        for cb, sb, tr, fa in true_edges_of_call(b, is_member_test):
            contains_edges.setdefault(bk, []).append((sb, tr))
            contains_sites += 1
    res.count("membership_tests", contains_sites)

    send_sites = [s for s in phase_sites if PRIMS[s.prim][1]]
    recv_sites = [s for s in phase_sites if PRIMS[s.prim][2] and not PRIMS[s.prim][1]]
    res.count("post_input_sends", len(send_sites))
    for s in send_sites:
        b = s.body
        lab = "/".join(s.label or ["?"])
        w = fl(s.sp)
        if s.kind != "send":
            res.bad("R5.send", "%s|%s" % (b.owner.rsplit("::", 1)[-1], lab),
                    "a %s in the output phase addresses every party, not only members of the output set" % s.kind, w)
            continue
        party = s.term["args"][1]
        if party["k"] == "const":
            res.bad("R5.send", "%s|%s|recipient" % (b.owner.rsplit("::", 1)[-1], lab), "recipient is a literal party index", w)
            continue
        si = SliceInfo(fg, fg.operand_nodes(s.bk, party))
        srcs = si.field_names(CTX)
        other = {n for n in si.fields if n[1] != CTX}
        problems = []
        if "p_out" not in srcs:
            problems.append("recipient is not drawn from Context.p_out (sources: %s)" % sorted(srcs))
        extra = srcs - {"p_out", "p_own"}
        if extra:
            problems.append("recipient also depends on Context.%s" % ",".join(sorted(extra)))
        if other:
            problems.append("recipient depends on %s" % sorted("%s.%s" % (n[1].rsplit("::", 1)[-1], n[2]) for n in other))
        if si.ranges:
            problems.append("recipient ranges over an integer interval (%s)" % where(si.ranges[0][0], si.ranges[0][1], si.ranges[0][2]))
        if si.prims:
            problems.append("recipient depends on received data")
        if problems:
            res.bad("R5.send", "%s|%s|recipient" % (b.owner.rsplit("::", 1)[-1], lab), "; ".join(problems), w,
                    witness=[fg.describe_node(n) for n in list(si.reach)[:40]])
        else:
            res.ok("R5.send", "%s|%s|recipient" % (b.owner.rsplit("::", 1)[-1], lab), w, "recipient sources = Context.{%s}" % ",".join(sorted(srcs)))
        # payload slots
        check_payload_slots(fg, s, res, lab)
    # receives guarded by membership
    for s in recv_sites:
        b = s.body
        lab = "/".join(s.label or ["?"])
        inst = "%s|%s" % (b.owner.rsplit("::", 1)[-1], lab)
        if site_dominated_by_edge(fg, s.bk, s.block, contains_edges):
            res.ok("R5.recv", inst, fl(s.sp), "receive only when p_out.contains(&p_own)")
        else:
            res.bad("R5.recv", inst, "receive in the output phase is not conditioned on membership of the own party in the output set "
                    "(a non-member would wait for / consume opening material)", fl(s.sp))
    # silent functions: every phase function without sites must have none in its call closure
    for o in phase_fns:
        ks = [k for k, b in fg.bodies.items() if b.owner == o]
        cl = cg.closure(ks)
        n = [s for s in inv.sites if s.bk in cl and s.body.owner not in PRIMS]
        if o.endswith("::evaluate"):
            if n:
                res.bad("R5.silent", "evaluate", "evaluate performs channel operations: %s" % n[:3], fl(n[0].sp))
            else:
                res.ok("R5.silent", "evaluate", "", "no channel primitive reachable from evaluate (%d bodies)" % len(cl))
    check_result_vector(fg, res, contains_edges, hbk, hb)


def payload_vec_local(fg, s):
    """The Vec local that backs the payload slice of a send_to call, or None."""
    b = s.body
    l = root_local(b, s.term["args"][3])
    if l is None:
        return None
    if not b.locals[l]["ty"].startswith("alloc::vec::Vec<"):
        return None
    # `let outputs = build(..)` with the builder spliced in (rules/inline.py): the named local is a plain move of the
    # vector the builder filled
    from an import single_def
    for _ in range(6):
        d = single_def(b, l)
        if d is None or d[1] == "t":
            break
        r = d[2]
        if r["k"] == "use" and r["o"]["k"] == "move" and not r["o"]["p"]["pr"] and b.locals[r["o"]["p"]["l"]]["ty"] == b.locals[l]["ty"]:
            l = r["o"]["p"]["l"]
            continue
        break
    return l


def lift_to_builder(fg, bk, b, operand, depth=0):
    """A send that sits in the future of an async helper spliced into its caller (rules/inline.py): the payload is a
    captured variable of that future; follow it to the operand it was built from in the calling body."""
    from an import single_def
    if depth > 4 or not b.j.get("reowned_from") or operand["k"] == "const":
        return bk, b, operand
    cur = operand
    fld = None
    for _ in range(12):
        pl = cur["p"]
        if pl["l"] == 1:
            for e in pl["pr"]:
                if isinstance(e, dict) and "f" in e:
                    fld = e["f"]
                    break
            break
        d = single_def(b, pl["l"])
        if d is None:
            break
        _bi, si, r = d
        if si == "t":
            cn = callee_names(r)
            if cn and cn[-1].rsplit("::", 1)[-1] in ("deref", "as_ref", "as_slice", "borrow") and r["args"] and r["args"][0]["k"] != "const":
                cur = r["args"][0]
                continue
            break
        if r["k"] == "use" and r["o"]["k"] != "const":
            cur = r["o"]
            continue
        if r["k"] == "ref":
            cur = {"k": "copy", "p": r["p"]}
            continue
        break
    if fld is None:
        return bk, b, operand
    for hk, hb in fg.bodies.items():
        if hb.owner != b.owner or hb is b:
            continue
        for blk in hb.blocks:
            if blk.get("thr"):
                continue
            for st in blk["s"]:
                if st["k"] == "assign" and st["r"]["k"] == "agg" and st["r"].get("def") == b.id and fld < len(st["r"]["ops"]):
                    return lift_to_builder(fg, hk, hb, st["r"]["ops"][fld], depth + 1)
    return bk, b, operand


def check_payload_slots(fg, s, res, lab):
    b = s.body
    fn = b.owner.rsplit("::", 1)[-1]
    lbk, lb, lop = lift_to_builder(fg, s.bk, s.body, s.term["args"][3])
    if lb is not b:
        class _S:
            pass
        s2 = _S()
        s2.body, s2.bk, s2.sp = lb, lbk, s.sp
        s2.term = {"args": [None, None, None, lop]}
        s = s2
        b = lb
    v = payload_vec_local(fg, s)
    inst = "%s|%s|slots" % (fn, lab)
    if v is None:
        res.bad("R5.slot", inst, "cannot identify the payload vector of this send (payload is not a local Vec filled in place)", fl(s.sp))
        return
    # all &mut uses of v
    writes = 0
    bad = []
    # locals that are &mut v
    mut_refs = set()
    for bi, blk in enumerate(b.blocks):
        for si_, st in enumerate(blk["s"]):
            if st["k"] == "assign" and st["r"]["k"] == "ref" and st["r"]["m"] == "mut" and st["r"]["p"]["l"] == v:
                mut_refs.add(st["p"]["l"])
            # direct assignment into the vector's places
            if st["k"] == "assign" and st["p"]["l"] == v and st["p"]["pr"]:
                bad.append((bi, "direct write into payload vector"))
    for bi, t in b.calls():
        uses = [a for a in t["args"] if a["k"] in ("copy", "move") and a["p"]["l"] in mut_refs and not a["p"]["pr"]]
        if not uses:
            continue
        names = callee_names(t)
        if any(n.endswith("IndexMut::index_mut") or "::index_mut" in n for n in names):
            writes += 1
            idx = t["args"][1]
            if idx["k"] == "const":
                bad.append((bi, "slot index is a literal"))
                continue
            si = SliceInfo(fg, fg.operand_nodes(s.bk, idx))
            circ = si.field_names(CIRC)
            cx = si.field_names(CTX)
            if circ != {"output_regs"} or si.ranges or (cx - {"circ"}):
                bad.append((bi, "slot index is drawn from Circuit.{%s}%s%s instead of Circuit.output_regs only" % (
                    ",".join(sorted(circ)), " Context.{%s}" % ",".join(sorted(cx)) if cx else "", " and an integer range" if si.ranges else "")))
        else:
            bad.append((bi, "payload vector is modified by %s (only indexed stores at output registers are allowed)" % names[0]))
    if bad:
        for bi, m in bad:
            res.bad("R5.slot", inst, m, where(b, bi))
    elif writes == 0:
        res.bad("R5.slot", inst, "no indexed store into the payload found (payload built elsewhere?)", fl(s.sp))
    else:
        res.ok("R5.slot", inst, fl(s.sp), "%d indexed store(s), every index drawn from Circuit.output_regs" % writes)


def check_result_vector(fg, res, contains_edges, hbk, hb):
    prog = fg.prog
    out_owner = find_owner(prog, "mpc::protocol::output")
    if not out_owner:
        res.bad("R5.result", "output", "cannot locate polytune::mpc::protocol::output")
        return
    found = False
    for bk, b in fg.bodies.items():
        if b.owner != out_owner:
            continue
        rb = ret_blocks(b)
        for bi in sorted(rb.get("Ok", ())):
            for s in b.blocks[bi]["s"]:
                if s["k"] == "assign" and s["p"]["l"] == 0 and s["r"]["k"] == "agg" and s["r"].get("variant") == "Ok":
                    op = s["r"]["ops"][0]
                    if op["k"] == "const" or "m:instrument" in s["sp"]:
                        continue
                    v = root_local(b, op)
                    if v is None:
                        continue
                    if not b.locals[v]["ty"].startswith("alloc::vec::Vec<bool"):
                        continue
                    found = True
                    check_vec_fill(fg, res, bk, b, v, contains_edges)
    if not found:
        res.bad("R5.result", "output|result", "cannot locate the Vec<bool> returned by output()")
    # _mpc returns output's vector
    mrb = ret_blocks(hb)
    okb = sorted(mrb.get("Ok", ()))
    good = False
    for bi in okb:
        for s in hb.blocks[bi]["s"]:
            if s["k"] == "assign" and s["p"]["l"] == 0 and s["r"]["k"] == "agg" and s["r"].get("variant") == "Ok":
                op = s["r"]["ops"][0]
                if op["k"] == "const":
                    continue
                fam = {k for k, bb in fg.bodies.items() if bb.owner == hb.owner}
                back = fg.backward(fg.operand_nodes(hbk, op), node_ok=lambda n: n[0] != "F" and n[0] in fam | {k for k, bb in fg.bodies.items() if bb.owner == out_owner})
                srcs = set()
                for n, e in back.items():
                    if e is not None and e.kind in ("ret", "future", "closret") and n[0] not in fam:
                        srcs.add(fg.bodies[n[0]].owner)
                # every foreign value entering must come from output()
                ext = set()
                for n, e in back.items():
                    if e is not None and e.kind in ("ret", "call", "future") and e.info and isinstance(e.info, dict):
                        for nm in e.info.get("names", []):
                            if nm.startswith("polytune::mpc::protocol::") and not nm.startswith(hb.owner):
                                ext.add(nm)
                # (the future of an async helper that was spliced into output() belongs to output())
                bad_ext = {x for x in ext if not x.startswith(out_owner) and not any(fg.bodies[k_].owner == out_owner for k_ in fg.by_id.get(x, []))}
                if bad_ext:
                    res.bad("R5.result", "_mpc|returns", "_mpc's Ok value depends on %s, not only on output()" % sorted(bad_ext), where(hb, bi))
                else:
                    good = True
    if good:
        res.ok("R5.result", "_mpc|returns", "", "_mpc returns the vector produced by output()")
    elif not okb:
        res.bad("R5.result", "_mpc|returns", "no Ok(..) construction found in _mpc")


def check_vec_fill(fg, res, bk, b, v, contains_edges):
    mut_refs = set()
    problems = []
    fills = 0
    for bi, blk in enumerate(b.blocks):
        for si_, st in enumerate(blk["s"]):
            if st["k"] == "assign" and st["r"]["k"] == "ref" and st["r"]["m"] == "mut" and st["r"]["p"]["l"] == v:
                mut_refs.add(st["p"]["l"])
    for bi, si_, r in defs_of(b, v):
        if si_ == "t":
            names = callee_names(r)
            if any(n.endswith("Vec::<T>::new") or n.endswith("::Vec::new") or n.endswith("::new") and "vec" in n.lower() for n in names):
                continue
            if not site_dominated_by_edge(fg, bk, bi, contains_edges):
                problems.append((bi, "result vector initialised from %s outside the membership guard" % names[:1]))
            fills += 1
        else:
            if r["k"] == "use" and r["o"]["k"] != "const":
                if not site_dominated_by_edge(fg, bk, bi, contains_edges):
                    problems.append((bi, "result vector assigned from another value outside the membership guard"))
                fills += 1
    for bi, t in b.calls():
        uses = [a for a in t["args"] if a["k"] in ("copy", "move") and a["p"]["l"] in mut_refs and not a["p"]["pr"]]
        if not uses:
            continue
        fills += 1
        if not site_dominated_by_edge(fg, bk, bi, contains_edges):
            problems.append((bi, "result vector is extended by %s without p_out.contains(&p_own) holding" % callee_names(t)[:1]))
    if problems:
        for bi, m in problems:
            res.bad("R5.result", "output|result", m, where(b, bi))
    else:
        res.ok("R5.result", "output|result", "", "%d fill site(s), all dominated by the true edge of p_out.contains(&p_own)" % fills)
