"""C15 - server core state machine rules (see rules/srv.py, DESIGN.md R9)."""
from srv import Srv
from props.srv_meta import META_C15 as META


def run(ctx, res):
    Srv(ctx, res).c15()
