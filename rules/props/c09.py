"""C09 - communication pattern and message sizes do not depend on private inputs (structural part)."""
import r2, r7

META = {
    "level": "other",
    "explanation": "(R7.1) the fixed-width bincode configuration legacy() is the only codec configuration constructed in the crate and "
                   "send_to / recv_from encode through utils::serde; (R7.2) value taint from own secrets (Delta, Key, Label, Share, private "
                   "inputs, private entropy; lengths / Option discriminants / iterator exhaustion are shape) is propagated over the "
                   "whole-program flow graph and every branch whose condition is secret-tainted - other than abort checks - must have a "
                   "control-dependence region without channel operations, awaits, length-changing container calls or Some/None decisions "
                   "of message slots, and no filter-like adaptor may decide on a secret-dependent closure result; (R7.3) expected-length "
                   "arguments are secret-free. Byte-exact lengths and timing are not decided.",
    "assumptions": ["bincode legacy config encodes integers fixed-width and Option as 1 tag byte + payload", "AEAD rows have a length that depends only on the plaintext length"],
}


def run(ctx, res):
    S = r2.get_sec(ctx)
    r7.rule_codec(S, res)
    sn = r7.rule_secret_branches(S, res)
    r7.rule_lengths(S, res, sn)
