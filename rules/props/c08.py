"""C08 - hostile or vanishing peers cause an error return, never a panic or a hang."""
import r1, r2
from props.c03 import rule_decrypt_result

META = {
    "level": "other",
    "explanation": "(R1.serde) wire types are decoded by derived serde implementations only - no hand-written byte-buffer / string decoding, which makes bincode allocate the length a peer claims. Type-resolved enumeration of panic-capable operations on message components in everything reachable from polytune::mpc: "
                   "(R1.i) index / slice / split / copy_from_slice on a vector of a received message below the nesting level whose length the "
                   "receive primitive validated must sit behind a fail-closed length test; (R1.iii) unwrap/expect on values derived from a "
                   "message (incl. the AEAD plaintext and decrypt's Result) is forbidden except conversions of length-validated vectors; "
                   "(R1.ii/alloc) no received integer reaches an index, bound, divisor or allocation size; (R1.iv) index sinks on own data that "
                   "only run under a peer-chosen Some are enumerated against a reviewed table; (R1.v) no assert!/panic!/unreachable! is control-dependent on a condition over a message component (value or length), "
                   "also in helpers the component is handed to; (R1.vi) a vector whose length is decided by message contents (collected through "
                   "filter/filter_map/flatten/.. looking at a component, or pushed to under a test of one) reaches no index in any function it "
                   "travels to (type-directed interprocedural flow) without a dominating fail-closed length test; (R1.raw) inside the receive primitives the raw bytes from the user's Channel are only handed to the decoder, never indexed / split / sliced; (R-ERR) no Result of the channel / protocol "
                   "error types is discarded; (R1.wait) every await polls engine futures only and no std MutexGuard lives across a yield. "
                   "These are site enumerations over all CFG paths: they cover every malformed message at every receive without guessing the "
                   "message. Time bounds, the user-supplied Channel and bincode internals are not decided.",
    "assumptions": [
        "bincode+serde decoding caps pre-allocation and fails on truncated input (dependency contract)",
        "own containers indexed by own indices panic in honest runs too and are out of scope (would show in the test suite)",
        "a user supplied Channel returns an error when its peer is gone; SimpleChannel (test double) is excluded",
    ],
}


def run(ctx, res):
    S = r2.get_sec(ctx)
    r2.enrich(S)
    r1.rule_peer_shaped_sinks(S, res)
    r1.rule_peer_scalar(S, res)
    r1.rule_peer_length_arith(S, res)
    r1.rule_peer_controlled_sinks(S, res)
    r1.rule_peer_controlled_panics(S, res)
    r1.rule_peer_sized_containers(S, res)
    r1.rule_raw_bytes(S, res)
    r1.rule_wire_decoding(S, res)
    rule_decrypt_result(S, res)
    r1.rule_err_not_dropped(S, res)
    r1.rule_wait_only_on_channel(S, res)
