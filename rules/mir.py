"""Loader for polyscan-driver fact files + CFG utilities + pretty printer.

All rule modules work on these objects; nothing here runs /repo code."""
import json, os, sys, re
from collections import defaultdict


class Body:
    __slots__ = ("j", "id", "kind", "owner", "parent", "krate", "blocks", "locals", "argc", "span",
                 "_succ", "_pred", "_dom", "_pdom", "_idom", "_ipdom", "is_coroutine", "upvars", "debug",
                 "_defs", "_reach")

    def __init__(self, j, krate):
        self.j = j
        self.id = j["id"]
        self.kind = j["kind"]
        self.owner = j["owner"]
        self.parent = j.get("parent")
        self.krate = krate
        self.blocks = j["blocks"]
        self.locals = j["locals"]
        self.argc = j["argc"]
        self.span = j["span"]
        self.is_coroutine = j.get("coroutine") is not None
        self.upvars = j.get("upvars") or []
        self.debug = j.get("debug") or []
        self._succ = None
        self._pred = None
        self._dom = None
        self._pdom = None
        self._idom = None
        self._ipdom = None
        self._defs = None
        self._reach = {}

    # ------------------------------------------------------------ CFG
    def succ(self):
        """Normal-control-flow successors (no unwind edges, no coroutine-drop edges)."""
        if self._succ is None:
            s = []
            for b in self.blocks:
                t = b["t"]
                k = t["k"]
                if k == "goto":
                    s.append([t["t"]])
                elif k == "switch":
                    out = []
                    for _, tb in t["ts"]:
                        if tb not in out:
                            out.append(tb)
                    if t["else"] not in out:
                        out.append(t["else"])
                    s.append(out)
                elif k in ("drop", "assert", "yield"):
                    s.append([t["t"]])
                elif k == "call":
                    s.append([t["t"]] if t["t"] is not None else [])
                else:
                    s.append([])
            self._succ = s
        return self._succ

    def pred(self):
        if self._pred is None:
            p = [[] for _ in self.blocks]
            for i, ss in enumerate(self.succ()):
                for x in ss:
                    p[x].append(i)
            self._pred = p
        return self._pred

    def reachable_from(self, start, avoid=frozenset(), avoid_edges=frozenset()):
        """Blocks reachable from `start` (inclusive) without entering blocks in `avoid`
        and without traversing edges in avoid_edges (set of (src,dst))."""
        key = (start, avoid, avoid_edges)
        r = self._reach.get(key)
        if r is not None:
            return r
        seen = set()
        if start in avoid:
            self._reach[key] = seen
            return seen
        st = [start]
        seen.add(start)
        succ = self.succ()
        while st:
            x = st.pop()
            for y in succ[x]:
                if y in seen or y in avoid or (x, y) in avoid_edges:
                    continue
                seen.add(y)
                st.append(y)
        self._reach[key] = seen
        return seen

    def live_blocks(self):
        return self.reachable_from(0)

    def _compute_dom(self, succ, pred, root_list, n):
        # iterative dominators (Cooper-Harvey-Kennedy) on given graph; multiple roots joined by virtual root n
        order = []
        seen = set()
        # virtual root
        vsucc = lambda x: root_list if x == n else succ[x]
        st = [(n, iter(vsucc(n)))]
        seen.add(n)
        while st:
            x, it = st[-1]
            adv = False
            for y in it:
                if y not in seen:
                    seen.add(y)
                    st.append((y, iter(vsucc(y))))
                    adv = True
                    break
            if not adv:
                order.append(x)
                st.pop()
        rpo = list(reversed(order))
        num = {x: i for i, x in enumerate(rpo)}
        idom = {n: n}
        vpred = lambda x: (pred[x] + ([n] if x in root_list else [])) if x != n else []
        changed = True
        while changed:
            changed = False
            for x in rpo[1:]:
                new = None
                for p in vpred(x):
                    if p in idom:
                        if new is None:
                            new = p
                        else:
                            a, b = p, new
                            while a != b:
                                while num[a] > num[b]:
                                    a = idom[a]
                                while num[b] > num[a]:
                                    b = idom[b]
                            new = a
                if new is not None and idom.get(x) != new:
                    idom[x] = new
                    changed = True
        return idom

    def idom(self):
        if self._idom is None:
            n = len(self.blocks)
            self._idom = self._compute_dom(self.succ(), self.pred(), [0], n)
        return self._idom

    def ipdom(self):
        """Immediate post-dominators w.r.t. normal exits (return blocks + blocks without successors)."""
        if self._ipdom is None:
            n = len(self.blocks)
            live = self.live_blocks()
            exits = [i for i in live if not self.succ()[i]]
            self._ipdom = self._compute_dom(self.pred(), self.succ(), exits, n)
        return self._ipdom

    def dominates(self, a, b):
        """block a dominates block b (reflexive)."""
        idom = self.idom()
        n = len(self.blocks)
        x = b
        while True:
            if x == a:
                return True
            if x not in idom or idom[x] == x or idom[x] == n:
                return x == a
            x = idom[x]

    def postdominates(self, a, b):
        ip = self.ipdom()
        n = len(self.blocks)
        x = b
        while True:
            if x == a:
                return True
            if x not in ip or ip[x] == x or ip[x] == n:
                return x == a
            x = ip[x]

    def edge_dominates(self, src, dst, b):
        """Every path from entry to block b passes through edge src->dst."""
        if b not in self.live_blocks():
            return True
        r = self.reachable_from(0, frozenset(), frozenset([(src, dst)]))
        return b not in r

    # ------------------------------------------------------------ misc
    def local_name(self, l):
        return self.locals[l]["name"]

    def local_ty(self, l):
        return self.locals[l]["ty"]

    def calls(self):
        for bi, b in enumerate(self.blocks):
            t = b["t"]
            if t["k"] in ("call", "tailcall"):
                yield bi, t

    def file_line(self, sp):
        return sp.split("|")[0]


def callee(t):
    """(def path, fn-ref dict) of a call terminator, or (None, None) for indirect calls."""
    f = t["f"]
    if f["k"] == "const" and "fn" in f:
        return f["fn"]["def"], f["fn"]
    return None, None


def callee_names(t):
    """All names a call may be matched by: def path and resolved impl path."""
    d, fr = callee(t)
    if d is None:
        return []
    out = [d]
    if fr.get("res"):
        out.append(fr["res"])
    return out


class Program:
    def __init__(self, factdir, inline=True):
        self.crates = {}
        self.inlined = []
        self.bodies = {}
        self.adts = {}
        self.impls = []
        self.by_owner = defaultdict(list)
        self.children = defaultdict(list)
        self.files = []
        for fn in sorted(os.listdir(factdir)):
            if not fn.endswith(".json"):
                continue
            with open(os.path.join(factdir, fn)) as f:
                d = json.load(f)
            self.files.append(fn)
            kr = d["crate"]
            tag = kr if "Executable" not in "".join(d["crate_types"]) else kr + "[bin]"
            if tag in self.crates and tag == kr:
                tag = kr + "[2]"
            self.crates[tag] = d
            if inline:
                # helper transparency (rules/inline.py): new local helper functions are spliced into their callers
                import inline as _inl
                uniq = {}
                for bj in d["bodies"]:
                    uniq.setdefault(bj["id"], bj)
                n0 = set(uniq)
                self.inlined += _inl.inline_program({tag: uniq})
                d["bodies"] = list(d["bodies"]) + [uniq[k_] for k_ in uniq if k_ not in n0]
            for bj in d["bodies"]:
                if bj.get("inlined_away"):
                    continue
                b = Body(bj, tag)
                key = b.id if "[bin]" not in tag else "[bin]" + b.id
                if key in self.bodies:
                    # derive-generated duplicates (`_::{closure#0}`): disambiguate by span
                    key = key + "@" + b.span
                self.bodies[key] = b
                self.by_owner[(tag, b.owner)].append(b)
                if b.parent:
                    self.children[(tag, b.parent)].append(b)
            for a in d["adts"]:
                self.adts[a["path"]] = a
            for im in d["impls"]:
                im["krate"] = tag
                self.impls.append(im)

    def family(self, owner, krate=None):
        """All bodies whose typeck root is `owner` (the fn itself + nested closures/coroutines)."""
        out = []
        for (k, o), bs in self.by_owner.items():
            if o == owner and (krate is None or k == krate):
                out.extend(bs)
        return out

    def find_fns(self, suffix, krate=None):
        """Owners whose path ends with `suffix` (matched on path-segment boundary)."""
        out = set()
        for (k, o) in self.by_owner:
            if krate is not None and k != krate:
                continue
            if o == suffix or o.endswith("::" + suffix):
                out.add((k, o))
        return sorted(out)


# ------------------------------------------------------------------ pretty printer
def pplace(b, p):
    s = "_%d" % p["l"]
    nm = b.locals[p["l"]]["name"]
    if nm:
        s += "{%s}" % nm
    for e in p["pr"]:
        if e == "*":
            s = "(*%s)" % s
        elif isinstance(e, str):
            s = "%s as %s" % (s, e)
        elif "f" in e:
            s = "%s.%s" % (s, e["n"] if e["n"] is not None else e["f"])
        elif "i" in e:
            s = "%s[_%d]" % (s, e["i"])
        elif "ci" in e:
            s = "%s[%s%d]" % (s, "-" if e["fe"] else "", e["ci"])
        elif "sub" in e:
            s = "%s[%d..%d]" % (s, e["sub"][0], e["sub"][1])
        elif "dc" in e:
            s = "(%s as %s)" % (s, e["dc"])
    return s


def poper(b, o):
    if o["k"] in ("copy", "move"):
        return ("move " if o["k"] == "move" else "") + pplace(b, o["p"])
    if "fn" in o:
        fr = o["fn"]
        s = fr["def"]
        if fr.get("res"):
            s += " =>" + fr["res"]
        return s
    if "str" in o:
        return json.dumps(o["str"])
    if "v" in o:
        return "const %s: %s" % (o["v"], o["ty"])
    return "const<%s>" % o["ty"]


def prval(b, r):
    k = r["k"]
    if k == "use":
        return poper(b, r["o"])
    if k == "ref":
        return "&%s%s" % ("mut " if r["m"] == "mut" else ("fake " if r["m"] == "fake" else ""), pplace(b, r["p"]))
    if k == "bin":
        return "%s(%s, %s)" % (r["op"], poper(b, r["a"]), poper(b, r["b"]))
    if k == "un":
        return "%s(%s)" % (r["op"], poper(b, r["a"]))
    if k == "cast":
        return "%s as %s [%s]" % (poper(b, r["o"]), r["ty"], r["ck"])
    if k == "discr":
        return "discriminant(%s)" % pplace(b, r["p"])
    if k == "agg":
        ops = ", ".join(poper(b, o) for o in r["ops"])
        ak = r["ak"]
        if ak == "adt":
            return "%s::%s{%s}" % (r["adt"], r["variant"], ops)
        if ak in ("closure", "coroutine", "coroutine_closure"):
            return "%s<%s>[%s]" % (ak, r["def"], ops)
        return "%s(%s)" % (ak, ops)
    if k == "repeat":
        return "[%s; %s]" % (poper(b, r["o"]), r["n"])
    if k == "rawptr":
        return "&raw %s" % pplace(b, r["p"])
    return json.dumps(r)


def dump_body(b, out=sys.stdout):
    w = out.write
    w("=== %s  [%s] kind=%s parent=%s span=%s coroutine=%s\n" % (b.id, b.krate, b.kind, b.parent, b.span, b.j.get("coroutine")))
    if b.upvars:
        w("  upvars: %s\n" % b.upvars)
    for i, l in enumerate(b.locals):
        if l["name"] or i <= b.argc:
            w("  let _%d%s: %s\n" % (i, "{%s}" % l["name"] if l["name"] else "", l["ty"]))
    for d in b.debug:
        if d["p"]["pr"]:
            w("  debug %s => %s\n" % (d["name"], pplace(b, d["p"])))
    for bi, blk in enumerate(b.blocks):
        w("  bb%d%s:\n" % (bi, " (cleanup)" if blk["cleanup"] else ""))
        for s in blk["s"]:
            if s["k"] == "assign":
                w("    %s = %s    // %s\n" % (pplace(b, s["p"]), prval(b, s["r"]), s["sp"]))
            elif s["k"] == "setdiscr":
                w("    discriminant(%s) = %d\n" % (pplace(b, s["p"]), s["vi"]))
        t = blk["t"]
        k = t["k"]
        if k == "goto":
            w("    goto bb%d\n" % t["t"])
        elif k == "switch":
            w("    switchInt(%s) -> [%s, otherwise: bb%d]   // %s\n" % (poper(b, t["o"]), ", ".join("%s: bb%d" % (v, tb) for v, tb in t["ts"]), t["else"], t["sp"]))
        elif k == "call":
            w("    %s = %s(%s) -> %s   // %s\n" % (pplace(b, t["d"]), poper(b, t["f"]), ", ".join(poper(b, a) for a in t["args"]), "bb%d" % t["t"] if t["t"] is not None else "!", t["sp"]))
        elif k == "drop":
            w("    drop(%s) -> bb%d\n" % (pplace(b, t["p"]), t["t"]))
        elif k == "assert":
            w("    assert(%s == %s, %s(%s)) -> bb%d   // %s\n" % (poper(b, t["c"]), t["exp"], t["mk"], ", ".join(poper(b, o) for o in t["mops"]), t["t"], t["sp"]))
        elif k == "yield":
            w("    yield(%s) -> bb%d\n" % (poper(b, t["v"]), t["t"]))
        elif k == "return":
            w("    return   // %s\n" % t["sp"])
        else:
            w("    %s\n" % k)


if __name__ == "__main__":
    prog = Program(sys.argv[1])
    pat = sys.argv[2]
    for key, b in prog.bodies.items():
        if re.search(pat, key):
            dump_body(b)
