"""Rule family R2: authenticated receives are checked, checks are fail-closed, used after the
check, present, applied to every element, and verified-broadcast where required."""
from collections import defaultdict
from mir import callee, callee_names
from an import where, edge_fail_closed, defs_of, SliceInfo
from chan import PRIMS, BCAST, BFSS
from common import fl
import sec as secmod

# ---------------------------------------------------------------------------------------------
# Obligation table (DESIGN.md Appendix B).  For every receive label reachable from `mpc`:
#   need:      list of (name, required ingredient set, minimum number of distinct check sites)
#              -- each is an abort check (one edge cannot reach Ok) whose condition contains a
#                 component of that message plus the listed ingredients
#   delegated: label whose checks establish this message's integrity (no direct demand)
#   verified:  must be received through the verified broadcast (faand::broadcast*)
#   bit_rule:  the message carries (bit, MAC) pairs: every use of a received bit must come after
#              the MAC check on the same path (R2.3)
#   presence:  Option slots must be present: the None edge is fail-closed (R2.4)
#   phase:     "online" (C03) or "pre" (C04)
# ---------------------------------------------------------------------------------------------
MAC = {"CMP", "DELTA", "PEER_BIT", "PEER_MAC"}
OBL = {
    "RNG comm": dict(phase="pre", need=[("open-commitment", {"COMMIT"}, 2)], verified="shared_rng"),
    "RNG ver": dict(phase="pre", delegated="RNG comm", why="is the opening of `RNG comm` (checked there)"),
    "CO_OT_s": dict(phase="pre", need=[("point-validation", {"POINT"}, 1)]),
    "CO_OT_r": dict(phase="pre", need=[("point-validation", {"POINT"}, 1)]),
    "CO_OT_c0c1": dict(phase="pre", delegated="KOS_OT_x_t0_t1", why="base-OT payload; inconsistency is caught by the KOS correlation check"),
    "ALSZ_OT_setup": dict(phase="pre", delegated="KOS_OT_x_t0_t1", why="OT-extension matrix; consistency is the KOS correlation check"),
    "ALSZ_OT_y0y1": dict(phase="pre", delegated="KOS_OT_x_t0_t1", why="plain ALSZ OT: only reachable through the class-hierarchy over-approximation of `OT::recv`; mpc instantiates KOS over Chou-Orlandi"),
    "KOS_OT_send": dict(phase="pre", delegated="KOS_OT_x_t0_t1", why="chosen-message KOS OT: only reachable through the class-hierarchy over-approximation of `OT::recv`; mpc uses the correlated variant"),
    "KOS_OT_x_t0_t1": dict(phase="pre", need=[("kos-correlation", {"CMP", "CLMUL"}, 1)]),
    "KOS_OT_corr": dict(phase="pre", delegated="fabitn", why="correlated-OT correction; wrong values surface as wrong MACs in the aBit test"),
    "fabitn": dict(phase="pre", need=[("abit-mac", MAC, 1)], verified=True, bit_rule=True),
    "fashare comm": dict(phase="pre", need=[("open-commitment", {"COMMIT"}, 1)], verified=True),
    "fashare ver": dict(phase="pre", need=[("bit-range", {"CMP", "LIT:1"}, 1)], verified=True),
    "fashare di_bi": dict(phase="pre", need=[("open-commitment", {"COMMIT"}, 1), ("ashare-mac-sum", {"CMP", "PEER_MAC"}, 1)], verified=True),
    "haand": dict(phase="pre", delegated="flaand hash", why="half-authenticated AND messages are validated by the LaAND check"),
    "flaand": dict(phase="pre", delegated="flaand hash", verified=True, why="(e, u_ij): e is verified-broadcast; u_ij is validated by the LaAND check"),
    "flaand comm": dict(phase="pre", need=[("open-commitment", {"COMMIT"}, 1)], verified=True),
    "flaand hash": dict(phase="pre", need=[("open-commitment", {"COMMIT"}, 1), ("laand-zero", {"ZERO"}, 1)], verified=True),
    "dvalue": dict(phase="pre", need=[("dvalue-mac", MAC, 1)], bit_rule=True),
    "faand": dict(phase="pre", need=[("beaver-mac", MAC, 2)], bit_rule=True),
    "preprocessed gates": dict(phase="online", delegated="decrypt", why="rows are AEAD ciphertexts; the plaintext is checked (label `decrypt`)"),
    "decrypt": dict(phase="online", need=[("row-share-mac", MAC | {"KEY"}, 1)], bit_rule=True),
    "wire shares": dict(phase="online", need=[("input-mask-mac", MAC | {"KEY"}, 1)], bit_rule=True, presence=True),
    "masked inputs": dict(phase="online", need=[("conflicting-mask", {"PRESENCE"}, 1)], verified=True),
    "labels": dict(phase="online", delegated="lambda", why="wire labels are authenticated by the AEAD rows they decrypt and by the output label check"),
    "output wire shares": dict(phase="online", need=[("output-mask-mac", MAC | {"KEY"}, 1)], bit_rule=True, presence=True),
    "lambda": dict(phase="online", need=[("output-label", {"CMP", "LABEL", "DELTA", "BIT_BOUND"}, 1)]),
}
DEALER = {"delta", "random shares", "AND shares", "delta (fpre)", "random shares (fpre)", "AND shares (fpre)", "error"}
OTHER_OT = {"ALSZ_OT_y0y1", "ALSZ_OT_y", "KOS_OT_send"}


def get_sec(ctx):
    from env import engine

    def build():
        bodies, fg, inv, cg = engine(ctx)
        return secmod.Sec(fg, inv, cg)
    return ctx.get("sec", build)


def final_targets(b, sw):
    """Successors of a switch block, skipping blocks that only jump on (and storage markers)."""
    out = set()
    t = b.blocks[sw]["t"]
    for x in set([tb for _, tb in t["ts"]] + [t["else"]]):
        cur = x
        for _ in range(8):
            blk = b.blocks[cur]
            real = [s for s in blk["s"] if s["k"] == "assign" and not (s["r"]["k"] == "use" and s["r"]["o"]["k"] == "const")]
            if blk["t"]["k"] == "goto" and not real:
                cur = blk["t"]["t"]
                continue
            break
        out.add(cur)
    return out


def enrich(S):
    """Compound conditions (`a || b`, `!(a || b)`) and the LaAND zero test."""
    fg = S.fg
    cs = S.checks()
    by_block = {(c.bk, c.block): c for c in cs}
    for c in cs:
        b = c.body
        # (1) ingredients of sibling switches of one short-circuit condition: a switch S' whose one
        # edge leads (only through straight-line blocks) to this switch
        cd = S.cdeps(b)
        lp = S.inner_loop(b, c.block)
        for (sw, _succ) in cd.get(c.block, ()):
            if lp is not None and (sw not in lp[1] or sw == lp[0]):
                continue
            t = b.blocks[sw]["t"]
            if t["k"] != "switch" or t["o"]["k"] == "const":
                continue
            # one short-circuit condition: both switches share a (goto-resolved) successor
            if not (final_targets(b, sw) & final_targets(b, c.block)):
                continue
            # sibling must itself test a component of the same message
            back = fg.backward(fg.operand_nodes(c.bk, t["o"]), node_ok=lambda n: n[0] == "F" or n[0] == c.bk, local=True)
            if not any(n in c.comp for n in back) and not any(S.labels_of(n) & c.labels for n in back):
                continue
            for n in back:
                if n[0] == "F":
                    continue
                ty = S.node_ty(n)
                if ty in (secmod.T_DELTA, "&" + secmod.T_DELTA):
                    c.ing.add("DELTA")
                if ty in (secmod.T_LABEL, "&" + secmod.T_LABEL):
                    c.ing.add("LABEL")
            sib = [x for x in S.checks() if x.bk == c.bk and x.block == sw]
            for x in sib:
                if "BIT_BOUND" in x.ing:
                    c.ing.add("BIT_BOUND")
        # (2) zero test: `iter.any(|x| x != 0)` / comparison with literal 0 on accumulated hashes
        for cbi, names in c.calls:
            if any(n.endswith("Iterator::any") or n.endswith("::any") or n.endswith("Iterator::all") for n in names):
                # the closure compares with literal 0
                t = b.blocks[cbi]["t"]
                for a in t["args"]:
                    ty = a["p"]["ty"] if a["k"] != "const" else ""
                    if "{closure:" in ty:
                        cdef = ty[ty.index("{closure:") + 9:-1]
                        for ck in fg.by_id.get(cdef, []):
                            cb = fg.bodies[ck]
                            for blk in cb.blocks:
                                for s in blk["s"]:
                                    if s["k"] == "assign" and s["r"]["k"] == "bin" and s["r"]["op"] in ("Ne", "Eq"):
                                        for o in (s["r"]["a"], s["r"]["b"]):
                                            if o["k"] == "const" and o.get("v") == "0":
                                                c.ing.add("ZERO")
        # (2b) a check written as a searching adaptor (`if msgs.iter().enumerate().any(|(j, m)| m.mac != key ^ ..) { return Err }`):
        # what the predicate compares are the ingredients of the check
        for cbi, names in list(c.calls):
            tl = names[-1].rsplit("::", 1)[-1] if names else ""
            if tl not in ("any", "all", "find", "position", "find_map"):
                continue
            t = b.blocks[cbi]["t"]
            todo = []
            for a in t["args"]:
                ty = a["p"]["ty"] if a["k"] != "const" else ""
                if ty.lstrip("&").replace("mut ", "").startswith("{closure:"):
                    todo.append(ty[ty.index("{closure:") + 9:ty.rindex("}")])
            seen_c = set()
            while todo:
                cdef = todo.pop()
                if cdef in seen_c:
                    continue
                seen_c.add(cdef)
                for ck in fg.by_id.get(cdef, []):
                    cb = fg.bodies[ck]
                    cback = fg.backward([(ck, 0, None)], node_ok=lambda n: n[0] == "F" or n[0] == ck, local=True)
                    clocs = {n[1] for n in cback if n[0] == ck}
                    # `a != x || b != y` is control flow inside the predicate: the conditions that decide which value is
                    # returned belong to what the predicate tests
                    from an import control_deps as _cd0
                    ccd0 = _cd0(cb)
                    for _round in range(3):
                        extra = []
                        for bi2, blk2 in enumerate(cb.blocks):
                            if not any(st["k"] == "assign" and st["p"]["l"] in clocs for st in blk2["s"]):
                                continue
                            for (sw2, _s2) in ccd0.get(bi2, ()):
                                t2 = cb.blocks[sw2]["t"]
                                if t2["k"] == "switch" and t2["o"]["k"] != "const":
                                    extra += [x for x in fg.operand_nodes(ck, t2["o"]) if x not in cback]
                        if not extra:
                            break
                        more = fg.backward(extra, node_ok=lambda n: n[0] == "F" or n[0] == ck, local=True)
                        for x, e_ in more.items():
                            cback.setdefault(x, e_)
                        clocs = {n[1] for n in cback if n[0] == ck}
                    for n in cback:
                        if n[0] == "F":
                            continue
                        ty = S.node_ty(n)
                        if ty in (secmod.T_DELTA, "&" + secmod.T_DELTA):
                            c.ing.add("DELTA")
                        if ty in (secmod.T_KEY, "&" + secmod.T_KEY) or "(polytune::mpc::data_types::Mac, polytune::mpc::data_types::Key)" in ty:
                            c.ing.add("KEY")
                        if ty in (secmod.T_LABEL, "&" + secmod.T_LABEL):
                            c.ing.add("LABEL")
                        if S.labels_of(n) & c.labels:
                            if ty in ("bool", "&bool"):
                                c.ing.add("PEER_BIT")
                                c.ing.add("BIT_BOUND")
                            if secmod.T_MAC in ty or ty in ("u128", "&u128"):
                                c.ing.add("PEER_MAC")
                            c.cond_nodes.setdefault(n, None) if isinstance(c.cond_nodes, dict) else None
                        # a captured place (`delta.0` captured by reference is a `&u128`): what it is in the enclosing body
                        if n[1] == 1 and isinstance(n[2], int):
                            for e_ in fg.inn.get(n, ()):
                                if e_.kind == "upvar" and e_.src[0] != "F":
                                    pb = fg.backward([e_.src], node_ok=lambda x: x[0] == e_.src[0], edge_ok=lambda e2: e2.kind in ("copy", "ref", "base2field", "field2whole"))
                                    for x in pb:
                                        tx = S.node_ty(x)
                                        if tx in (secmod.T_DELTA, "&" + secmod.T_DELTA):
                                            c.ing.add("DELTA")
                                        if tx in (secmod.T_LABEL, "&" + secmod.T_LABEL):
                                            c.ing.add("LABEL")
                    # received bits that steer what is compared (`key ^ if d { delta } else { 0 }`)
                    from an import control_deps as _cd
                    ccd = _cd(cb)
                    for bi2, blk2 in enumerate(cb.blocks):
                        if not any(st["k"] == "assign" and st["p"]["l"] in clocs for st in blk2["s"]):
                            continue
                        for (sw2, _s2) in ccd.get(bi2, ()):
                            t2 = cb.blocks[sw2]["t"]
                            if t2["k"] != "switch" or t2["o"]["k"] == "const" or t2["o"]["p"].get("ty") != "bool":
                                continue
                            sb = fg.backward(fg.operand_nodes(ck, t2["o"]), node_ok=lambda x: x[0] == ck, edge_ok=lambda e2: e2.kind in ("copy", "ref", "un", "base2field", "field2whole"))
                            if any((S.labels_of(x) & c.labels) and S.node_ty(x) in ("bool", "&bool") for x in sb):
                                c.ing.add("PEER_BIT")
                                c.ing.add("BIT_BOUND")
                    for blk in cb.blocks:
                        for st in blk["s"]:
                            if st["k"] == "assign" and st["p"]["l"] in clocs and st["r"]["k"] == "bin" and st["r"]["op"] in ("Ne", "Eq"):
                                c.ing.add("CMP")
                                for o in (st["r"]["a"], st["r"]["b"]):
                                    if o["k"] == "const" and "v" in o:
                                        c.ing.add("LIT:" + o["v"])
                        tt = blk["t"]
                        if tt["k"] == "call" and tt["d"]["l"] in clocs:
                            for n2 in callee_names(tt):
                                tail2 = n2.rsplit("::", 1)[-1]
                                if n2.endswith("faand::open_commitment"):
                                    c.ing.add("COMMIT")
                                if tail2 in ("ne", "eq"):
                                    c.ing.add("CMP")
                                if tail2 == "clmul":
                                    c.ing.add("CLMUL")
                                if tail2 in ("any", "all", "find", "position"):
                                    for a2 in tt["args"]:
                                        ty2 = a2["p"]["ty"] if a2["k"] != "const" else ""
                                        if "{closure:" in ty2:
                                            todo.append(ty2[ty2.index("{closure:") + 9:ty2.rindex("}")])
        if "LIT:0" in c.ing and "CMP" in c.ing and "COMMIT" not in c.ing:
            c.ing.add("ZERO")
    # (3) a check moved into a helper `fn verify(..) -> Result`: the caller's `?` on its result is a
    # check with the helper's ingredients
    by_owner = defaultdict(list)
    for c in cs:
        by_owner[c.body.owner].append(c)
    for c in cs:
        for cbi, names in c.calls:
            for n in names:
                for c2 in by_owner.get(n, []):
                    if c2 is c or c2.body.owner == c.body.owner:
                        continue
                    if c2.labels & c.labels or not c2.labels:
                        c.ing |= {x for x in c2.ing if x not in ("DISCR",)}
    return cs


def reachable_labels(S, roots_owner_suffix="mpc::protocol::mpc"):
    fg, cg, inv = S.fg, S.cg, S.inv
    roots = [k for k, b in fg.bodies.items() if b.owner.endswith(roots_owner_suffix) and b.krate == "polytune"]
    cl = cg.closure(roots)
    labs = defaultdict(list)
    for s in inv.direct_sites():
        if s.bk in cl and PRIMS[s.prim][2]:
            for l in s.label or ["?"]:
                labs[l].append(s)
    return labs, cl


def rule_inventory(S, res, phases):
    """Every receive label reachable from mpc is in the obligation table (a new message needs an
    obligation) - R2.0."""
    labs, cl = reachable_labels(S)
    n = 0
    for l, sites in sorted(labs.items()):
        if l in DEALER:
            continue
        n += 1
        if l not in OBL:
            res.bad("R2.0", "label|%s" % l, "receive of an unknown protocol message %r: no verification obligation is recorded for it" % l, fl(sites[0].sp))
    res.floor("receive_labels_reachable_from_mpc", n, 16)
    return labs, cl


def rule_checks(S, res, phases, labs):
    """R2.1 + R2.2: per label, the demanded abort checks exist (fail-closed by construction)."""
    cs = enrich(S)
    for l, ob in OBL.items():
        if ob["phase"] not in phases:
            continue
        if l != "decrypt" and l not in labs:
            res.bad("R2.1", "%s|receive" % l, "the protocol message %r is no longer received anywhere reachable from mpc (its obligations cannot be located)" % l)
            continue
        if "delegated" in ob:
            tgt = ob["delegated"]
            res.ok("R2.1", "%s|delegated" % l, fl(labs[l][0].sp) if l in labs else "", "integrity established by the checks of %r: %s" % (tgt, ob["why"]))
            continue
        mine = [c for c in cs if l in c.labels]
        for name, need, count in ob.get("need", []):
            hits = [c for c in mine if need <= c.ing]
            sites = {(c.bk, c.block) for c in hits}
            if count > 1 and "PEER_MAC" in need:
                # what has to be covered are the MAC components of the message: one comparison of a tuple of MACs
                # covers as many of them as two comparisons of one MAC each
                comp = S.comp.get(l, {})
                macs = {(n[0], n[1]) for c in hits for n in c.cond_nodes if n in comp and n[0] != "F" and S.fg.bodies[n[0]].locals[n[1]]["ty"].lstrip("&").endswith("data_types::Mac")}
                if len(macs) >= count and len(sites) < count:
                    sites = macs
            inst = "%s|%s" % (l, name)
            if len(sites) >= count:
                c = hits[0]
                res.ok("R2.1", inst, c.where(), "%d fail-closed check site(s) with ingredients %s" % (len(sites), sorted(need)))
            else:
                near = sorted(mine, key=lambda c: -len(need & c.ing))[:1]
                hint = ""
                if near:
                    hint = " (closest: %s with %s, missing %s)" % (near[0].where(), sorted(near[0].ing & need), sorted(need - near[0].ing))
                w = fl(labs[l][0].sp) if l in labs else ""
                res.bad("R2.1", inst, "message %r must reach a fail-closed check %s with ingredients %s; found %d of %d%s" % (l, name, sorted(need), len(sites), count, hint), w)
    return cs


def rule_bit_use(S, res, phases, cs):
    """R2.3: a received bit that comes with a MAC is only used after its MAC check."""
    fg = S.fg
    for l, ob in OBL.items():
        if ob["phase"] not in phases or not ob.get("bit_rule"):
            continue
        comp = S.comp.get(l, {})
        macs = [c for c in cs if l in c.labels and MAC <= c.ing]
        if not macs:
            continue  # reported by R2.1
        bits = [n for n in comp if n[0] != "F" and S.node_ty(n) in ("bool", "&bool")]
        n_use = 0
        bad = []
        cond_nodes = set()
        for c in macs:
            cond_nodes |= set(c.cond_nodes.keys())
        for n in bits:
            bk = n[0]
            b = fg.bodies[bk]
            for e in fg.out.get(n, ()):
                if e.kind not in ("bin", "call", "un", "agg", "mutarg", "mutarg2", "lcall") or e.block is None:
                    continue
                if e.kind == "call" and secmod.struct_edge(e):
                    continue
                if e.body != bk:
                    continue
                # part of the check's own expression: computed before (dominating) the check
                if e.dst in cond_nodes and any(c.bk == bk and b.dominates(e.block, c.block) for c in macs):
                    continue
                n_use += 1
                ok = False
                for c in macs:
                    if c.bk != bk:
                        continue
                    for (s, d) in c.good_edges:
                        if b.edge_dominates(s, d, e.block):
                            ok = True
                    lp = S.outer_loop(b, c.block)
                    if not ok and lp is not None and e.block not in lp[1] and b.dominates(lp[0], e.block):
                        ok = True  # after the loop that checks every element
                if not ok:
                    bad.append((b, e))
        inst = "%s|bit-after-mac" % l
        if bad:
            b, e = bad[0]
            sp = b.blocks[e.block]["t"].get("sp") if e.idx == "t" else b.blocks[e.block]["s"][e.idx]["sp"]
            res.bad("R2.3", inst, "a bit received in %r is used (%s) on a path that has not passed its MAC check" % (l, e.kind), fl(sp),
                    witness=[fg.describe_edge(x[1]) for x in bad[:5]])
        else:
            res.ok("R2.3", inst, macs[0].where(), "%d uses of received bits, all dominated by the good edge of the MAC check (or after the checking loop)" % n_use)


def rule_presence(S, res, phases, cs):
    """R2.4: absent Option slot of an authenticated share is an error."""
    fg = S.fg
    for l, ob in OBL.items():
        if ob["phase"] not in phases or not ob.get("presence"):
            continue
        comp = S.comp.get(l, {})
        n = 0
        bad = []
        for node in comp:
            if node[0] == "F":
                continue
            bk = node[0]
            b = fg.bodies[bk]
        bodies = {node[0] for node in comp if node[0] != "F"}
        from an import option_tests
        for bk in bodies:
            b = fg.bodies[bk]
            for (bi, p, none_t, some_t, via_try) in option_tests(b):
                ty = p.get("ty", "").lstrip("&")
                # `slot.as_ref().ok_or(..)?` tests an Option<&(bool, Mac)>
                ty = ty.replace("core::option::Option<&mut ", "core::option::Option<").replace("core::option::Option<&", "core::option::Option<")
                if not ty.startswith("core::option::Option<(bool, polytune::mpc::data_types::Mac)>"):
                    continue
                nodes = fg.read_nodes(bk, p)
                if not any(x in comp for x in nodes):
                    continue
                n += 1
                okc, _ = edge_fail_closed(b, bi, none_t)
                # inside a closure that itself returns an Option (`filter_map(|..| { let s = slot?; .. })`) the None
                # edge does not fail anything: the element is silently left out
                if b.locals[0]["ty"].startswith("core::option::Option<") and b.id != b.owner:
                    okc = False
                if not okc:
                    bad.append((b, bi))
        inst = "%s|presence" % l
        if bad:
            b, bi = bad[0]
            res.bad("R2.4", inst, "an absent (None) share in %r is skipped instead of rejected: the missing share is treated as 0 and its MAC check never runs" % l, where(b, bi))
        elif n == 0:
            res.bad("R2.4", inst, "cannot locate where the Option<(bool, Mac)> slots of %r are inspected" % l)
        else:
            res.ok("R2.4", inst, "", "%d Some/None test(s) on received shares, None edge always fail-closed" % n)


def nested_labels(S):
    """Labels whose element type T has a dynamically sized component below the outer Vec whose
    length the receive primitive validates."""
    out = {}
    for s in S.recv_sites:
        d, fr = callee(s.term)
        targs = (fr or {}).get("targs") or []
        for T in targs:
            if T.startswith("impl ") or "Channel" in T:
                continue
            if "alloc::vec::Vec<" in T or "GarbledGate" in T or "alloc::string::String" in T:
                for l in s.label or []:
                    out[l] = T
            break
    return out


def rule_every_element(S, res, phases, cs):
    """R2.5: the loop that carries a MAC check is not shortened by a peer-shaped vector."""
    fg = S.fg
    nested = nested_labels(S)
    for l, ob in OBL.items():
        if ob["phase"] not in phases or not ob.get("bit_rule") or l not in nested:
            continue
        comp = S.comp.get(l, {})
        macs = [c for c in cs if l in c.labels and MAC <= c.ing]
        bad = []
        n = 0
        for c in macs:
            b = c.body
            for bi, t in b.calls():
                names = callee_names(t)
                if not any(x.endswith("Iterator::zip") or x.endswith("::zip") for x in names):
                    continue
                # does a zip argument consist of an inner (peer-sized) vector of this message?
                for a in t["args"]:
                    if a["k"] == "const":
                        continue
                    aty = a["p"]["ty"]
                    if not ("alloc::vec::Vec<" in aty or aty.startswith("&[") or "slice::iter" in aty):
                        continue
                    nodes = fg.operand_nodes(c.bk, a)
                    back = fg.backward(nodes, node_ok=lambda x: x[0] == c.bk, edge_ok=secmod.struct_edge)
                    if not any(x in comp for x in back):
                        continue
                    # a container whose length the receive primitive validated (the per-party vector of a broadcast,
                    # the outer vector of recv_vec_from) is not peer-sized
                    from r1 import validated_types
                    vt = set()
                    for s_ in S.recv_sites:
                        if l in (s_.label or []):
                            vt |= validated_types(s_)[0]
                    aty_n = aty.replace(", alloc::alloc::Global", "").lstrip("&")
                    if aty_n.startswith("mut "):
                        aty_n = aty_n[4:]
                    if aty_n in vt or any(aty_n == "core::slice::iter::Iter<%s>" % v[len("alloc::vec::Vec<"):-1] for v in vt):
                        continue
                    # only containers whose element type occurs inside the message (below the validated level) can be
                    # one of its peer-sized vectors: `Vec<bool>` / `Vec<Mac>` of `dvalue`, not a bucket of own shares
                    full = nested.get(l, "").replace(", alloc::alloc::Global", "")
                    import re as _re
                    m_ = _re.search(r"Iter(?:Mut)?<(.*)>$", aty_n) if "slice::iter::Iter" in aty_n and not aty_n.startswith("core::iter::adapters") else None
                    el = None
                    if aty_n.startswith("alloc::vec::Vec<"):
                        el = aty_n[len("alloc::vec::Vec<"):-1]
                    elif aty_n.startswith("["):
                        el = aty_n[1:-1]
                    elif m_:
                        el = m_.group(1)
                    elif aty_n.startswith("core::iter::adapters"):
                        m2 = _re.search(r"slice::iter::Iter(?:Mut)?<([^<>]*(?:<[^<>]*>)?[^<>]*)>", aty_n)
                        el = m2.group(1) if m2 else None
                    if el is not None and full and ("alloc::vec::Vec<%s>" % el) not in full:
                        continue
                    # the zipped iterator feeds the loop that contains the check
                    lp = S.inner_loop(b, c.block)
                    if lp is None or not b.dominates(bi, lp[0]):
                        continue
                    n += 1
                    # discharged by a dominating fail-closed *equality* test on the length of exactly
                    # that vector (`v.len() != expected => Err`)
                    from an import root_local, single_def
                    v = root_local(b, a)
                    # look through adaptors that keep the number of elements (`v.iter().zip(..)`); an argument that
                    # is itself the result of a zip is examined at that zip
                    inner_zip = False
                    for _ in range(6):
                        d_ = single_def(b, v) if v is not None else None
                        if d_ is None or d_[1] != "t":
                            break
                        dn = callee_names(d_[2])
                        dt = dn[-1].rsplit("::", 1)[-1] if dn else ""
                        if dt == "zip":
                            inner_zip = True
                            break
                        if dt in ("iter", "iter_mut", "into_iter", "copied", "cloned", "enumerate", "rev", "by_ref", "as_slice", "deref") and d_[2]["args"] and d_[2]["args"][0]["k"] != "const":
                            v = root_local(b, d_[2]["args"][0])
                            continue
                        break
                    if inner_zip:
                        n -= 1
                        continue
                    guarded = False
                    for g in cs:
                        if g.bk != c.bk or "LEN" not in g.ing or l not in g.labels:
                            continue
                        if not any(b.edge_dominates(s_, d_, bi) for (s_, d_) in g.good_edges):
                            continue
                        # the comparison in the guard's block must be Ne/Eq and one operand the len() of v
                        exact = False
                        for st in b.blocks[g.block]["s"]:
                            if st["k"] == "assign" and st["r"]["k"] == "bin" and st["r"]["op"] in ("Ne", "Eq"):
                                exact = True
                        if not exact:
                            # the comparison was stored (a flag, or one slot of a matched tuple of flags) before the branch
                            cl = {x[1] for x in g.cond_nodes if x[0] == g.bk}
                            for xb, blk_ in enumerate(b.blocks):
                                for st in blk_["s"]:
                                    if st["k"] == "assign" and st["r"]["k"] == "bin" and st["r"]["op"] in ("Ne", "Eq") and st["p"]["l"] in cl \
                                            and any(root_local(b, o_) is not None and b.locals[root_local(b, o_)]["ty"] == "usize" for o_ in (st["r"]["a"], st["r"]["b"]) if o_["k"] != "const"):
                                        exact = True
                        lens = False
                        for cbi, names in g.calls:
                            if any(x.rsplit("::", 1)[-1] == "len" for x in names):
                                tt = b.blocks[cbi]["t"]
                                if tt["args"] and root_local(b, tt["args"][0]) == v:
                                    lens = True
                        if exact and lens:
                            guarded = True
                    if not guarded:
                        bad.append((b, bi))
        inst = "%s|every-element" % l
        if bad:
            b, bi = bad[0]
            res.bad("R2.5", inst, "the loop that MAC-checks %r is a zip against a vector whose length the sender chooses (an empty vector skips both the check and the value)" % l, where(b, bi))
        else:
            res.ok("R2.5", inst, macs[0].where() if macs else "", "%d peer-shaped zip(s), all behind a fail-closed length test" % n)


def rule_verified(S, res, phases, labs):
    """R2.6: labels that must be consistent across recipients use the verified broadcast."""
    for l, ob in OBL.items():
        if ob["phase"] not in phases or not ob.get("verified"):
            continue
        sites = labs.get(l, [])
        for s in sites:
            fn = s.body.owner.rsplit("::", 1)[-1]
            if ob["verified"] is not True and fn != ob["verified"]:
                continue
            inst = "%s|%s|verified-broadcast" % (l, fn)
            if s.prim in (BCAST, BFSS):
                res.ok("R2.6", inst, fl(s.sp), "received through %s" % s.kind)
            else:
                res.bad("R2.6", inst, "message %r must be consistent for all recipients but is received through the unverified %s (equivocation goes unnoticed)" % (l, s.kind), fl(s.sp))


def rule_broadcast_impl(S, res):
    """The verification layer itself: echo comparison fail-closed, absent echo => Err, shortcut
    exactly for n == 2, result `?`-propagated by broadcast / broadcast_first_scatter_second."""
    fg = S.fg
    bv = [(k, b) for k, b in fg.bodies.items() if b.owner == "polytune::mpc::faand::broadcast_verification"]
    cs = [c for c in S.checks() if c.body.owner == "polytune::mpc::faand::broadcast_verification"]
    echo = [c for c in cs if "CMP" in c.ing and any(l.startswith("broadcast ") for l in c.labels)]
    pres = [c for c in cs if ("PRESENCE" in c.ing or "DISCR" in c.ing) and any(l.startswith("broadcast ") for l in c.labels)]
    if echo:
        res.ok("R2.6", "broadcast_verification|echo", echo[0].where(), "echoed hash compared with the own hash, mismatch edge fail-closed")
    else:
        res.bad("R2.6", "broadcast_verification|echo", "the echoed hashes are not compared fail-closed with the own hashes (InconsistentBroadcast)")
    # the comparison runs for every pair (echoing party k, original sender j): both enclosing loops range
    # over all parties 0..n (minus the own index / k through a filter), none starts at an offset
    for c in echo[:1]:
        b = c.body
        ranges = []
        for h, body in S.loops(b):
            if c.block not in body:
                continue
            for cbi, ct in b.calls():
                cn = callee_names(ct)
                if cbi in body and cn and cn[0].endswith("Iterator::next") and ct["args"] and ct["args"][0]["k"] != "const":
                    inner = [hb for hb in S.loops(b) if cbi in hb[1]]
                    if min(inner, key=lambda hb: len(hb[1]))[0] != h:
                        continue
                    ib = fg.backward(fg.operand_nodes(c.bk, ct["args"][0]), node_ok=lambda x: x[0] == c.bk, edge_ok=lambda e: e.kind in ("copy", "ref", "agg", "field2whole", "base2field") or (e.kind == "call" and secmod.struct_edge(e)))
                    il = {x[1] for x in ib}
                    for blk in b.blocks:
                        for st in blk["s"]:
                            if st["k"] == "assign" and st["p"]["l"] in il and st["r"]["k"] == "agg" and (st["r"].get("adt") or "").startswith("core::ops::range::Range") and len(st["r"]["ops"]) == 2:
                                ranges.append((st["r"]["ops"][0], st["r"]["ops"][1], cbi))
        full = [r for r in ranges if r[0]["k"] == "const" and r[0].get("v") == "0" and r[1]["k"] != "const"]
        if len(ranges) >= 2 and len(full) == len(ranges):
            res.ok("R2.6", "broadcast_verification|all-pairs", c.where(), "the echo comparison is nested in %d loops over 0..n: every (echoing party, sender) pair is compared" % len(ranges))
        elif len(ranges) < 2:
            res.bad("R2.6", "broadcast_verification|all-pairs", "cannot find the two loops over all parties around the echo comparison", c.where())
        else:
            badr = [r for r in ranges if r not in full][0]
            res.bad("R2.6", "broadcast_verification|all-pairs", "a loop around the echo comparison does not range over all parties (it starts at an offset): some (echoing party, sender) pairs are never compared, so an equivocating sender is not detected by everybody", where(b, badr[2]))
    # early Ok only for n == 2
    ok_short = False
    bad_short = None
    for k, b in bv:
        for bi, blk in enumerate(b.blocks):
            for s in blk["s"]:
                if s["k"] == "assign" and s["r"]["k"] == "bin" and s["r"]["op"] in ("Eq", "Le", "Lt", "Ge", "Ne"):
                    a, c = s["r"]["a"], s["r"]["b"]
                    lits = [o for o in (a, c) if o["k"] == "const" and "v" in o]
                    if not lits:
                        continue
                    t = blk["t"]
                    if t["k"] != "switch":
                        continue
                    # does the true edge return Ok without reaching scatter?
                    tm = {v: tb for v, tb in t["ts"]}
                    tr = t["else"]
                    reach = b.reachable_from(tr)
                    has_scatter = any(bi2 in reach for bi2, tt in b.calls() if any(n.endswith("channel::scatter") for n in callee_names(tt)))
                    if not has_scatter:
                        # an early-return test
                        nm = [b.locals[o["p"]["l"]]["name"] for o in (a, c) if o["k"] != "const"]
                        if s["r"]["op"] == "Eq" and lits[0]["v"] == "2":
                            ok_short = True
                        else:
                            bad_short = (b, bi, "%s %s" % (s["r"]["op"], lits[0]["v"]))
    if bad_short:
        res.bad("R2.6", "broadcast_verification|shortcut", "verification is skipped under `n %s` (only n == 2 needs no echo round)" % bad_short[2], where(bad_short[0], bad_short[1]))
    elif ok_short:
        res.ok("R2.6", "broadcast_verification|shortcut", "", "echo round skipped exactly for n == 2")
    # callers propagate the result
    for owner in (BCAST, BFSS):
        found = False
        for k, b in fg.bodies.items():
            if b.owner != owner:
                continue
            for bi, t in b.calls():
                if "polytune::mpc::faand::broadcast_verification" in callee_names(t):
                    found = True
        inst = "%s|calls-verification" % owner.rsplit("::", 1)[-1]
        if found:
            res.ok("R2.6", inst, "", "runs broadcast_verification")
        else:
            res.bad("R2.6", inst, "%s no longer runs broadcast_verification" % owner)


def bypass_switches(S, c):
    """Switch edges inside the innermost loop of check c that let one iteration reach the next
    without passing the check.  Returns (loop, [(switch block, target)])."""
    b = c.body
    lp = S.inner_loop(b, c.block)
    if lp is None:
        return None, []
    h, body = lp
    succ = b.succ()
    latches = {x for x in body if h in succ[x]}
    # a compound condition (`a && b`, `!(a || b)`) is several switches sharing successors: treat the
    # group as one check, entered at the member that dominates the others
    group = {c.block}
    ft = final_targets(b, c.block)
    changed = True
    while changed:
        changed = False
        for x in body:
            if x in group or b.blocks[x]["t"]["k"] != "switch" or x == h:
                continue
            fx = final_targets(b, x)
            if any(fx & final_targets(b, g) and (g in fx or x in final_targets(b, g) or True) and (b.dominates(x, g) or b.dominates(g, x)) for g in group):
                # only conditions that look at the message itself belong to the check; a conjunct on
                # public values (`p_max > 2 &&`, `k != 0 &&`) is a guard and is judged as a bypass
                if describe_switch_cond(S, c.bk, b, x)["comp"]:
                    group.add(x)
                    changed = True
    entry = [g for g in group if all(b.dominates(g, o) for o in group)]
    cblock = entry[0] if entry else c.block
    # blocks of the loop reachable from the header without passing the check
    A = set()
    st = [h]
    while st:
        x = st.pop()
        if x in A or x not in body or x == cblock:
            continue
        A.add(x)
        st.extend(succ[x])
    if not (A & latches):
        return lp, []

    def reaches_latch(x):
        seen = set()
        st2 = [x]
        while st2:
            y = st2.pop()
            if y in seen or y not in A:
                continue
            seen.add(y)
            if y in latches:
                return True
            st2.extend(z for z in succ[y] if z != h)
        return False
    out = []
    for x in sorted(A):
        t = b.blocks[x]["t"]
        if t["k"] != "switch":
            continue
        targets = list(dict.fromkeys([tb for _, tb in t["ts"]] + [t["else"]]))
        # a divergence: one target leads to the check, another reaches the latch without it
        to_check = [y for y in targets if cblock in b.reachable_from(y, frozenset([h])) and (y == cblock or y in body)]
        by = [y for y in targets if reaches_latch(y) and not (y == cblock)]
        if to_check and by:
            for y in by:
                if y not in to_check or True:
                    # y reaches latch avoiding check: real bypass only if y does not also need the check
                    if cblock not in b.reachable_from(y, frozenset([h])) or reaches_latch(y):
                        out.append((x, y))
    # keep only switches where some target cannot reach the check at all within the iteration
    res_ = []
    for x, y in out:
        if cblock not in b.reachable_from(y, frozenset([h])):
            res_.append((x, y))
    return lp, res_


def describe_switch_cond(S, bk, b, x):
    """(kind, detail) of the condition of switch block x: own-party compare / option presence /
    other, with the literals and names involved."""
    fg = S.fg
    t = b.blocks[x]["t"]
    l = t["o"]["p"]["l"] if t["o"]["k"] != "const" else None
    info = {"op": None, "lits": [], "names": set(), "discr_ty": None, "calls": []}
    for s in b.blocks[x]["s"]:
        if s["k"] == "assign" and s["p"]["l"] == l:
            r = s["r"]
            if r["k"] == "bin":
                info["op"] = r["op"]
                for o in (r["a"], r["b"]):
                    if o["k"] == "const" and "v" in o:
                        info["lits"].append(o["v"])
            elif r["k"] == "discr":
                info["discr_ty"] = r["p"].get("ty", "")
    SH = ("copy", "ref", "base2field", "un", "bin", "discr", "cast", "lcall")
    back = fg.backward(fg.operand_nodes(bk, t["o"]), node_ok=lambda n: n[0] == "F" or n[0] == bk, local=True,
                       edge_ok=lambda e: e.kind in SH or (e.kind == "call" and (e.info or {}).get("names") and e.info["names"][-1].rsplit("::", 1)[-1] in ("deref", "get", "copied", "cloned", "flatten", "next", "eq", "ne", "is_some", "is_none", "contains", "as_ref", "index", "to_be_bytes", "to_le_bytes"))) if l is not None else {}
    for n in back:
        if n[0] == "F":
            info["names"].add("ctx." + n[2])
        else:
            nm = b.locals[n[1]]["name"]
            if nm:
                info["names"].add(nm)
            # captured variables are fields of the closure / coroutine environment
            if n[1] == 1 and n[2] not in (None, "*") and n[2] < len(b.upvars):
                info["names"].add(b.upvars[n[2]].replace("_ref__", ""))
    info["comp"] = any(S.labels_of(n) for n in back)
    if info["comp"] and info["op"] in ("Eq", "Ne") and l is not None:
        # `for (k, x) in received.iter().enumerate() { if k == i { continue } .. }`: the position counter of an
        # enumerate() over a message is not message content
        usz = False
        for s in b.blocks[x]["s"]:
            if s["k"] == "assign" and s["p"]["l"] == l and s["r"]["k"] == "bin":
                usz = all(o["k"] == "const" or o["p"].get("ty") == "usize" for o in (s["r"]["a"], s["r"]["b"]))
        if usz:
            def no_enum(e):
                if e.kind == "call":
                    nm = (e.info or {}).get("names") or []
                    if nm and nm[-1].rsplit("::", 1)[-1] == "next" and any("enumerate::Enumerate" in x_ for x_ in nm):
                        return False
                    return bool(nm) and nm[-1].rsplit("::", 1)[-1] in ("deref", "get", "copied", "cloned", "flatten", "next", "eq", "ne", "is_some", "is_none", "contains", "as_ref", "index", "to_be_bytes", "to_le_bytes")
                return e.kind in SH
            enum_items = set()
            for cbi, ct in b.calls():
                nm = callee_names(ct)
                if nm and nm[-1].rsplit("::", 1)[-1] == "next" and any("enumerate::Enumerate" in x_ for x_ in nm):
                    enum_items.add(ct["d"]["l"])
            # the counter is read as `(item as Some).0.0`; the item itself stays message content
            cnt = set()
            for blk_ in b.blocks:
                for s in blk_["s"]:
                    if s["k"] == "assign" and s["r"]["k"] == "use" and s["r"]["o"]["k"] != "const" and not s["p"]["pr"]:
                        pp = s["r"]["o"]["p"]
                        fs = [q for q in pp["pr"] if isinstance(q, dict) and "f" in q]
                        if pp["l"] in enum_items and len(fs) == 2 and fs[0]["f"] == 0 and fs[1]["f"] == 0 and pp.get("ty") == "usize":
                            cnt.add(s["p"]["l"])
            cfw = fg.forward([(bk, l_, None) for l_ in cnt], edge_ok=lambda e: e.kind in ("copy", "ref", "cast") and e.dst[0] == bk)
            cnt |= {n[1] for n in cfw if n[0] == bk and b.locals[n[1]]["ty"].lstrip("&") == "usize"}
            back2 = fg.backward(fg.operand_nodes(bk, t["o"]), node_ok=lambda n: n[0] == "F" or (n[0] == bk and n[1] not in cnt), local=True, edge_ok=no_enum)
            back2 = {n: e for n, e in back2.items() if not (n[0] == bk and n[1] in cnt)}
            info["comp"] = any(S.labels_of(n) for n in back2)
    # result of a call in the predecessor (e.g. contains / ne)
    for pb in b.pred()[x]:
        pt = b.blocks[pb]["t"]
        if pt["k"] == "call" and l is not None and pt["d"]["l"] == l:
            info["calls"] += callee_names(pt)
    return info


OWN_NAMES = {"ctx.p_own", "p_own", "i", "own_party"}


def rule_unconditional(S, res, phases, cs):
    """R2.7: inside its loop a demanded check is applied to every sender / element: the only ways
    to reach the next iteration without passing it are the own-party skip (`p == p_own`) and
    presence tests on own data."""
    fg = S.fg
    n = 0
    for l, ob in OBL.items():
        if ob["phase"] not in phases:
            continue
        for name, need, count in ob.get("need", []):
            for c in [c for c in cs if l in c.labels and need <= c.ing]:
                lp, by = bypass_switches(S, c)
                if lp is None:
                    continue
                n += 1
                b = c.body
                bad = []
                for (x, y) in by:
                    info = describe_switch_cond(S, c.bk, b, x)
                    if info["op"] in ("Eq", "Ne") and not info["lits"] and (info["names"] & OWN_NAMES) and not info["comp"]:
                        continue  # own-party skip
                    if info["discr_ty"] and not info["comp"] and not info["lits"]:
                        continue  # Some/None test on own data (e.g. own key vector lookup)
                    if info["discr_ty"] and info["discr_ty"].lstrip("&").startswith("core::option::Option<") and not info["lits"] and not ob.get("presence"):
                        continue  # optional slot of the message itself: nothing to check when absent
                    bad.append((x, info))
                inst = "%s|%s|every-sender" % (l, name)
                if bad:
                    x, info = bad[0]
                    what = "literal %s" % info["lits"] if info["lits"] else ("names %s" % sorted(info["names"])[:6])
                    res.bad("R2.7", inst, "the %s check on %r is skipped for some iterations: a branch (%s %s) lets the loop continue without it" % (name, l, info["op"] or "test", what), where(b, x))
                else:
                    res.ok("R2.7", inst, c.where(), "no iteration reaches the next one without passing the check (own-party / own-data skips only: %d)" % len(by))
    res.count("looped_checks", n)


ACC_OPS = ("BitXor", "BitOr", "BitAnd", "Add", "AddUnchecked", "AddWithOverflow", "Sub", "Mul")
ACC_CALLS = ("bitxor_assign", "bitor_assign", "bitand_assign", "add_assign", "sub_assign", "mul_assign", "bitxor", "bitor", "add")


def rule_per_element(S, res, phases, cs):
    """R2.8: a demanded equality / zero test is applied to each element of the message, not to a
    value into which the elements of a received vector were folded first (`acc ^= h[ll]` over all
    ll, then `acc != 0`): in an aggregate the contributions of different elements cancel - e.g. two
    values that are both off by the global key.  Folding over *parties* for one element, and
    random linear combinations (terms that are products / hashes, not the plain elements), are
    what the protocol does elsewhere and are not matched."""
    fg = S.fg
    all_comp = set()
    for d in S.comp.values():
        all_comp |= set(d.keys())
    n = 0
    bad = 0
    seen = set()
    for l, ob in OBL.items():
        if ob["phase"] not in phases:
            continue
        for c in [c for c in cs if l in c.labels and ({"ZERO", "CMP"} & c.ing)]:
            if (c.bk, c.block) in seen:
                continue
            seen.add((c.bk, c.block))
            n += 1
            b, bk = c.body, c.bk
            locs = {x[1] for x in c.cond_nodes if x[0] == bk}
            loops = S.loops(b)
            hit = None
            for bi, blk in enumerate(b.blocks):
                inl = [(h, body) for h, body in loops if bi in body]
                if not inl:
                    continue
                updates = []
                no_cancel = set()      # `acc |= diff`: nothing cancels in an OR
                for st in blk["s"]:
                    if st["k"] == "assign" and not st["p"]["pr"] and st["p"]["l"] in locs and st["r"]["k"] == "bin" and st["r"]["op"] in ACC_OPS:
                        a, b2 = st["r"]["a"], st["r"]["b"]
                        for x, y in ((a, b2), (b2, a)):
                            if x["k"] != "const" and not x["p"]["pr"] and _copy_of(b, x["p"]["l"], st["p"]["l"]) and y["k"] != "const":
                                updates.append((st["p"]["l"], y))
                                if st["r"]["op"] in ("BitOr", "BitAnd", "Mul"):
                                    no_cancel.add(id(y))
                t = blk["t"]
                if t["k"] == "call":
                    nm = callee_names(t)
                    tl = nm[-1].rsplit("::", 1)[-1] if nm else ""
                    if tl in ACC_CALLS and tl.endswith("_assign") and len(t["args"]) == 2 and t["args"][0]["k"] != "const":
                        tgt = _ref_target(b, t["args"][0]["p"]["l"])
                        if tgt in locs and t["args"][1]["k"] != "const":
                            updates.append((tgt, t["args"][1]))
                            if tl in ("bitor_assign", "bitand_assign", "mul_assign"):
                                no_cancel.add(id(t["args"][1]))
                for acc, term in updates:
                    # (b) the accumulator collects, over the *check positions* of the message (a loop whose counter
                    # indexes the received data below the per-party level), a difference built from message values by
                    # XOR only, and is tested once behind the loop: deviations at two positions cancel
                    if id(term) not in no_cancel and _folds_over_positions(S, c, b, bk, inl, acc, term, all_comp):
                        hit = (bi, acc)
                        continue
                    # the accumulated term is a plain element of the message
                    tn = fg.backward(fg.operand_nodes(bk, term), node_ok=lambda x: x[0] == bk, edge_ok=lambda e: e.kind in ("copy", "ref", "cast") or (e.kind == "call" and (e.info or {}).get("names") and e.info["names"][-1].rsplit("::", 1)[-1] in ("deref", "clone", "copied", "cloned", "to_owned")))
                    if not any(x in all_comp for x in tn):
                        continue
                    # innermost loop of the update iterates the scalar elements of a component, and
                    # the accumulator lives outside that loop
                    h, body = min(inl, key=lambda hb: len(hb[1]))
                    defs_out = [d for d in defs_of(b, acc) if d[0] not in body]
                    if not defs_out:
                        continue
                    for cbi, ct in b.calls():
                        if cbi not in body:
                            continue
                        cn = callee_names(ct)
                        if not cn or not cn[0].endswith("Iterator::next") or not ct["args"] or ct["args"][0]["k"] == "const":
                            continue
                        inner = [hb for hb in loops if cbi in hb[1]]
                        if not inner or min(inner, key=lambda hb: len(hb[1]))[0] != h:
                            continue
                        dty = b.locals[ct["d"]["l"]]["ty"]
                        if "Vec<" in dty or "[" in dty.replace("[u8; ", ""):
                            continue   # iterates per-party vectors, not scalar elements
                        src = fg.backward(fg.operand_nodes(bk, ct["args"][0]), node_ok=lambda x: x[0] == bk, edge_ok=secmod.struct_edge)
                        if any(x in all_comp for x in src):
                            hit = (bi, acc)
            mix = _component_mix(S, c, all_comp) if "CMP" in c.ing else None
            if mix:
                bad += 1
                res.bad("R2.8", "%s|%s|whole-value" % (b.owner.rsplit("::", 1)[-1], "/".join(sorted(c.labels))[:40]),
                        "the tested value XORs distinct parts of the received message (`%s` and `%s`) into one word before the comparison: a deviation that is the same in both parts cancels, so only a relation between the parts is enforced, not their values" % mix[1],
                        where(b, mix[0]), key="R2.8|%s|%s|whole-value" % (b.owner.rsplit("::", 1)[-1], "/".join(sorted(c.labels))[:40]))
            inst = "%s|%s|per-element" % (b.owner.rsplit("::", 1)[-1], "/".join(sorted(c.labels))[:40])
            if hit:
                bad += 1
                res.bad("R2.8", inst, "the tested value `%s` is folded over the elements of a received vector before it is compared: deviations in different elements cancel in the aggregate (e.g. two entries both offset by the global key), so the per-element relation is not enforced"
                        % (b.locals[hit[1]]["name"] or "_%d" % hit[1]), where(b, hit[0]), key="R2.8|%s|%s" % (b.owner.rsplit("::", 1)[-1], "/".join(sorted(c.labels))[:40]))
    res.count("equality_checks_examined_for_aggregation", n)
    if not bad:
        res.ok("R2.8", "engine", "", "%d equality / zero checks on message data: none tests a value folded over the elements of a received vector" % n)


_LINEAR_CALLS = ("deref", "clone", "copied", "cloned", "to_owned", "try_into", "from_be_bytes", "from_le_bytes", "from_ne_bytes", "map", "from", "into", "index", "get",
                 "unwrap_or", "unwrap_or_default", "bitxor", "bitxor_assign", "as_ref", "borrow", "branch", "ok", "expect", "unwrap", "map_err", "as_slice")


def _folds_over_positions(S, c, b, bk, inl, acc, term, all_comp):
    fg = S.fg
    if not inl:
        return False
    h, body = min(inl, key=lambda hb: len(hb[1]))
    if not [d for d in defs_of(b, acc) if d[0] not in body]:
        return False
    # the check must sit behind the loop
    if c.block in body:
        return False

    def lin(e):
        if e.src[0] != bk:
            return False
        if e.kind in ("copy", "ref", "cast", "base2field", "field2whole", "index", "alias", "mutarg"):
            return True
        if e.kind == "bin":
            return e.info == "BitXor"
        if e.kind in ("call", "lcall"):
            nm = (e.info or {}).get("names") if isinstance(e.info, dict) else None
            return bool(nm) and nm[-1].rsplit("::", 1)[-1] in _LINEAR_CALLS
        return False
    tn = fg.backward(fg.operand_nodes(bk, term), node_ok=lambda x: x[0] == bk, edge_ok=lin, local=True)
    comps = [x for x in tn if x in all_comp and (S.labels_of(x) & c.labels)]
    if not comps:
        return False
    # the loop counter: item of the `next()` in this loop (innermost for it), used as the index of a message
    # container that is not the per-party vector the receive primitive returned
    import r1 as _r1
    full = set()
    for s_ in S.recv_sites:
        if set(s_.label or []) & c.labels:
            vt, T = _r1.validated_types(s_)
            if T:
                full.add(T)
    for cbi, ct in b.calls():
        if cbi not in body:
            continue
        cn = callee_names(ct)
        if not cn or cn[-1].rsplit("::", 1)[-1] != "next" or not ct["args"] or ct["args"][0]["k"] == "const":
            continue
        inner = [hb for hb in S.loops(b) if cbi in hb[1]]
        if not inner or min(inner, key=lambda hb: len(hb[1]))[0] != h:
            continue
        if "usize" not in b.locals[ct["d"]["l"]]["ty"]:
            continue
        cnt = fg.forward([(bk, ct["d"]["l"], None), (bk, ct["d"]["l"], 0)], node_ok=lambda x: x[0] == bk, edge_ok=lambda e: e.kind in ("copy", "base2field", "cast"))
        cl = {x[1] for x in cnt}
        for ibi, it in b.calls():
            if ibi not in body:
                continue
            inm = callee_names(it)
            if not inm or inm[-1].rsplit("::", 1)[-1] not in ("index", "index_mut", "get") or len(it["args"]) != 2 or it["args"][1]["k"] == "const" or it["args"][1]["p"]["l"] not in cl:
                continue
            rn = fg.operand_nodes(bk, it["args"][0])
            rb = fg.backward(rn, node_ok=lambda x: x[0] == bk, edge_ok=secmod.struct_edge)
            if not any(x in all_comp and (S.labels_of(x) & c.labels) for x in rb):
                continue
            rty = _r1.norm_ty(it["args"][0]["p"]["ty"])
            if full and rty not in full and _r1.is_container(rty):
                return True
    return False


_XOR_OK_CALLS = ("bitxor", "bitxor_assign", "deref", "clone", "copied", "cloned", "to_owned", "borrow", "as_ref")


def _xor_combinator(fg, name, _memo={}):
    """a local function that only XORs its arguments together (`xor_two_blocks`)"""
    if name in _memo:
        return _memo[name]
    ok = False
    for k in fg.by_id.get(name, []):
        bb = fg.bodies[k]
        ok = True
        nx = 0
        for blk in bb.blocks:
            for st in blk["s"]:
                if st["k"] == "assign" and st["r"]["k"] == "bin":
                    if st["r"]["op"] != "BitXor":
                        ok = False
                    nx += 1
            t = blk["t"]
            if t["k"] == "call":
                nm = callee_names(t)
                tl = nm[-1].rsplit("::", 1)[-1] if nm else ""
                if tl not in _XOR_OK_CALLS:
                    ok = False
                if tl in ("bitxor", "bitxor_assign"):
                    nx += 1
            elif t["k"] == "switch":
                ok = False
        ok = ok and nx > 0
        break
    _memo[name] = ok
    return ok


def _component_mix(S, c, all_comp):
    """(block, (name, name)) when the scalar that check `c` compares was produced by an XOR (in c's body) whose operands
    bring in two distinct named parts of one received message; None otherwise.  Tuple comparisons and per-part
    comparisons are not matched, nor is the XOR of the same part over several senders."""
    fg = S.fg
    b, bk = c.body, c.bk

    def xor_edge(e):
        if e.src[0] != bk:
            return False
        if e.kind in ("copy", "ref", "base2field", "field2whole", "agg", "alias"):
            return True
        if e.kind == "bin":
            return e.info == "BitXor"
        if e.kind in ("call", "lcall", "mutarg", "mutarg2"):
            nm = (e.info or {}).get("names") if isinstance(e.info, dict) else None
            if not nm:
                return False
            return nm[-1].rsplit("::", 1)[-1] in _XOR_OK_CALLS or _xor_combinator(fg, nm[0])
        return False

    import r1 as _r1
    msg_tys = [(_r1.validated_types(s_)[1] or "") for s_ in S.recv_sites if set(s_.label or []) & c.labels]

    def leaves(operand):
        if operand["k"] == "const":
            return {}
        sl = fg.backward(fg.operand_nodes(bk, operand), node_ok=lambda n: n[0] == bk, edge_ok=xor_edge, local=True)
        out = {}
        for n in sl:
            if n in all_comp and n[2] is None and b.locals[n[1]]["name"] and (S.labels_of(n) & c.labels):
                ty = _r1.norm_ty(b.locals[n[1]]["ty"])
                # a part of the message has a type that occurs in the message (own values that merely travel in one
                # tuple with message parts - the items of a zip - do not)
                if ty != "bool" and any(ty and ty in mt for mt in msg_tys):
                    out[b.locals[n[1]]["name"]] = ty
        return out
    # the compared scalars
    ops = []
    for cbi, names in c.calls:
        if any(n.rsplit("::", 1)[-1] in ("ne", "eq") for n in names):
            for a in b.blocks[cbi]["t"]["args"]:
                if a["k"] != "const" and not a["p"]["ty"].lstrip("&").startswith("("):
                    ops.append(a)
    for st in b.blocks[c.block]["s"]:
        if st["k"] == "assign" and st["r"]["k"] == "bin" and st["r"]["op"] in ("Ne", "Eq"):
            ops += [o for o in (st["r"]["a"], st["r"]["b"]) if o["k"] != "const"]
    if not ops:
        return None
    sl = set()
    for o in ops:
        sl |= set(fg.backward(fg.operand_nodes(bk, o), node_ok=lambda n: n[0] == bk, edge_ok=xor_edge, local=True).keys())
    sl_locals = {n[1] for n in sl}
    for bi, blk in enumerate(b.blocks):
        pairs = []
        for st in blk["s"]:
            if st["k"] == "assign" and st["p"]["l"] in sl_locals and st["r"]["k"] == "bin" and st["r"]["op"] == "BitXor":
                pairs.append((st["r"]["a"], st["r"]["b"]))
        t = blk["t"]
        if t["k"] == "call":
            nm = callee_names(t)
            tl = nm[-1].rsplit("::", 1)[-1] if nm else ""
            if tl == "bitxor" and len(t["args"]) == 2 and t["d"]["l"] in sl_locals:
                pairs.append((t["args"][0], t["args"][1]))
            if tl == "bitxor_assign" and len(t["args"]) == 2 and t["args"][0]["k"] != "const" and _ref_target(b, t["args"][0]["p"]["l"]) in sl_locals:
                pairs.append(({"k": "copy", "p": {"l": _ref_target(b, t["args"][0]["p"]["l"]), "pr": [], "ty": ""}}, t["args"][1]))
        for x, y in pairs:
            lx, ly = leaves(x), leaves(y)
            if not lx or not ly:
                continue
            both = dict(lx)
            both.update(ly)
            names = sorted(both)
            for i_ in range(len(names)):
                for j_ in range(i_ + 1, len(names)):
                    if both[names[i_]] == both[names[j_]]:
                        return bi, (names[i_], names[j_])
    return None


def _copy_of(b, l, target, depth=0):
    if l == target:
        return True
    if depth > 4:
        return False
    d = defs_of(b, l)
    if len(d) == 1 and d[0][1] != "t" and d[0][2]["k"] == "use" and d[0][2]["o"]["k"] != "const" and not d[0][2]["o"]["p"]["pr"]:
        return _copy_of(b, d[0][2]["o"]["p"]["l"], target, depth + 1)
    return False


def _ref_target(b, l, depth=0):
    d = defs_of(b, l)
    if len(d) == 1 and d[0][1] != "t" and depth < 4:
        r = d[0][2]
        if r["k"] in ("ref", "rawptr") and not r["p"]["pr"]:
            return r["p"]["l"]
        if r["k"] in ("ref", "rawptr") and r["p"]["pr"] == ["deref"] or (r["k"] == "use" and r["o"]["k"] != "const" and not r["o"]["p"]["pr"]):
            src = r["p"]["l"] if r["k"] in ("ref", "rawptr") else r["o"]["p"]["l"]
            return _ref_target(b, src, depth + 1)
    return None


def rule_row_key_binding(S, res):
    """R2.key: the AEAD key and nonce of a garbled row bind all four components of the GarblingKey
    (both input labels, gate index, row index): in garble::key_and_nonce every write into the key /
    nonce array has a constant byte range, the ranges are pairwise disjoint (a later write never
    replaces an earlier one) and every field of the GarblingKey reaches one of them.  Garbler and
    evaluator share the function, so honest runs cannot notice a component that is left out."""
    import re
    fg = S.fg
    fam = [(k, b) for k, b in fg.bodies.items() if b.owner.endswith("mpc::garble::key_and_nonce") and b.id == b.owner]
    if not fam:
        res.bad("R2.key", "key_and_nonce", "cannot locate mpc::garble::key_and_nonce")
        return
    k, b = fam[0]
    # fields of the parameter
    field_of = {}
    for blk in b.blocks:
        for st in blk["s"]:
            if st["k"] == "assign" and not st["p"]["pr"] and st["r"]["k"] in ("ref", "use"):
                pl = st["r"]["p"] if st["r"]["k"] == "ref" else (st["r"]["o"]["p"] if st["r"]["o"]["k"] != "const" else None)
                if pl is None:
                    continue
                fl_ = [e for e in pl["pr"] if isinstance(e, dict) and e.get("n") and "GarblingKey" in (e.get("a") or "")]
                if fl_:
                    field_of[st["p"]["l"]] = fl_[-1]["n"]
    arrays = {i: int(m.group(1)) for i, l in enumerate(b.locals) for m in [re.match(r"\[u8; (\d+)\]$", l["ty"])] if m}
    writes = []   # (array local, lo, hi, fields, block)

    def fields_in(operand):
        back = fg.backward(fg.operand_nodes(k, operand), node_ok=lambda x: x[0] == k)
        return {field_of[x[1]] for x in back if x[1] in field_of}

    def const_of(o):
        if o["k"] == "const":
            try:
                return int(o.get("v"))
            except (TypeError, ValueError):
                return None
        d = defs_of(b, o["p"]["l"]) if not o["p"]["pr"] else []
        if len(d) == 1 and d[0][1] != "t" and d[0][2]["k"] == "use":
            return const_of(d[0][2]["o"])
        return None
    unknown = []
    for bi, t in b.calls():
        cn = callee_names(t)
        tl = cn[-1].rsplit("::", 1)[-1] if cn else ""
        if tl not in ("copy_from_slice", "clone_from_slice", "fill"):
            continue
        # destination: &mut (*index_mut(&mut arr, range))
        dst = t["args"][0]
        dback = fg.backward(fg.operand_nodes(k, dst), node_ok=lambda x: x[0] == k, edge_ok=lambda e: e.kind in ("copy", "ref"))
        rng = None
        arr = None
        for cbi, ct in b.calls():
            if ct["d"]["l"] in {x[1] for x in dback} and callee_names(ct) and callee_names(ct)[0].endswith("IndexMut::index_mut"):
                arr = root_local_(b, ct["args"][0])
                rd = defs_of(b, ct["args"][1]["p"]["l"]) if ct["args"][1]["k"] != "const" else []
                if len(rd) == 1 and rd[0][1] != "t" and rd[0][2]["k"] == "agg":
                    adt = rd[0][2].get("adt") or ""
                    ops = [const_of(o) for o in rd[0][2]["ops"]]
                    n_ = arrays.get(arr)
                    if adt.endswith("RangeTo") and ops and ops[0] is not None:
                        rng = (0, ops[0])
                    elif adt.endswith("RangeFrom") and ops and ops[0] is not None and n_ is not None:
                        rng = (ops[0], n_)
                    elif adt.endswith("::Range") and len(ops) == 2 and None not in ops:
                        rng = (ops[0], ops[1])
                    elif adt.endswith("RangeFull") and n_ is not None:
                        rng = (0, n_)
        if arr in arrays:
            if rng is None:
                unknown.append(bi)
            else:
                writes.append((arr, rng[0], rng[1], fields_in(t["args"][1]) if len(t["args"]) > 1 else set(), bi))
    for bi, blk in enumerate(b.blocks):
        for st in blk["s"]:
            if st["k"] == "assign" and st["p"]["l"] in arrays and st["p"]["pr"]:
                ix = [e for e in st["p"]["pr"] if isinstance(e, dict) and "i" in e]
                if ix:
                    c = const_of({"k": "copy", "p": {"l": ix[0]["i"], "pr": []}})
                    if c is None:
                        unknown.append(bi)
                    else:
                        ops = [st["r"].get("o")] if st["r"]["k"] == "use" else []
                        writes.append((st["p"]["l"], c, c + 1, set().union(*[fields_in(o) for o in ops if o and o["k"] != "const"]) if ops else set(), bi))
    probs = []
    if unknown:
        probs.append(("a write into the key / nonce array has no constant byte range", unknown[0]))
    for i_, w1 in enumerate(writes):
        for w2 in writes[i_ + 1:]:
            if w1[0] == w2[0] and w1[1] < w2[2] and w2[1] < w1[2]:
                probs.append(("bytes %d..%d (from %s) and %d..%d (from %s) of `%s` overlap: one component replaces the other and is no longer bound into the row key"
                              % (w1[1], w1[2], sorted(w1[3]) or "?", w2[1], w2[2], sorted(w2[3]) or "?", b.locals[w1[0]]["name"] or "?"), w2[4]))
    all_fields = set(field_of.values())
    bound = set().union(*[w[3] for w in writes]) if writes else set()
    for f in sorted(all_fields - bound):
        probs.append(("GarblingKey.%s does not reach the key or the nonce" % f, 0))
    if len(all_fields) < 4:
        probs.append(("only %d of the 4 GarblingKey fields are read" % len(all_fields), 0))
    if probs:
        res.bad("R2.key", "key_and_nonce", probs[0][0], where(b, probs[0][1]))
    else:
        res.ok("R2.key", "key_and_nonce", fl(b.span), "%d writes with pairwise disjoint constant ranges bind %s" % (len(writes), sorted(bound)))


def root_local_(b, o):
    from an import root_local
    return root_local(b, o)


def rule_check_before_send(S, res, phases, cs):
    """R2.9: data of a received message does not leave in a send before the checks demanded for that
    message have run: a demanded check of label L is never reachable (ignoring loop back edges) from
    a send whose payload is computed from components of L.  (Example: the labels selected by the
    peers' masked inputs are sent only after the conflicting-mask test, otherwise a peer that
    overrides an own wire receives both labels of that wire - their XOR is the global key.)"""
    fg = S.fg
    n = 0
    bad = 0
    for l, ob in OBL.items():
        if ob["phase"] not in phases or not ob.get("need"):
            continue
        comps = {x for x in S.comp.get(l, {}) if x[0] != "F"}
        if not comps:
            continue
        demanded = []
        for name, need, count in ob["need"]:
            demanded += [(name, c) for c in cs if l in c.labels and need <= c.ing]
        if not demanded:
            continue
        fams = {c.body.owner for _n, c in demanded}
        for s_ in S.send_sites:
            if s_.body.owner not in fams or (s_.label and l in s_.label):
                continue
            b = s_.body
            back = fg.backward(fg.operand_nodes(s_.bk, s_.term["args"][-1]), node_ok=lambda x: x[0] != "F" and fg.bodies[x[0]].owner == b.owner, local=True)
            if not (set(back) & comps):
                continue
            n += 1
            # forward reachability without back edges
            succ = b.succ()
            seen = {s_.block}
            st = [s_.block]
            while st:
                x = st.pop()
                for y in succ[x]:
                    if y in seen or b.dominates(y, x):
                        continue
                    seen.add(y)
                    st.append(y)
            late = [(name, c) for name, c in demanded if c.bk == s_.bk and c.block in seen and c.block != s_.block]
            inst = "%s|%s->%s" % (b.owner.rsplit("::", 1)[-1], l, "/".join(s_.label or ["?"]))
            if late:
                bad += 1
                res.bad("R2.9", inst, "the payload of %r is computed from message %r, but the demanded check %s of that message runs only after the send: a value the check would have rejected has already left" % ("/".join(s_.label or ["?"]), l, late[0][0]), fl(s_.sp),
                        key="R2.9|%s|%s|%s" % (b.owner.rsplit("::", 1)[-1], l, "/".join(s_.label or ["?"])))
            else:
                res.ok("R2.9", inst, fl(s_.sp), "sent after the demanded checks of %r" % l)
    res.count("sends_computed_from_checked_messages", n)
    if not bad and not n:
        res.ok("R2.9", "engine", "", "no send payload is computed from a message with demanded checks")


def _predicate_polarity(fg, cb):
    """'good' when the predicate returns the result of an equality / open_commitment, 'bad' when it returns an
    inequality or a negated opening, None when mixed or unknown."""
    good = bad = 0
    ret_locals = {0}
    for _ in range(3):
        for blk in cb.blocks:
            for st in blk["s"]:
                if st["k"] == "assign" and st["p"]["l"] in ret_locals and not st["p"]["pr"] and st["r"]["k"] == "use" and st["r"]["o"]["k"] != "const" and not st["r"]["o"]["p"]["pr"]:
                    ret_locals.add(st["r"]["o"]["p"]["l"])
    neg = set()
    for blk in cb.blocks:
        for st in blk["s"]:
            if st["k"] == "assign" and st["p"]["l"] in ret_locals and st["r"]["k"] == "un" and st["r"].get("op") == "Not" and st["r"]["a"]["k"] != "const":
                neg.add(st["r"]["a"]["p"]["l"])
    cd = None
    for bi, blk in enumerate(cb.blocks):
        if bi not in cb.live_blocks():
            continue
        for st in blk["s"]:
            if st["k"] == "assign" and st["r"]["k"] == "bin" and st["r"]["op"] in ("Eq", "Ne") and not st["p"]["pr"]:
                l = st["p"]["l"]
                flip = l in neg
                if l in ret_locals or l in neg or (blk["t"]["k"] == "switch" and blk["t"]["o"]["k"] != "const" and blk["t"]["o"]["p"]["l"] == l):
                    is_eq = (st["r"]["op"] == "Eq") != flip
                    if is_eq:
                        good += 1
                    else:
                        bad += 1
        t = blk["t"]
        if t["k"] == "call" and not t["d"]["pr"] and (t["d"]["l"] in ret_locals or t["d"]["l"] in neg):
            cn = callee_names(t)
            if any(n.endswith("faand::open_commitment") for n in cn) or (cn and cn[-1].rsplit("::", 1)[-1] == "eq"):
                if t["d"]["l"] in neg:
                    bad += 1
                else:
                    good += 1
            elif cn and cn[-1].rsplit("::", 1)[-1] == "ne":
                if t["d"]["l"] in neg:
                    good += 1
                else:
                    bad += 1
    if good and not bad:
        return "good"
    if bad and not good:
        return "bad"
    return None


def rule_adaptor_polarity(S, res, phases, cs):
    """R2.12: a check written with a searching adaptor rejects in the right direction: `all(good)` must reject when the
    result is false, `any(bad)` / `find(bad)` / `position(bad)` when it is true / Some.  `any(good)` rejected on false
    accepts a message in which a single element is right; `all(bad)` rejected on true only rejects when every
    element is wrong."""
    fg = S.fg
    n = 0
    bad_n = 0
    for c in cs:
        lab_ok = any(OBL.get(l, {}).get("phase") in phases for l in c.labels)
        if not lab_ok:
            continue
        b = c.body
        for cbi, names in c.calls:
            tl = names[-1].rsplit("::", 1)[-1] if names else ""
            if tl not in ("any", "all"):
                continue
            t = b.blocks[cbi]["t"]
            # the predicate is the last argument, and a closure itself (the iterator's type may mention closures too)
            cdefs = [a["p"]["ty"][a["p"]["ty"].index("{closure:") + 9:a["p"]["ty"].rindex("}")] for a in t["args"][-1:] if a["k"] != "const" and a["p"]["ty"].lstrip("&").replace("mut ", "").startswith("{closure:")]
            if not cdefs or t["d"]["pr"]:
                continue
            pol = None
            for ck in fg.by_id.get(cdefs[0], []):
                pol = _predicate_polarity(fg, fg.bodies[ck])
            if pol is None:
                continue
            # which value of the adaptor's result takes the fail-closed edge of this check
            sw = b.blocks[c.block]["t"]
            if sw["k"] != "switch" or sw["o"]["k"] == "const" or sw["o"]["p"]["pr"]:
                continue
            cur, flips = sw["o"]["p"]["l"], 0
            reached = False
            for _ in range(6):
                if cur == t["d"]["l"]:
                    reached = True
                    break
                ds = defs_of(b, cur)
                if len(ds) != 1 or ds[0][1] == "t":
                    break
                r = ds[0][2]
                if r["k"] == "use" and r["o"]["k"] != "const" and not r["o"]["p"]["pr"]:
                    cur = r["o"]["p"]["l"]
                elif r["k"] == "un" and r.get("op") == "Not" and r["a"]["k"] != "const" and not r["a"]["p"]["pr"]:
                    cur = r["a"]["p"]["l"]
                    flips += 1
                else:
                    break
            if not reached:
                continue
            tm = {str(v): tb for v, tb in sw["ts"]}
            zero_t, other_t = tm.get("0"), sw["else"]
            bad_targets = {x for (_s, x) in c.bad_edges}
            if (zero_t in bad_targets) == (other_t in bad_targets):
                continue
            reject_on_operand_true = other_t in bad_targets
            reject_on_result_true = reject_on_operand_true if flips % 2 == 0 else not reject_on_operand_true
            n += 1
            right = (tl == "all" and pol == "good" and not reject_on_result_true) or (tl == "any" and pol == "bad" and reject_on_result_true)
            inst = "%s|%s|adaptor" % (b.owner.rsplit("::", 1)[-1], "/".join(sorted(c.labels))[:40])
            if right:
                res.ok("R2.12", inst, where(b, cbi), "`%s` over a predicate that returns %s, rejected when the result is %s" % (tl, "a match" if pol == "good" else "a mismatch", "true" if reject_on_result_true else "false"))
            else:
                bad_n += 1
                res.bad("R2.12", inst, "the check is written as `%s` over a predicate that returns %s and rejects when the result is %s: %s" % (
                    tl, "a match" if pol == "good" else "a mismatch", "true" if reject_on_result_true else "false",
                    "one element that passes is enough for the whole message to be accepted" if tl == "any" else "the message is only rejected when every element fails"), where(b, cbi),
                    key="R2.12|%s|%s" % (b.owner.rsplit("::", 1)[-1], "/".join(sorted(c.labels))[:40]))
    res.count("adaptor_checks_examined_for_polarity", n)
    if not bad_n:
        res.ok("R2.12", "engine", "", "%d checks written with any / all: each rejects in the direction its predicate demands" % n)


def rule_conjunct(S, res, phases, cs):
    """R2.10: in a compound abort condition every equality comparison of received data rejects on its own.
    `a != x || b != y` does; `a != x && b != y` accepts a message in which only one of the two values is wrong.
    The mismatch edge of such a comparison may lead on to another comparison only if that one looks at the
    same received value again (alternatives: `v == Some((true, l ^ d)) || v == Some((false, l))`)."""
    fg = S.fg
    all_comp = set()
    for l, d in S.comp.items():
        if OBL.get(l, {}).get("phase") in phases or l == "decrypt":
            all_comp |= set(d.keys())
    check_blocks = {(c.bk, c.block): c for c in cs}
    n = 0
    bad = 0
    bodies = {x[0] for x in all_comp if x[0] != "F"}
    for bk in sorted(bodies):
        b = fg.bodies[bk]
        live = b.live_blocks()
        cmps = {}      # switch block -> (mismatch target, match target, component nodes)
        for bi, blk in enumerate(b.blocks):
            t = blk["t"]
            if t["k"] != "switch" or t["o"]["k"] == "const" or bi not in live or t["o"]["p"]["pr"]:
                continue
            sw_l = t["o"]["p"]["l"]
            tm = {str(v): tb for v, tb in t["ts"]}
            zero, other = tm.get("0"), t["else"]
            if zero is None:
                continue
            ops = None
            mism = None
            for st in blk["s"]:
                if st["k"] == "assign" and st["p"]["l"] == sw_l and not st["p"]["pr"] and st["r"]["k"] == "bin" and st["r"]["op"] in ("Eq", "Ne"):
                    ops = [st["r"]["a"], st["r"]["b"]]
                    mism = other if st["r"]["op"] == "Ne" else zero
            if ops is None:
                for pb in b.pred()[bi]:
                    pt = b.blocks[pb]["t"]
                    if pt["k"] == "call" and pt["d"]["l"] == sw_l and not pt["d"]["pr"]:
                        cn = callee_names(pt)
                        tl = cn[0].rsplit("::", 1)[-1] if cn else ""
                        if tl in ("eq", "ne") and len(pt["args"]) == 2:
                            ops = pt["args"]
                            mism = other if tl == "ne" else zero
            if ops is None:
                continue
            nodes = [x for o in ops if o["k"] != "const" for x in fg.operand_nodes(bk, o)]
            back = fg.backward(nodes, node_ok=lambda x: x[0] == bk, local=True)
            comp = {x for x in back if x in all_comp}
            if not comp:
                continue
            # the received values that are compared themselves (not values computed from them)
            direct = fg.backward(nodes, node_ok=lambda x: x[0] == bk, edge_ok=lambda e: e.kind in ("copy", "ref", "cast") or (e.kind == "call" and secmod.struct_edge(e)), local=True)
            dcomp = {x for x in direct if x in all_comp}
            cmps[bi] = (mism, zero if mism == other else other, dcomp or comp)
        for bi, (mism, match, comp) in cmps.items():
            if edge_fail_closed(b, bi, mism)[0]:
                continue
            # where does the mismatch edge lead? follow straight-line blocks to the next switch
            cur = mism
            nxt = None
            for _ in range(8):
                tt = b.blocks[cur]["t"]
                if tt["k"] == "switch":
                    nxt = cur
                    break
                sc = b.succ()[cur]
                if len(sc) != 1:
                    break
                cur = sc[0]
            if nxt is None or nxt not in cmps:
                continue       # not part of a compound check
            n += 1
            if cmps[nxt][2] & comp:
                continue       # the same received value is compared with another acceptable value
            # the second comparison must be able to reject at all, otherwise this is ordinary logic
            if not (edge_fail_closed(b, nxt, cmps[nxt][0])[0] or (bk, nxt) in check_blocks):
                continue
            labs = set()
            for x in comp:
                labs |= S.labels_of(x)
            bad += 1
            lab = "/".join(sorted(labs)) or "?"
            res.bad("R2.10", "%s|%s|conjunct" % (b.owner.rsplit("::", 1)[-1], lab),
                    "a wrong value in %r is only rejected if a second, different value of the message is wrong as well (the comparisons are joined with `&&`): a message that is wrong in one of them is accepted" % lab, where(b, bi),
                    key="R2.10|%s|%s" % (b.owner.rsplit("::", 1)[-1], lab))
    res.count("compound_comparisons_of_message_values", n)
    if not bad:
        res.ok("R2.10", "engine", "", "%d comparison(s) of received values that continue into another comparison: each looks at the same value again (alternatives), none needs a second wrong value to reject" % n)


def fg_in(S, node):
    """incoming value-flow edges of a local, all of its field nodes included"""
    out = []
    for n, es in S.fg.inn.items():
        if n[0] == node[0] and n[1] == node[1]:
            out += es
    return out


def rule_claimed_bit(S, res, cs):
    """aShare step 3c: the check bits the peers claim arrive with MACs under the own key; they are verified, before
    the opening, against the value that is about to be opened (shared by C04 and C07)."""
    mine = [c for c in cs if "fashare ver" in c.labels and {"CMP", "DELTA"} <= c.ing]
    opens = [s_ for s_ in S.inv.direct_sites() if "fashare di_bi" in (s_.label or []) and s_.body.owner.endswith("faand::fashare")]
    if not mine:
        res.bad("R2.1", "fashare ver|claimed-bit-mac", "aShare: the XOR of the peers' claimed check bits selects whether d0 or d0^Delta is opened, but the claims' MACs under the own key are never verified: a peer that misreports its bit obtains d0^Delta and, with the MAC it holds, Delta", "src/mpc/faand.rs (fashare, step 3c)")
    elif not opens:
        res.bad("R2.1", "fashare ver|claimed-bit-mac", "cannot locate the `fashare di_bi` opening in fashare")
    else:
        # the check sits in the loop over the RHO check positions: "before" = the opening is reached from
        # the check and the check is never reached from the opening
        before = [c for c in mine if all(c.bk == o.bk and o.block in c.body.reachable_from(c.block) and c.block not in c.body.reachable_from(o.block) for o in opens)]
        # ... and it is the value about to be opened that the claimed MACs are compared with (d0 or d1 *as selected by
        # the claimed bits*): a comparison with "d0 or d1, whichever fits" accepts a misreported bit
        from an import root_local as _rl
        bound = []
        for c in before:
            for o in opens:
                pl = _rl(o.body, o.term["args"][-1])
                if pl is None:
                    continue
                # the opened vector, and the scalars that are stored / pushed into it - up to (and including) the
                # variable that receives the selected one of d0 / d1, not the two candidates behind it
                feeds = {pl}
                work = [pl]
                while work:
                    x_ = work.pop()
                    if x_ != pl and len(defs_of(o.body, x_)) != 1:
                        continue
                    for e in fg_in(S, (c.bk, x_, None)):
                        if e.kind in ("copy", "mutarg", "alias", "alias_fb", "field2whole") and e.src[0] == c.bk and e.src[1] not in feeds \
                                and o.body.locals[e.src[1]]["ty"].lstrip("&") in ("u128", "alloc::vec::Vec<u128, alloc::alloc::Global>"):
                            feeds.add(e.src[1])
                            work.append(e.src[1])
                if any(n[0] == c.bk and n[1] in feeds for n in c.cond_nodes):
                    bound.append(c)
        if before and not bound:
            res.bad("R2.1", "fashare ver|claimed-bit-mac", "the MACs of the claimed check bits are not compared with the value that is opened afterwards (the one of d0 / d0^Delta selected by those bits): a peer that misreports its bit but sends its true MAC passes, and obtains the other value", before[0].where(),
                    key="R2.1|fashare ver|claimed-bit-mac|selected")
        elif before:
            res.ok("R2.1", "fashare ver|claimed-bit-mac", before[0].where(), "the claimed bits are MAC-checked with the own key and Delta, and that check lies before the opening of d0/d1 (`fashare di_bi`)")
        else:
            res.bad("R2.1", "fashare ver|claimed-bit-mac", "the MAC check of the claimed bits does not precede the opening of d0/d1 (`fashare di_bi`): the value selected by a misreported bit is sent before the claim is verified", mine[0].where())


def rule_conflict_covers_own(S, res, cs):
    """R2.11: the conflicting-mask test of `masked inputs` looks at the slot table that holds the party's *own*
    masked inputs (the vector it broadcast): a value a peer announces for one of the own input wires must be a
    conflict.  Testing only a table of the peers' values lets a peer override an honest party's input."""
    fg = S.fg
    l = "masked inputs"
    sends = [s_ for s_ in S.inv.direct_sites() if l in (s_.label or []) and s_.body.owner.endswith("protocol::input_processing")]
    mine = [c for c in cs if l in c.labels and "PRESENCE" in c.ing]
    if not sends or not mine:
        return      # reported by R2.1 / R2.0
    ok = False
    for c in mine:
        for s_ in sends:
            if s_.bk != c.bk:
                continue
            from an import root_local as _rl
            pl = _rl(s_.body, s_.term["args"][-1])
            if pl is None:
                continue
            back = fg.backward([n for n in c.cond_nodes if n[0] == c.bk], node_ok=lambda x: x[0] == c.bk, edge_ok=lambda e: secmod.struct_edge(e) or e.kind in ("alias", "alias_fb"), local=True)
            if any(n[1] == pl for n in back) or any(n[0] == c.bk and n[1] == pl for n in c.cond_nodes):
                ok = True
    if ok:
        res.ok("R2.11", "masked inputs|own-slots", mine[0].where(), "the conflict test inspects the table of the own masked inputs (the broadcast vector)")
    else:
        res.bad("R2.11", "masked inputs|own-slots", "the conflicting-mask test does not look at the party's own masked inputs: a peer that announces a value for an honest party's input wire overrides that input instead of being rejected", mine[0].where(),
                key="R2.11|masked inputs|own-slots")
