"""Shared result/evidence plumbing for the per-property rule modules."""
import json, os, hashlib, time

VERIF = os.path.dirname(os.path.dirname(os.path.abspath(__file__)))


class Result:
    def __init__(self, prop):
        self.prop = prop
        self.instances = []   # dicts: id, rule, where, verdict, detail
        self.violations = []  # dicts: key, msg, witness
        self.notes = []
        self.counts = {}
        self.failures = []    # machinery failures (floors, fixtures)

    def ok(self, rule, inst, where="", detail=""):
        self.instances.append({"rule": rule, "id": inst, "where": where, "verdict": "ok", "detail": detail})

    def bad(self, rule, inst, msg, where="", witness=None, key=None):
        k = key or "%s|%s" % (rule, inst)
        self.instances.append({"rule": rule, "id": inst, "where": where, "verdict": "violation", "detail": msg})
        self.violations.append({"key": k, "rule": rule, "instance": inst, "msg": msg, "where": where, "witness": witness or []})

    def floor(self, name, got, minimum):
        self.counts[name] = got
        if got < minimum:
            self.failures.append("discovery floor not met: %s = %d < %d" % (name, got, minimum))

    def need(self, rule, name, got, minimum, what):
        """an obligation-bearing count: fewer instances than on the reviewed tree means an obligation
        can no longer be located -> violation (not a machinery failure)"""
        self.counts[name] = got
        if got < minimum:
            self.bad(rule, "%s|located" % name, "%s: found %d, the reviewed tree has %d - the obligation attached to the missing instance cannot be located" % (what, got, minimum))

    def count(self, name, got):
        self.counts[name] = got


def load_known():
    p = os.path.join(VERIF, "known_findings.json")
    if not os.path.exists(p):
        return {"findings": [], "fixed": []}
    with open(p) as f:
        return json.load(f)


def fl(sp):
    """file:line of a span string."""
    s = sp.split("|")[0]
    parts = s.rsplit(":", 2)
    if len(parts) == 3:
        return parts[0] + ":" + parts[1]
    return s
