"""Analysis helpers shared by rule modules: return-variant maps, control dependence, await
recognition, source-statement discovery, call-graph closure."""
from collections import defaultdict
from mir import callee, callee_names
from common import fl


# ------------------------------------------------------------------ return variants
def ret_blocks(b):
    """Blocks assigning `_0`: dict variant -> set(block).  Variants: Ok, Err, Continue, Break,
    residual (from `?`), other."""
    out = defaultdict(set)
    for bi, blk in enumerate(b.blocks):
        for s in blk["s"]:
            if s["k"] == "assign" and s["p"]["l"] == 0 and not s["p"]["pr"]:
                r = s["r"]
                if r["k"] == "agg" and r["ak"] == "adt":
                    out[r["variant"]].add(bi)
                else:
                    out["other"].add(bi)
        t = blk["t"]
        if t["k"] == "call" and t["d"]["l"] == 0 and not t["d"]["pr"]:
            names = callee_names(t)
            if any("FromResidual" in n and n.endswith("from_residual") for n in names):
                out["residual"].add(bi)
            else:
                out["call"].add(bi)
    return out


def return_blocks(b):
    return [bi for bi, blk in enumerate(b.blocks) if blk["t"]["k"] == "return"]


def edge_fail_closed(b, src, dst, good=("Ok", "Continue")):
    """True iff no path starting with edge src->dst reaches a block that assigns a `good`
    variant to `_0`.  Returns (bool, offending_block)."""
    rb = ret_blocks(b)
    goodb = set()
    for g in good:
        goodb |= rb.get(g, set())
    # plain calls assigning _0 (e.g. `_0 = helper()`): unknown -> treated as good (conservative)
    goodb |= rb.get("call", set())
    goodb |= rb.get("other", set())
    reach = b.reachable_from(dst)
    hit = sorted(reach & goodb)
    # the construct must actually reach a return with an error variant
    return (not hit), (hit[0] if hit else None)


def edge_reaches_variant(b, dst, variants):
    rb = ret_blocks(b)
    want = set()
    for v in variants:
        want |= rb.get(v, set())
    return bool(b.reachable_from(dst) & want)


# ------------------------------------------------------------------ control dependence
def control_deps(b):
    """dict block -> set of (switch_block, successor) edges it is control dependent on."""
    succ = b.succ()
    out = defaultdict(set)
    live = b.live_blocks()
    for a in live:
        ss = succ[a]
        if len(ss) < 2:
            continue
        for s in ss:
            # walk up post-dominator tree from s until ipdom(a)
            ip = b.ipdom()
            stop = ip.get(a)
            x = s
            guard = 0
            while x is not None and x != stop and guard < 100000:
                out[x].add((a, s))
                nx = ip.get(x)
                if nx is None or nx == x or nx == len(b.blocks):
                    break
                x = nx
                guard += 1
    return out


# ------------------------------------------------------------------ defs inside a body
def defs_of(b, local):
    """All (block, idx|'t', rvalue-or-term) writing bare local `local`."""
    out = []
    seen = set()
    for bi, blk in enumerate(b.blocks):
        # copies of one block made by variant threading (rules/inline.py) are one definition site
        origin = blk["thr"][0] if blk.get("thr") else bi
        for si, s in enumerate(blk["s"]):
            if s["k"] == "assign" and s["p"]["l"] == local and not s["p"]["pr"]:
                if (origin, si) in seen:
                    continue
                seen.add((origin, si))
                out.append((bi, si, s["r"]))
        t = blk["t"]
        if t["k"] == "call" and t["d"]["l"] == local and not t["d"]["pr"]:
            if (origin, "t") in seen:
                continue
            seen.add((origin, "t"))
            out.append((bi, "t", t))
    return out


def single_def(b, local):
    d = defs_of(b, local)
    return d[0] if len(d) == 1 else None


def peel(b, operand, max_steps=40):
    """Follow copies/moves/refs/derefs of temporaries back to the 'origin' of an operand:
    returns a list of steps; last element is the defining rvalue/term or a place."""
    steps = []
    cur = operand
    for _ in range(max_steps):
        if cur["k"] == "const":
            steps.append(("const", cur))
            return steps
        p = cur["p"]
        l = p["l"]
        if any(isinstance(e, dict) and ("f" in e or "i" in e) for e in p["pr"]):
            steps.append(("place", p))
            return steps
        d = single_def(b, l)
        if d is None:
            steps.append(("place", p))
            return steps
        bi, si, r = d
        if si == "t":
            steps.append(("call", bi, r))
            return steps
        if r["k"] == "use":
            cur = r["o"]
            continue
        if r["k"] == "ref":
            cur = {"k": "copy", "p": r["p"]}
            continue
        if r["k"] == "cast":
            cur = r["o"]
            continue
        steps.append(("rvalue", bi, si, r))
        return steps
    return steps


def root_local(b, operand, max_steps=40):
    """The variable an operand refers to: follows copies, (re)borrows and Deref/AsRef/Borrow calls
    back to the first *named* local (or a local with several definitions)."""
    cur = operand
    for _ in range(max_steps):
        if cur["k"] == "const":
            return None
        p = cur["p"]
        l = p["l"]
        if b.locals[l]["name"] and not (1 <= l <= b.argc and False):
            return l
        d = single_def(b, l)
        if d is None:
            return l
        bi, si, r = d
        if si == "t":
            names = callee_names(r)
            if any(n.endswith(("::deref", "::deref_mut", "::as_slice", "::as_ref", "::borrow", "::as_mut_slice", "::as_mut")) for n in names) and r["args"]:
                cur = r["args"][0]
                continue
            return l
        if r["k"] == "use":
            cur = r["o"]
            continue
        if r["k"] == "ref":
            cur = {"k": "copy", "p": r["p"]}
            continue
        if r["k"] == "cast":
            cur = r["o"]
            continue
        return l
    return None


def origin_call(b, operand):
    """If the operand ultimately comes from a call result, return (block, term) else None."""
    st = peel(b, operand)
    if st and st[-1][0] == "call":
        return st[-1][1], st[-1][2]
    return None


# ------------------------------------------------------------------ field reads
def field_reads(b, adt_suffix, names=None):
    """Statements/terminators reading a place with a Field projection on ADT (path suffix match).
    yields (block, idx|'t', field_name, place, dst_local or None)."""
    def scan_place(p):
        for e in p["pr"]:
            if isinstance(e, dict) and "f" in e and e.get("a") and e["a"].endswith(adt_suffix):
                if names is None or e["n"] in names:
                    yield e["n"]

    def scan_operand(o):
        if o["k"] in ("copy", "move"):
            yield from scan_place(o["p"])

    for bi, blk in enumerate(b.blocks):
        for si, s in enumerate(blk["s"]):
            if s["k"] != "assign":
                continue
            r = s["r"]
            ps = []
            if r["k"] in ("use", "cast", "repeat"):
                ps = list(scan_operand(r["o"]))
            elif r["k"] in ("ref", "discr", "rawptr"):
                ps = list(scan_place(r["p"]))
            elif r["k"] == "bin":
                ps = list(scan_operand(r["a"])) + list(scan_operand(r["b"]))
            elif r["k"] == "un":
                ps = list(scan_operand(r["a"]))
            elif r["k"] == "agg":
                for o in r["ops"]:
                    ps += list(scan_operand(o))
            for n in ps:
                yield bi, si, n, s["p"]
        t = blk["t"]
        if t["k"] == "call":
            for o in t["args"]:
                for n in scan_operand(o):
                    yield bi, "t", n, t["d"]
        elif t["k"] == "switch":
            for n in scan_operand(t["o"]):
                yield bi, "t", n, None


# ------------------------------------------------------------------ call graph
class CallGraph:
    def __init__(self, fg):
        """Built from a FlowGraph's resolved calls; nodes are body keys. Construction edges
        (closure / coroutine aggregates) connect a body to the closures it builds."""
        self.fg = fg
        self.out = defaultdict(set)
        for bk, bi, t, targets in fg.calls:
            for tk in targets:
                self.out[bk].add(tk)
        for bk, b in fg.bodies.items():
            for blk in b.blocks:
                for s in blk["s"]:
                    if s["k"] == "assign" and s["r"]["k"] == "agg" and s["r"].get("def"):
                        for ck in fg.by_id.get(s["r"]["def"], []):
                            if fg.bodies[ck].krate == b.krate:
                                self.out[bk].add(ck)
        # closures mentioned only in types (passed as fn items) are reached through aggregates

    def closure(self, roots):
        seen = set(roots)
        st = list(roots)
        while st:
            x = st.pop()
            for y in self.out.get(x, ()):
                if y not in seen:
                    seen.add(y)
                    st.append(y)
        return seen


def family_keys(fg, owner, krate=None):
    return [k for k, b in fg.bodies.items() if b.owner == owner and (krate is None or b.krate == krate)]


def where(b, bi, idx="t"):
    blk = b.blocks[bi]
    if idx == "t":
        return fl(blk["t"].get("sp", b.span))
    return fl(blk["s"][idx].get("sp", b.span))


# ------------------------------------------------------------------ slice classification
class SliceInfo:
    """What a backward slice is made of."""

    def __init__(self, fg, seeds, edge_ok=None):
        self.fg = fg
        self.reach = fg.backward(seeds, edge_ok=edge_ok)
        self.fields = set()       # ("F", adt, name)
        self.prims = []           # (body, block, term) primitive calls whose result is in the slice
        self.literals = []        # (body, block, idx, const operand)
        self.ranges = []          # (body, block, idx)
        self.calls = []           # (body, block, term) extern/unknown calls whose result is in the slice
        locs = defaultdict(set)
        for n in self.reach:
            if n[0] == "F":
                self.fields.add(n)
            else:
                locs[n[0]].add(n[1])
        for bk, ls in locs.items():
            b = fg.bodies[bk]
            for bi, blk in enumerate(b.blocks):
                for si, s in enumerate(blk["s"]):
                    if s["k"] != "assign" or s["p"]["l"] not in ls:
                        continue
                    r = s["r"]
                    if r["k"] == "use" and r["o"]["k"] == "const" and "v" in r["o"]:
                        self.literals.append((b, bi, si, r["o"]))
                    elif r["k"] == "agg":
                        if r.get("adt", "").startswith("core::ops::range::Range"):
                            self.ranges.append((b, bi, si))
                        for o in r["ops"]:
                            if o["k"] == "const" and "v" in o and o["ty"] != "()":
                                self.literals.append((b, bi, si, o))
                    elif r["k"] in ("bin", "cast"):
                        for o in (r.get("a"), r.get("b"), r.get("o")):
                            if o and o["k"] == "const" and "v" in o:
                                self.literals.append((b, bi, si, o))
                t = blk["t"]
                if t["k"] == "call" and t["d"]["l"] in ls:
                    names = callee_names(t)
                    if any(n in fg.primitives for n in names):
                        self.prims.append((b, bi, t))
                    else:
                        self.calls.append((b, bi, t))
                    # `a..=b` is a call, not an aggregate
                    if any("ops::range::RangeInclusive" in n and n.endswith("::new") for n in names):
                        self.ranges.append((b, bi, "t"))
                    for o in t["args"]:
                        if o["k"] == "const" and "v" in o and o["ty"] not in ("()",):
                            self.literals.append((b, bi, "t", o))

    def field_names(self, adt=None):
        return {n[2] for n in self.fields if adt is None or n[1] == adt}


def construction_chain(fg, bk):
    """[(parent body key, block, stmt idx)] sites that build closure/coroutine body bk, walking up
    to the family's root."""
    out = []
    cur = bk
    guard = 0
    while guard < 32:
        guard += 1
        b = fg.bodies[cur]
        if not b.parent:
            break
        found = None
        for pk in fg.by_id.get(b.parent, []):
            pb = fg.bodies[pk]
            if pb.krate != b.krate:
                continue
            for bi, blk in enumerate(pb.blocks):
                for si, s in enumerate(blk["s"]):
                    if s["k"] == "assign" and s["r"]["k"] == "agg" and s["r"].get("def") == b.id:
                        found = (pk, bi, si)
                        break
                if found:
                    break
            if found:
                break
        if not found:
            break
        out.append(found)
        cur = found[0]
    return out


def true_edges_of_call(b, pred):
    """For calls satisfying pred(block, term) whose bool result is switched on - right away or later
    through a local that caches it (`let is_member = set.contains(&x); .. if is_member {..}`): list of
    (call_block, switch_block, true_target, false_target)."""
    out = []
    for bi, t in b.calls():
        if not pred(bi, t):
            continue
        if t["t"] is None or t["d"]["pr"]:
            continue
        # locals holding the result (or its negation): plain copies / `Not` of a holder, defined once
        hold = {t["d"]["l"]: False}
        changed = True
        while changed:
            changed = False
            for blk in b.blocks:
                for s in blk["s"]:
                    if s["k"] != "assign" or s["p"]["pr"] or s["p"]["l"] in hold:
                        continue
                    r = s["r"]
                    src = None
                    neg = False
                    if r["k"] == "use" and r["o"]["k"] != "const" and not r["o"]["p"]["pr"]:
                        src = r["o"]["p"]["l"]
                    elif r["k"] == "un" and r.get("op") == "Not" and r["a"]["k"] != "const" and not r["a"]["p"]["pr"]:
                        src, neg = r["a"]["p"]["l"], True
                    if src in hold and len(defs_of(b, s["p"]["l"])) == 1:
                        hold[s["p"]["l"]] = hold[src] ^ neg
                        changed = True
        if len(defs_of(b, t["d"]["l"])) != 1:
            hold = {t["d"]["l"]: False}
        for cur, blk in enumerate(b.blocks):
            tt = blk["t"]
            if tt["k"] != "switch" or tt["o"]["k"] == "const" or tt["o"]["p"]["pr"] or tt["o"]["p"]["l"] not in hold:
                continue
            if not (cur == t["t"] or b.dominates(bi, cur)):
                continue
            zero = None
            for v, tb in tt["ts"]:
                if v == "0":
                    zero = tb
            other = tt["else"]
            if zero is None:
                continue
            neg = hold[tt["o"]["p"]["l"]]
            tr, fa = (other, zero) if not neg else (zero, other)
            out.append((bi, cur, tr, fa))
    return out


def site_dominated_by_edge(fg, bk, block, edges_by_body):
    """Is (body bk, block) - or any construction site up the closure chain - dominated by one of
    the given edges?  edges_by_body: body key -> [(src, dst)]."""
    cur_bk, cur_block = bk, block
    chain = construction_chain(fg, bk)
    levels = [(bk, block)] + [(pk, bi) for pk, bi, si in chain]
    for k, blk in levels:
        b = fg.bodies[k]
        for (s, d) in edges_by_body.get(k, []):
            if b.edge_dominates(s, d, blk):
                return True
    return False


def plain_value_origin(fg, bk, operand, fam_owner=None):
    """How an operand's value is obtained when only moves / borrows / captures are followed:
    (names of the calls whose result it is, True if some definition on the way computes it
    with arithmetic or from several values)."""
    if operand["k"] == "const":
        return set(), False
    plain = lambda e: e.kind in ("copy", "ref", "base2field", "field2whole", "upvar", "closarg", "callarg")
    ok_node = (lambda x: x[0] != "F" and fg.bodies[x[0]].owner == fam_owner) if fam_owner else (lambda x: x[0] != "F")
    back = fg.backward(fg.operand_nodes(bk, operand), node_ok=ok_node, edge_ok=plain)
    calls, computed = set(), False
    for x in back:
        for e in fg.inn.get(x, ()):
            if e.kind in ("bin", "un", "cast"):
                computed = True
            elif e.kind in ("call", "lcall"):
                names = (e.info or {}).get("names") if isinstance(e.info, dict) else None
                if names:
                    calls.add(names[0])
    return calls, computed


def option_tests(b):
    """Every switch that tests the presence of an Option / the success of a Result, directly
    (`match x`, `if let Some(..) = x`, `let .. else`) or through `?` (`Try::branch(x)`):
    yields (switch block, tested place dict, absent/err target, present/ok target, via_try)."""
    out = []
    live = b.live_blocks()
    for bi, blk in enumerate(b.blocks):
        t = blk["t"]
        if t["k"] != "switch" or bi not in live or t["o"]["k"] == "const":
            continue
        for s in blk["s"]:
            if s["k"] == "assign" and s["r"]["k"] == "discr" and s["p"]["l"] == t["o"]["p"]["l"] and not s["p"]["pr"]:
                p = s["r"]["p"]
                ty = p.get("ty", "").lstrip("&")
                tm = {v: tb for v, tb in t["ts"]}
                if ty.startswith("core::option::Option<"):
                    none_t = tm.get("0", t["else"])
                    some_t = tm.get("1", t["else"])
                    out.append((bi, p, none_t, some_t, False))
                elif ty.startswith("core::result::Result<"):
                    err_t = tm.get("1", t["else"])
                    ok_t = tm.get("0", t["else"])
                    out.append((bi, p, err_t, ok_t, False))
                elif ty.startswith("core::ops::control_flow::ControlFlow<") and not p["pr"]:
                    d = defs_of(b, p["l"])
                    if len(d) == 1 and d[0][1] == "t":
                        ct = d[0][2]
                        names = callee_names(ct)
                        if any(n.endswith("Try::branch") for n in names) and ct["args"] and ct["args"][0]["k"] != "const":
                            a = ct["args"][0]["p"]
                            aty = a.get("ty", "").lstrip("&")
                            if aty.startswith("core::option::Option<") or aty.startswith("core::result::Result<"):
                                brk = tm.get("1", t["else"])
                                cont = tm.get("0", t["else"])
                                # the argument is usually a temporary moved from the tested value
                                src = a
                                dd = defs_of(b, a["l"]) if not a["pr"] else []
                                if len(dd) == 1 and dd[0][1] != "t" and dd[0][2]["k"] == "use" and dd[0][2]["o"]["k"] != "const":
                                    src = dd[0][2]["o"]["p"]
                                out.append((bi, src, brk, cont, True))
    return out


def option_return_blocks(b):
    """(blocks that hand back None, blocks that hand back Some(..)) for a function returning Option: aggregates
    written to `_0`, the early return of `?` (None), and calls whose result variant is known from variant
    threading (`helper(..).map(f)` on a path where the helper returned None)."""
    none_b, some_b = set(), set()
    opt = b.locals[0]["ty"].startswith("core::option::Option<")
    for bi, blk in enumerate(b.blocks):
        for s in blk["s"]:
            if s["k"] == "assign" and s["p"]["l"] == 0 and not s["p"]["pr"] and s["r"]["k"] == "agg" and s["r"].get("adt", "").endswith("option::Option"):
                (none_b if s["r"]["variant"] == "None" else some_b).add(bi)
            if s["k"] == "retnote" and s["adt"].endswith("option::Option"):
                (none_b if s["vi"] == 0 else some_b).add(bi)
        t = blk["t"]
        if opt and t["k"] == "call" and t["d"]["l"] == 0 and not t["d"]["pr"] and any(n.endswith("from_residual") for n in callee_names(t)):
            none_b.add(bi)
    return none_b, some_b


def cond_switches(b):
    """For every switch of b: the statement / call that computes its condition, found through plain moves, `!`,
    and fields of a tuple of flags (`match (a == b, v.is_empty()) { .. }`):
    ({(block, stmt idx): [switch block]}, {call block: [switch block]})."""
    by_stmt, by_call = {}, {}
    for sb, blk in enumerate(b.blocks):
        t = blk["t"]
        if t["k"] != "switch" or t["o"]["k"] == "const" or sb not in b.live_blocks():
            continue
        p = t["o"]["p"]
        cur, fld = p["l"], None
        if p["pr"]:
            if len(p["pr"]) == 1 and isinstance(p["pr"][0], dict) and "f" in p["pr"][0]:
                fld = p["pr"][0]["f"]
            else:
                continue
        for _ in range(8):
            ds = defs_of(b, cur)
            if len(ds) != 1:
                break
            dbi, si, r = ds[0]
            if si == "t":
                if fld is None:
                    by_call.setdefault(dbi, []).append(sb)
                break
            if fld is not None:
                if r["k"] == "agg" and r.get("ak") == "tuple" and fld < len(r["ops"]) and r["ops"][fld]["k"] != "const" and not r["ops"][fld]["p"]["pr"]:
                    cur, fld = r["ops"][fld]["p"]["l"], None
                    continue
                break
            if r["k"] == "bin":
                by_stmt.setdefault((dbi, si), []).append(sb)
                break
            if r["k"] == "use" and r["o"]["k"] != "const":
                op = r["o"]["p"]
                if not op["pr"]:
                    cur = op["l"]
                    continue
                if len(op["pr"]) == 1 and isinstance(op["pr"][0], dict) and "f" in op["pr"][0]:
                    cur, fld = op["l"], op["pr"][0]["f"]
                    continue
                break
            if r["k"] == "un" and r["a"]["k"] != "const" and not r["a"]["p"]["pr"]:
                cur = r["a"]["p"]["l"]
                continue
            # `match (v.get(i), flag) { (None, _) => .. }`: the discriminant of an Option kept in a tuple slot
            if r["k"] == "discr":
                dp = r["p"]
                if not dp["pr"]:
                    cur = dp["l"]
                    continue
                if len(dp["pr"]) == 1 and isinstance(dp["pr"][0], dict) and "f" in dp["pr"][0]:
                    cur, fld = dp["l"], dp["pr"][0]["f"]
                    continue
            break
    return by_stmt, by_call

