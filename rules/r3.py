"""Rule families R3 (must-precede across awaits) and R4 (challenge coins) for C04."""
from mir import callee, callee_names
from an import where, defs_of, root_local
from chan import PRIMS
from common import fl
import sec as secmod

RNG_TY = "rand_chacha::chacha::ChaCha20Rng"


def await_ready_edge(S, bk, b, call_block):
    """For a call that creates a future in `call_block`: the (switch block, Ready target) of the
    `.await` that polls it, or None if the future is not awaited in this body."""
    fg = S.fg
    t = b.blocks[call_block]["t"]
    seed = fg.node_of_place(bk, t["d"])
    reach = fg.forward([seed], edge_ok=secmod.struct_edge, node_ok=lambda n: n[0] == bk)
    for bi, tt in b.calls():
        if not any(n.endswith("Future::poll") for n in callee_names(tt)):
            continue
        a = tt["args"][0]
        if a["k"] == "const":
            continue
        if not any(n in reach for n in fg.operand_nodes(bk, a)):
            continue
        # switch on the discriminant of the poll result
        nb = tt["t"]
        if nb is None:
            continue
        st = b.blocks[nb]["t"]
        if st["k"] == "switch":
            tm = {v: tb for v, tb in st["ts"]}
            if "0" in tm:
                return nb, tm["0"]
    return None


def site_in(S, owner_suffix, label, kinds=None):
    out = []
    for s in S.inv.direct_sites():
        if s.body.owner.endswith(owner_suffix) and label in (s.label or []):
            if kinds is None or s.kind in kinds:
                out.append(s)
    return out


ORDER = [
    # (function, first label, second label, why)
    ("mpc::faand::shared_rng", "RNG comm", "RNG ver", "multi-party coin toss: all commitments received before the own seed is revealed"),
    ("mpc::faand::shared_rng_pairwise", "RNG comm", "RNG ver", "pairwise coin toss: all commitments received before the own seeds are revealed"),
    ("mpc::faand::fashare", "fashare comm", "fashare ver", "aShare: commitments to d0/d1/dm before dm is opened"),
    ("mpc::faand::fashare", "fashare ver", "fashare di_bi", "aShare: MAC decommitments before the selected key sum is opened"),
    ("mpc::faand::flaand", "flaand comm", "flaand hash", "LaAND: commitment to H_i before H_i is opened"),
]


def rule_order(S, res):
    fg = S.fg
    for fn, la, lb, why in ORDER:
        inst = "%s|%s<%s" % (fn.rsplit("::", 1)[-1], la, lb)
        A = site_in(S, fn, la)
        B = site_in(S, fn, lb)
        if not A or not B:
            res.bad("R3.order", inst, "cannot locate the %s round (%r) or the %s round (%r) in %s" % ("commit", la, "reveal", lb, fn))
            continue
        ok = True
        for sb in B:
            dominated = False
            for sa in A:
                if sa.bk != sb.bk:
                    continue
                b = sa.body
                re = await_ready_edge(S, sa.bk, b, sa.block)
                if re and b.edge_dominates(re[0], re[1], sb.block):
                    dominated = True
            if not dominated:
                ok = False
                res.bad("R3.order", inst, "the %r round can start before the %r round has completed for all parties (%s)" % (lb, la, why), fl(sb.sp))
        if ok:
            res.ok("R3.order", inst, fl(B[0].sp), "completed await of %r dominates the creation of the %r exchange" % (la, lb))


def rule_commit_binding(S, res):
    """The value that is revealed is the value that was committed (same local feeds both)."""
    fg = S.fg
    pairs = [
        ("mpc::faand::shared_rng", "RNG comm", "RNG ver"),
        ("mpc::faand::shared_rng_pairwise", "RNG comm", "RNG ver"),
        ("mpc::faand::flaand", "flaand comm", "flaand hash"),
    ]
    for fn, la, lb in pairs:
        inst = "%s|%s~%s" % (fn.rsplit("::", 1)[-1], la, lb)
        A = [s for s in site_in(S, fn, la)]
        B = [s for s in site_in(S, fn, lb)]
        if not A or not B:
            continue
        sa, sb = A[0], B[0]
        b = sb.body
        # payload argument = last argument of the primitive
        pb = sb.term["args"][-1]
        pa = sa.term["args"][-1]
        rl = root_local(b, pb)
        if rl is None or sa.bk != sb.bk:
            res.bad("R3.bind", inst, "cannot identify the revealed value")
            continue
        back = fg.backward(fg.operand_nodes(sa.bk, pa), node_ok=lambda n: n[0] == sa.bk, local=True)
        if any(n[1] == rl for n in back if n[0] == sa.bk):
            # and it went through commit()
            through = False
            locs = {n[1] for n in back if n[0] == sa.bk}
            for bi, t in b.calls():
                if "polytune::mpc::faand::commit" in callee_names(t) and t["d"]["l"] in locs:
                    through = True
                # `values.iter().map(|v| commit(..v..)).collect()`: the commitment is built by the closure of an adaptor
                # whose result is the payload
                if t["d"]["l"] in locs:
                    for a in t["args"]:
                        aty = a["p"]["ty"] if a["k"] != "const" else a.get("ty", "")
                        if "{closure:" in aty:
                            cid = aty[aty.index("{closure:") + 9:]
                            cid = cid[:cid.rindex("}")] if "}" in cid else cid
                            for ck in fg.by_id.get(cid, []):
                                cb = fg.bodies[ck]
                                if any("polytune::mpc::faand::commit" in callee_names(ct) for _cbi, ct in cb.calls()):
                                    through = True
            if through:
                res.ok("R3.bind", inst, fl(sa.sp), "the committed payload is commit(..) of the value `%s` that is later revealed" % (b.locals[rl]["name"] or rl))
            else:
                res.bad("R3.bind", inst, "the %r payload is not a commitment (faand::commit) of the revealed value" % la, fl(sa.sp))
        else:
            res.bad("R3.bind", inst, "the value revealed in %r is not the one committed to in %r" % (lb, la), fl(sb.sp))


def rule_commit_components(S, res):
    """Every Commitment-typed component of a received commitment tuple reaches open_commitment."""
    fg = S.fg
    CT = "polytune::mpc::faand::Commitment"
    for l in ("fashare comm",):
        comp = S.comp.get(l, {})
        # locals that are (refs to) the received tuple
        seen_fields = {}
        arity = None
        where_ = ""
        for n in comp:
            if n[0] == "F":
                continue
            ty = S.node_ty(n).lstrip("&")
            if ty.startswith("(" + CT):
                arity = ty.count(CT)
                bk = n[0]
                b = fg.bodies[bk]
                where_ = fl(b.span)
                for f in sorted(fg.fields.get((bk, n[1]), ())):
                    fn_ = (bk, n[1], f)
                    fwd = fg.forward([fn_], edge_ok=secmod.struct_edge, node_ok=lambda x: x[0] == bk)
                    opened = False
                    for bi, t in b.calls():
                        if "polytune::mpc::faand::open_commitment" in callee_names(t):
                            a0 = t["args"][0]
                            if a0["k"] != "const" and any(x in fwd for x in fg.operand_nodes(bk, a0)):
                                opened = True
                    seen_fields[f] = seen_fields.get(f, False) or opened
        if arity is None:
            res.bad("R2.1c", "%s|components" % l, "cannot locate the received commitment tuples of %r" % l)
            continue
        names = {0: "c0", 1: "c1", 2: "cm"}
        for f in range(arity):
            inst = "%s|component-%d(%s)" % (l, f, names.get(f, "?"))
            if seen_fields.get(f):
                res.ok("R2.1c", inst, where_, "opened with open_commitment")
            else:
                res.bad("R2.1c", inst, "commitment component %d (%s) of %r is received but never opened: the decommitted value is not bound to it" % (f, names.get(f, "?"), l), where_,
                        key="R2.1c|%s|component-%d" % (l, f))


def rule_replicated_draw(S, res):
    """R4.c: a vector of random coefficients / secret bits is never built by drawing once and
    replicating the value (`vec![rng.random(); n]`, `repeat(x)`): all entries would be equal, a check
    with such coefficients only constrains the XOR of all rows."""
    fg = S.fg
    n = 0
    bad = 0
    DRAW = ("fill_bytes", "random", "next_u64", "next_u32", "random_range", "random_bool", "sample", "gen", "random_bits")
    for bk, b in fg.bodies.items():
        if b.krate != "polytune" or "bench" in b.owner or "::fpre::" in b.owner:
            continue
        for bi, t in b.calls():
            cn = callee_names(t)
            if not cn or bi not in b.live_blocks():
                continue
            tl = cn[-1].rsplit("::", 1)[-1]
            if not (cn[-1].endswith("vec::from_elem") or tl in ("repeat", "repeat_n", "resize")):
                continue
            el = t["args"][1] if tl == "resize" and len(t["args"]) > 2 else t["args"][0]
            if tl == "resize":
                el = t["args"][2] if len(t["args"]) > 2 else None
            if el is None or el["k"] == "const":
                continue
            n += 1
            back = fg.backward(fg.operand_nodes(bk, el), node_ok=lambda x: x[0] == bk, edge_ok=lambda e: e.kind in ("copy", "cast", "ref", "agg", "field2whole", "base2field", "un", "bin"))
            bl = {x[1] for x in back}
            for cbi, ct in b.calls():
                ccn = callee_names(ct)
                if ct["d"]["l"] in bl and ccn and (ccn[0] in ("rand::random",) or (ccn[0].rsplit("::", 1)[-1] in DRAW and ("rand" in ccn[0] or "Rng" in ccn[0]))):
                    bad += 1
                    res.bad("R4.c", "%s|%s" % (b.owner.rsplit("::", 1)[-1], tl), "one random draw is replicated into every entry of a vector (`vec![draw; n]`): the entries are all equal, so e.g. a consistency check with these coefficients only constrains the XOR of all rows", where(b, bi),
                            key="R4.c|%s|%s" % (b.owner.rsplit("::", 1)[-1], tl))
                    break
    res.count("replicating_vector_constructions", n)
    if not bad:
        res.ok("R4.c", "engine", "", "%d vec![x; n] / repeat constructions with a non-constant element: none replicates a random draw" % n)


def rule_coins(S, res):
    """R4: draws from the shared (public-coin) ChaCha20 generators."""
    fg = S.fg
    n_draw = 0
    n_clone = 0
    for bk, b in fg.bodies.items():
        if not (b.owner.startswith("polytune::mpc::") or b.owner.startswith("polytune::ot") or b.owner.startswith("polytune::<ot") or b.owner.startswith("polytune::<mpc")):
            continue
        for bi, t in b.calls():
            if bi not in b.live_blocks():
                continue
            names = callee_names(t)
            if not names:
                continue
            tail = names[0].rsplit("::", 1)[-1]
            argtys = [a["p"]["ty"] if a["k"] != "const" else "" for a in t["args"]]
            fn = b.owner.rsplit("::", 1)[-1]
            mod = b.owner.split("::")[-2] if "::" in b.owner else ""
            if tail == "clone" and any(RNG_TY in x for x in argtys) and "Clone" in names[0]:
                n_clone += 1
                res.bad("R4.a", "%s|clone" % fn, "a shared challenge generator is cloned: every clone replays the same coin stream, so the check coefficients repeat between checks", where(b, bi),
                        key="R4.a|%s|clone" % fn)
            is_draw = False
            if tail in ("fill_bytes", "random", "shuffle", "next_u64", "next_u32", "random_range", "random_bool", "fill", "sample") and any(x.lstrip("&mut ").startswith(RNG_TY) or x == "&mut " + RNG_TY for x in argtys):
                is_draw = True
            if is_draw:
                n_draw += 1
                owner_short = b.owner.replace("polytune::", "")
                short = "kos::%s" % fn if "kos" in b.owner else fn
                res.bad("R4.b", "%s|%s" % (short, tail),
                        "challenge coins are drawn from a generator that was seeded by the initial coin toss, i.e. before the data under check was sent (the coins are predictable from the coin-toss openings)",
                        where(b, bi), key="R4.b|%s|%s" % (short, tail))
    res.floor("challenge_draw_sites", n_draw, 1)
    res.count("generator_clone_sites", n_clone)


def rule_bind_id(S, res):
    """R3.bind-id: where the acceptance of opened values is *symmetric* - the own committed value and
    the peers' opened values are folded together and the fold is only compared with the constant 0
    (Pi_LaAND) or becomes the result without any check (coin tossing) - a peer that mirrors the own
    commitment and then the own opening cancels the own contribution.  There the committed bytes must
    contain the id of the committing party (data, not an index) and the bytes an opening is checked
    against must contain the id of the party whose commitment is opened."""
    fg = S.fg
    n_sym = 0
    def is_index_operand(e):
        """edge from the *index* of an indexing operation (built-in or Index::index / get) to its result"""
        if e.kind == "index":
            return True
        if e.kind == "call" and isinstance(e.info, dict) and e.info.get("arg") == 1:
            nm = (e.info.get("names") or [""])[-1].rsplit("::", 1)[-1]
            return nm in ("index", "index_mut", "get", "get_mut", "get_unchecked")
        return False
    BYTES = {"to_be_bytes", "to_le_bytes", "to_ne_bytes", "copy_from_slice", "clone_from_slice", "extend_from_slice", "extend", "push", "concat",
             "to_vec", "into", "from", "try_into", "deref", "deref_mut", "index", "index_mut", "as_slice", "as_mut_slice", "as_ref", "as_mut", "borrow",
             "borrow_mut", "clone", "to_owned", "unwrap", "expect", "get", "get_mut", "as_bytes", "to_string", "iter", "copied", "cloned", "collect", "chain"}

    def data_edge(e):
        """value-preserving edges only: the id has to be *part of* the bytes, not merely influence which
        values are computed (loop filters, iterator adaptors, closures)"""
        if is_index_operand(e):
            return False
        if e.kind in ("copy", "ref", "cast", "agg", "base2field", "field2whole", "mutarg", "mutarg2", "alias", "alias_fb", "lcall", "callarg", "ret", "upvar"):
            return True
        if e.kind == "call" and isinstance(e.info, dict):
            nm = (e.info.get("names") or [""])[-1]
            return nm.rsplit("::", 1)[-1] in BYTES or nm.startswith("polytune::")
        return False
    for fn, la, lb, why in ORDER:
        A = site_in(S, fn, la)
        B = site_in(S, fn, lb)
        if not A or not B:
            continue
        owner = A[0].body.owner
        fam = lambda x: x[0] != "F" and fg.bodies[x[0]].owner == owner
        inst = "%s|%s" % (fn.rsplit("::", 1)[-1], la)
        # own reveal payload and what is computed from it
        FP = set()
        for sb in B:
            if not (PRIMS[sb.prim][1]):
                continue
            FP |= set(fg.forward(fg.operand_nodes(sb.bk, sb.term["args"][-1]), node_ok=fam, edge_ok=lambda e: e.kind != "shape", local=True).keys())
            pb = fg.backward(fg.operand_nodes(sb.bk, sb.term["args"][-1]), node_ok=lambda x: x[0] == sb.bk, edge_ok=lambda e: e.kind in ("ref", "copy", "cast") or (e.kind == "call" and (e.info or {}).get("names") and e.info["names"][-1].rsplit("::", 1)[-1] in ("deref", "as_slice", "as_ref", "borrow")))
            FP |= set(fg.forward(list(pb), node_ok=fam, edge_ok=lambda e: e.kind != "shape", local=True).keys())
        comps_b = {x for x in S.comp.get(lb, {}) if x[0] != "F" and fam(x)}
        if not FP or not comps_b:
            continue
        symmetric = None
        FC = FPd = None
        for c in S.checks():
            if c.body.owner != owner or not ("ZERO" in c.ing or "LIT:0" in c.ing):
                continue
            if (set(c.cond_nodes) & FP) and (set(c.comp) & comps_b):
                symmetric = ("the fold of the own and the opened values is only compared with 0", c.where())
        for k, b in fg.bodies.items():
            if b.owner != owner:
                continue
            for bi, t in b.calls():
                if any(x.endswith("SeedableRng::from_seed") or x.endswith("::from_seed") for x in callee_names(t)) and t["args"] and t["args"][0]["k"] != "const":
                    back = fg.backward(fg.operand_nodes(k, t["args"][0]), node_ok=fam, local=True)
                    if FC is None:
                        FC = set(fg.forward(list(comps_b), node_ok=fam, edge_ok=lambda e: e.kind != "shape", local=True, deep=True).keys())
                        FPd = set(fg.forward(list(FP), node_ok=fam, edge_ok=lambda e: e.kind != "shape", local=True, deep=True).keys())
                    near = set(fg.backward(fg.operand_nodes(k, t["args"][0]), node_ok=fam, edge_ok=lambda e: e.kind in ("copy", "ref")))
                    # (the fold may happen through a `&mut` element handed to a closure: `*a ^= *b` in for_each)
                    through_mut = any(S.node_ty(x).startswith("&mut") for x in (FPd & FC))
                    if ((set(back) & FP) and (set(back) & comps_b)) or ((near & FPd) and ((near & FC) or through_mut)):
                        symmetric = ("the fold of the own and the opened values becomes a generator seed without any check", where(b, bi))
        if not symmetric:
            res.ok("R3.bind-id", inst, "", "opened values are not accepted through a symmetric fold with the own value (no mirror attack surface)")
            continue
        n_sym += 1
        # own index: the `i` argument of the channel primitives of this function
        own = set()
        for s_ in A + B:
            o = s_.term["args"][1]
            if o["k"] != "const":
                own |= {x for x in fg.backward(fg.operand_nodes(s_.bk, o), node_ok=fam, edge_ok=lambda e: e.kind in ("copy", "ref", "upvar", "base2field", "field2whole"))}
        probs = []
        n_commit = n_open = 0
        for k, b in fg.bodies.items():
            if b.owner != owner:
                continue
            for bi, t in b.calls():
                cn = callee_names(t)
                if "polytune::mpc::faand::commit" in cn and bi in b.live_blocks():
                    n_commit += 1
                    back = fg.backward(fg.operand_nodes(k, t["args"][0]), node_ok=fam, edge_ok=data_edge, local=True)
                    if not (set(back) & own):
                        probs.append((b, bi, "the committed bytes do not contain the id of the committing party"))
                if "polytune::mpc::faand::open_commitment" in cn and bi in b.live_blocks():
                    n_open += 1
                    b0 = fg.backward(fg.operand_nodes(k, t["args"][0]), node_ok=fam, edge_ok=lambda e: True, local=True)
                    idx = set()
                    for x in b0:
                        for e in fg.inn.get(x, ()):
                            if is_index_operand(e) and fam(e.src):
                                idx |= set(fg.backward([e.src], node_ok=fam, edge_ok=lambda e2: e2.kind in ("copy", "ref", "cast", "upvar", "base2field", "field2whole")))
                    b1 = fg.backward(fg.operand_nodes(k, t["args"][1]), node_ok=fam, edge_ok=data_edge, local=True)
                    bound = bool(set(b1) & idx)
                    if not bound:
                        # via a per-party table: the bytes are read from C[k] (k also selects the commitment)
                        # and C[kk] was filled with data containing kk
                        plain = lambda e2: e2.kind in ("copy", "ref", "cast", "upvar", "base2field", "field2whole")
                        cs_ = {x[1] for x in fg.backward(fg.operand_nodes(k, t["args"][1]), node_ok=lambda x: x[0] == k, edge_ok=secmod.struct_edge)}
                        read_by_k = False
                        filled_with_own_index = False
                        for cbi, ct in b.calls():
                            cn2 = callee_names(ct)
                            tl = cn2[-1].rsplit("::", 1)[-1] if cn2 else ""
                            if tl in ("index", "index_mut") and len(ct["args"]) == 2 and ct["args"][0]["k"] != "const" and ct["args"][1]["k"] != "const" and root_local(b, ct["args"][0]) in cs_:
                                ix = set(fg.backward(fg.operand_nodes(k, ct["args"][1]), node_ok=fam, edge_ok=plain))
                                if tl == "index" and (ix & idx):
                                    read_by_k = True
                                if tl == "index_mut" and (ix & set(b1)):
                                    filled_with_own_index = True
                        bound = read_by_k and filled_with_own_index
                    if not bound:
                        probs.append((b, bi, "the bytes the commitment is opened against do not contain the id of the party that sent it"))
        if not n_commit or not n_open:
            res.bad("R3.bind-id", inst, "cannot locate the commit / open_commitment calls of %s" % fn)
        elif probs:
            b, bi, what = probs[0]
            res.bad("R3.bind-id", inst, "%s, although %s (%s): a peer that mirrors the own commitment and then the own opening cancels the own contribution" % (what, symmetric[0], symmetric[1]), where(b, bi),
                    key="R3.bind-id|%s|%s" % (fn.rsplit("::", 1)[-1], la))
        else:
            res.ok("R3.bind-id", inst, symmetric[1], "%s; %d commit(s) contain the own party id and %d opening(s) the sender's id" % (symmetric[0], n_commit, n_open))
    res.need("R3.bind-id", "symmetric_commit_reveal_rounds", n_sym, 3, "commit/reveal rounds whose opened values are accepted through a symmetric fold (coin tossing x2, Pi_LaAND)")
