//! Demonstration of the defect repaired by the `fix:` commit "check the claimed bits of aShare
//! against their MACs before a key sum is opened" (known finding R2.1|fashare ver|claimed-bit-mac,
//! properties C04 / C07).
//!
//! Two parties run the real `polytune::mpc`. Party 1 is corrupted: it runs the honest code, but
//! its channel flips the check bit `x_r` that it announces in phase "fashare ver" for r = 0 and
//! r = 1 (the MAC that accompanies the bit is left as it is). The honest party 0 XORs the claimed
//! bits to decide whether it opens d0 or d1 = d0 ^ Delta in phase "fashare di_bi". For n = 2 the
//! corrupted party holds M_0[x_r] = d0 (its own MAC under party 0's key, which it even sends in
//! "fashare ver"), so `opened ^ M_0[x_r]` is party 0's global key Delta whenever the bit was
//! misreported.
//!
//! Before the fix: party 0 finishes `mpc` with Ok and the transcript of the corrupted party
//! contains the same non-zero offset for r = 0 and r = 1 (= Delta of party 0).
//! After the fix: party 0 returns Err(PreprocessingError(AShareWrongMAC)) and never opens a value.
//!
//! Place in /repo/tests/ and run `cargo test --offline -p polytune --test fx10_demo -- --nocapture`.
use std::sync::Mutex;
use std::time::Duration;

use garble_lang::{
    circuit::{Circuit, Gate},
    register_circuit::Circuit as RegisterCircuit,
};
use polytune::{
    channel::{Channel, SimpleChannel},
    mpc,
};

const FLIPPED: [usize; 2] = [0, 1];

#[derive(Default)]
struct Transcript {
    /// MACs under party 0's key that the corrupted party announced (first "fashare ver" message)
    own_macs: Vec<u128>,
    /// values opened by the honest party in the first "fashare di_bi" message
    opened: Vec<u128>,
}

struct CorruptedChannel {
    inner: SimpleChannel,
    transcript: Mutex<Transcript>,
}

impl Channel for CorruptedChannel {
    type SendError = <SimpleChannel as Channel>::SendError;
    type RecvError = <SimpleChannel as Channel>::RecvError;

    async fn send_bytes_to(&self, party: usize, mut data: Vec<u8>, phase: &str) -> Result<(), Self::SendError> {
        if phase == "fashare ver" {
            // Vec<Vec<u8>> in bincode legacy: u64 length, then per element u64 length + bytes;
            // n = 2: every element is 1 bit byte + one 16 byte big endian MAC
            let len = u64::from_le_bytes(data[..8].try_into().unwrap()) as usize;
            assert_eq!(data.len(), 8 + len * (8 + 17));
            let mut t = self.transcript.lock().unwrap();
            if t.own_macs.is_empty() {
                for r in 0..len {
                    let off = 8 + r * 25 + 8;
                    t.own_macs.push(u128::from_be_bytes(data[off + 1..off + 17].try_into().unwrap()));
                }
                for r in FLIPPED {
                    data[8 + r * 25 + 8] ^= 1;
                }
            }
        }
        self.inner.send_bytes_to(party, data, phase).await
    }

    async fn recv_bytes_from(&self, party: usize, phase: &str) -> Result<Vec<u8>, Self::RecvError> {
        let data = self.inner.recv_bytes_from(party, phase).await?;
        if phase == "fashare di_bi" {
            let mut t = self.transcript.lock().unwrap();
            if t.opened.is_empty() {
                let len = u64::from_le_bytes(data[..8].try_into().unwrap()) as usize;
                for r in 0..len {
                    t.opened.push(u128::from_le_bytes(data[8 + 16 * r..8 + 16 * (r + 1)].try_into().unwrap()));
                }
            }
        }
        Ok(data)
    }
}

#[test]
fn misreported_check_bit_must_not_make_the_peer_open_d0_xor_delta() {
    let circuit = Circuit {
        input_gates: vec![1, 1],
        gates: vec![Gate::And(0, 1)],
        output_gates: vec![2],
    };
    let circuit: RegisterCircuit = circuit.into();
    let rt = tokio::runtime::Builder::new_current_thread().enable_time().build().unwrap();
    let mut channels = SimpleChannel::channels(2);
    let corrupted_channel = CorruptedChannel { inner: channels.pop().unwrap(), transcript: Mutex::new(Transcript::default()) };
    let honest_channel = channels.pop().unwrap();
    let p_out = [0, 1];
    let (res_honest, res_corrupted) = rt.block_on(async {
        let honest = tokio::time::timeout(Duration::from_secs(120), mpc(&honest_channel, &circuit, &[true], 0, 0, &p_out, None));
        let corrupted = tokio::time::timeout(Duration::from_secs(120), mpc(&corrupted_channel, &circuit, &[true], 0, 1, &p_out, None));
        tokio::join!(honest, corrupted)
    });
    println!("honest party 0:    {res_honest:?}");
    println!("corrupted party 1: {res_corrupted:?}");
    let t = corrupted_channel.transcript.lock().unwrap();
    let offsets: Vec<u128> = t.opened.iter().zip(&t.own_macs).map(|(o, m)| o ^ m).collect();
    println!("opened ^ own MAC for r = 0..4: {:x?}", &offsets.iter().take(4).collect::<Vec<_>>());
    let leaked = !offsets.is_empty() && FLIPPED.iter().all(|r| offsets[*r] != 0 && offsets[*r] == offsets[FLIPPED[0]]);
    let went_on = matches!(res_honest, Ok(Ok(_)));
    assert!(
        !leaked,
        "the honest party opened d0 ^ Delta for the misreported bits: Delta = {:x} is in the transcript (honest party finished with Ok: {went_on})",
        offsets[FLIPPED[0]]
    );
    assert!(matches!(res_honest, Ok(Err(_))), "the honest party must abort on a misreported check bit");
}
