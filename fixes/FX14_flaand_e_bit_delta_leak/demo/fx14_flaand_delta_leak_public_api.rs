//! FX14 demonstration, part 2 (public API only, no change to the crate at all).
//!
//! Two parties run the real `polytune::mpc()` on a circuit with one AND gate. The cheating party
//! (party 1) deviates ONLY by flipping the `e` bits of its outgoing "flaand" message (done in
//! its channel); everything else is the unmodified code. From the cheater's own view (the
//! "flaand hash" message it receives XOR the "flaand hash" message it sent itself) the same
//! non-zero 128-bit value appears at every position: the honest party's global key delta.
//! (That this value really IS delta is asserted in the crate-internal part 1,
//! `src/mpc/fx14_flaand_delta_leak.rs`, where the test can see delta; here delta is private to
//! `mpc()`.) The test also reports what `mpc()` returns for the honest party and that the opened
//! value is the last thing the honest party sends.
//!
//! Destination: `tests/fx14_flaand_delta_leak_public_api.rs`

use std::sync::{Arc, Mutex};

use polytune::{
    channel::{Channel, SimpleChannel},
    garble_lang::{
        circuit::{Circuit, Gate},
        register_circuit::Circuit as RegisterCircuit,
    },
    mpc,
};

type Log = Arc<Mutex<Vec<(usize, &'static str, String, Vec<u8>)>>>;

struct TamperChannel {
    inner: SimpleChannel,
    own: usize,
    flip_e_bits: bool,
    log: Log,
}

fn decode<T: serde::de::DeserializeOwned>(bytes: &[u8]) -> T {
    bincode::serde::decode_from_slice(bytes, bincode::config::legacy())
        .expect("decode")
        .0
}

impl Channel for TamperChannel {
    type SendError = <SimpleChannel as Channel>::SendError;
    type RecvError = <SimpleChannel as Channel>::RecvError;

    async fn send_bytes_to(
        &self,
        party: usize,
        mut data: Vec<u8>,
        phase: &str,
    ) -> Result<(), Self::SendError> {
        if self.flip_e_bits && phase == "flaand" {
            let mut msg: Vec<(bool, u128)> = decode(&data);
            for (e, _u) in msg.iter_mut() {
                *e = !*e;
            }
            data = bincode::serde::encode_to_vec(&msg, bincode::config::legacy()).expect("encode");
        }
        self.log
            .lock()
            .unwrap()
            .push((self.own, "send", phase.to_string(), data.clone()));
        self.inner.send_bytes_to(party, data, phase).await
    }

    async fn recv_bytes_from(&self, party: usize, phase: &str) -> Result<Vec<u8>, Self::RecvError> {
        let data = self.inner.recv_bytes_from(party, phase).await?;
        self.log
            .lock()
            .unwrap()
            .push((self.own, "recv", phase.to_string(), data.clone()));
        Ok(data)
    }
}

#[tokio::test]
async fn fx14_public_api_flipped_e_bits_leak_constant_offset() {
    const HONEST: usize = 0;
    const CHEATER: usize = 1;
    let circuit: RegisterCircuit = Circuit {
        input_gates: vec![1, 1],
        gates: vec![Gate::And(0, 1)],
        output_gates: vec![2],
    }
    .into();
    let log: Log = Arc::new(Mutex::new(vec![]));
    let mut chans = SimpleChannel::channels(2);
    let ch_cheater = TamperChannel {
        inner: chans.pop().unwrap(),
        own: CHEATER,
        flip_e_bits: true,
        log: log.clone(),
    };
    let ch_honest = TamperChannel {
        inner: chans.pop().unwrap(),
        own: HONEST,
        flip_e_bits: false,
        log: log.clone(),
    };
    let (res_honest, res_cheater) = tokio::join!(
        mpc(&ch_honest, &circuit, &[true], 0, HONEST, &[0, 1], None),
        mpc(&ch_cheater, &circuit, &[true], 0, CHEATER, &[0, 1], None),
    );
    let log = log.lock().unwrap().clone();

    // The cheater's view: H received from the honest party, H it sent itself.
    let pick = |dir: &str| -> Vec<u128> {
        let msgs: Vec<_> = log
            .iter()
            .filter(|(p, d, ph, _)| *p == CHEATER && *d == dir && ph == "flaand hash")
            .collect();
        assert_eq!(msgs.len(), 1);
        decode(&msgs[0].3)
    };
    let h_honest = pick("recv");
    let h_own = pick("send");
    let cands: Vec<u128> = h_honest.iter().zip(&h_own).map(|(a, b)| a ^ b).collect();
    println!("[public API, 1 AND gate => {} leaky triples]", cands.len());
    for (ll, c) in cands.iter().enumerate() {
        println!("  H_honest[{ll}] ^ H_cheater[{ll}] = {c:032x}");
    }
    println!("  honest party  mpc() -> {res_honest:?}");
    println!("  cheating party mpc() -> {res_cheater:?}");
    let honest_sends: Vec<&str> = log
        .iter()
        .filter(|(p, d, _, _)| *p == HONEST && *d == "send")
        .map(|(_, _, ph, _)| ph.as_str())
        .collect();
    let tail = &honest_sends[honest_sends.len().saturating_sub(4)..];
    println!("  last messages sent by the honest party: {tail:?}");

    assert!(!cands.is_empty());
    assert_ne!(cands[0], 0);
    assert!(cands.iter().all(|c| *c == cands[0]));
    assert!(format!("{res_honest:?}").contains("LaANDXorNotZero"));
    assert_eq!(*honest_sends.last().unwrap(), "flaand hash");
}
