//! FX14 demonstration: a peer that flips the `e` bits of its outgoing "flaand" message (Pi_LaAND,
//! `flaand()` in `src/mpc/faand.rs`) makes the honest party open `H_honest ^ delta_honest` in its
//! "flaand hash" message, so the honest party's global key is the XOR of that opened value and
//! the `H` value the peer computes itself.
//!
//! The test runs the unmodified preprocessing code (`shared_rng*`, `fashare`, `beaver_aand` ->
//! `faand` -> `flaand`, i.e. exactly the calls `gen_auth_bits` in protocol.rs makes) for two
//! parties over a recording channel. The ONLY deviation is in the channel of the cheating party:
//! the `bool` components of its outgoing "flaand" message are flipped. Everything the cheater
//! uses to compute its candidate is its own view (what it sent / received, its own shares, its
//! own delta). The deltas are chosen by the test (they are a parameter of the crate-private
//! functions), which is the "hook" used to compare the candidate against the real key.
//!
//! Destination: `src/mpc/fx14_flaand_delta_leak.rs`, registered in `src/mpc.rs` by
//! `#[cfg(test)] mod fx14_flaand_delta_leak;` (see register.diff).

use std::sync::{Arc, Mutex};

use rand::random;

use crate::{
    channel::{Channel, SimpleChannel},
    mpc::{
        data_types::{Delta, Share},
        faand::{self, beaver_aand, bucket_size, fashare, shared_rng, shared_rng_pairwise},
    },
    utils::{deserialize, serialize},
};

/// Which of the `e` bits of the outgoing "flaand" message the cheater flips.
#[derive(Clone, Copy, Debug, PartialEq)]
enum Flip {
    /// Honest behaviour (control run).
    None,
    /// Flip every e bit.
    All,
    /// Flip only the e bit of the leaky triple with this index.
    Only(usize),
}

/// One entry of the global (cross-party) message log.
#[derive(Clone, Debug)]
struct Event {
    party: usize,
    dir: &'static str,
    peer: usize,
    phase: String,
    len: usize,
}

/// Everything a party sent and received, in order, with the phase names.
#[derive(Default)]
struct View {
    sent: Vec<(String, Vec<u8>)>,
    recvd: Vec<(String, Vec<u8>)>,
}

impl View {
    fn all<'a>(msgs: &'a [(String, Vec<u8>)], phase: &str) -> Vec<&'a Vec<u8>> {
        msgs.iter()
            .filter(|(p, _)| p == phase)
            .map(|(_, d)| d)
            .collect()
    }
}

/// A channel that records everything and (optionally) flips the e bits of outgoing "flaand"
/// messages. Nothing else is ever modified.
struct TamperChannel {
    inner: SimpleChannel,
    own: usize,
    flip: Flip,
    view: Mutex<View>,
    log: Arc<Mutex<Vec<Event>>>,
}

impl Channel for TamperChannel {
    type SendError = <SimpleChannel as Channel>::SendError;
    type RecvError = <SimpleChannel as Channel>::RecvError;

    async fn send_bytes_to(
        &self,
        party: usize,
        data: Vec<u8>,
        phase: &str,
    ) -> Result<(), Self::SendError> {
        let mut data = data;
        if phase == "flaand" && self.flip != Flip::None {
            // The message is a Vec<(bool, u128)> = (e, u_ij) per leaky triple.
            let mut msg: Vec<(bool, u128)> =
                deserialize(&data).expect("flaand message is Vec<(bool, u128)>");
            for (ll, (e, _u)) in msg.iter_mut().enumerate() {
                match self.flip {
                    Flip::All => *e = !*e,
                    Flip::Only(idx) if idx == ll => *e = !*e,
                    _ => {}
                }
            }
            data = serialize(&msg).expect("re-serialize flaand message");
        }
        self.view
            .lock()
            .unwrap()
            .sent
            .push((phase.to_string(), data.clone()));
        self.log.lock().unwrap().push(Event {
            party: self.own,
            dir: "send->",
            peer: party,
            phase: phase.to_string(),
            len: data.len(),
        });
        self.inner.send_bytes_to(party, data, phase).await
    }

    async fn recv_bytes_from(&self, party: usize, phase: &str) -> Result<Vec<u8>, Self::RecvError> {
        let data = self.inner.recv_bytes_from(party, phase).await?;
        self.view
            .lock()
            .unwrap()
            .recvd
            .push((phase.to_string(), data.clone()));
        self.log.lock().unwrap().push(Event {
            party: self.own,
            dir: "recv<-",
            peer: party,
            phase: phase.to_string(),
            len: data.len(),
        });
        Ok(data)
    }
}

/// Same function as the private `hash128` of faand.rs (public knowledge: BLAKE3 XOF, 16 bytes).
fn hash128(input: u128) -> u128 {
    let mut hasher = blake3::Hasher::new();
    hasher.update(&input.to_le_bytes());
    let mut xof = hasher.finalize_xof();
    let mut buf = [0u8; 16];
    xof.fill(&mut buf);
    u128::from_le_bytes(buf)
}

struct PartyOutcome {
    /// Result of `beaver_aand` (which runs `faand` -> `flaand`).
    result: Result<Vec<Share>, faand::Error>,
    /// The x / y / r shares handed to `faand` (own view of the party).
    xyr_shares: Vec<Share>,
}

/// Runs, for one party, exactly what `gen_auth_bits()` / `fn_independent_pre()` of protocol.rs
/// run for one batch of `l` AND gates, all with the unmodified crate code.
async fn run_party(channel: &TamperChannel, delta: Delta, i: usize, n: usize, l: usize) -> PartyOutcome {
    let mut two_by_two = shared_rng_pairwise(channel, i, n)
        .await
        .expect("shared_rng_pairwise");
    let mut multi = shared_rng(channel, i, n).await.expect("shared_rng");
    let b = bucket_size(l);
    let ab = fashare((channel, delta), i, n, 2 * l, &mut two_by_two, &mut multi)
        .await
        .expect("fashare (alpha/beta)");
    let alpha_beta: Vec<(Share, Share)> = ab
        .chunks_exact(2)
        .map(|c| (c[0].clone(), c[1].clone()))
        .collect();
    let xyr_shares = fashare((channel, delta), i, n, l * b * 3, &mut two_by_two, &mut multi)
        .await
        .expect("fashare (x, y, r)");
    let result = beaver_aand(
        (channel, delta),
        &alpha_beta,
        i,
        n,
        l,
        &mut multi,
        &xyr_shares,
    )
    .await;
    PartyOutcome { result, xyr_shares }
}

struct Run {
    honest: PartyOutcome,
    cheater: PartyOutcome,
    cheater_view: View,
    log: Vec<Event>,
    delta_honest: Delta,
    delta_cheater: Delta,
    lprime: usize,
}

const HONEST: usize = 0;
const CHEATER: usize = 1;

async fn run(flip: Flip, l: usize) -> Run {
    let n = 2;
    let log = Arc::new(Mutex::new(vec![]));
    let mut channels = SimpleChannel::channels(n);
    let ch_cheater = TamperChannel {
        inner: channels.pop().unwrap(),
        own: CHEATER,
        flip,
        view: Mutex::default(),
        log: log.clone(),
    };
    let ch_honest = TamperChannel {
        inner: channels.pop().unwrap(),
        own: HONEST,
        flip: Flip::None,
        view: Mutex::default(),
        log: log.clone(),
    };
    // Fresh random global keys, exactly like `delta = Delta(random())` in fn_independent_pre().
    let delta_honest = Delta(random());
    let delta_cheater = Delta(random());
    let (honest, cheater) = tokio::join!(
        run_party(&ch_honest, delta_honest, HONEST, n, l),
        run_party(&ch_cheater, delta_cheater, CHEATER, n, l),
    );
    let log = log.lock().unwrap().clone();
    Run {
        honest,
        cheater,
        cheater_view: ch_cheater.view.into_inner().unwrap(),
        log,
        delta_honest,
        delta_cheater,
        lprime: l * bucket_size(l),
    }
}

/// What the cheater extracts from ITS OWN view: per leaky triple the XOR of the honest party's
/// opened H ("flaand hash" received) and its own H ("flaand hash" it sent; computed by the
/// unmodified code, it does not depend on the e bits the cheater sends).
fn candidates(view: &View) -> Vec<u128> {
    let h_honest = View::all(&view.recvd, "flaand hash");
    let h_own = View::all(&view.sent, "flaand hash");
    assert_eq!(h_honest.len(), 1, "one flaand call, one opened H vector from the honest party");
    assert_eq!(h_own.len(), 1);
    let h_honest: Vec<u128> = deserialize(h_honest[0]).unwrap();
    let h_own: Vec<u128> = deserialize(h_own[0]).unwrap();
    assert_eq!(h_honest.len(), h_own.len());
    h_honest.iter().zip(&h_own).map(|(a, b)| a ^ b).collect()
}

/// Verification of a candidate for the honest party's delta using ONLY the cheater's view:
/// the honest party sent `u = H(K[x_c]) ^ H(K[x_c] ^ delta_h) ^ phi_h` in "flaand", where
/// `phi_h = K_h[y_c] ^ M_c[y_h] ^ y_h * delta_h`. With the MACs `M_h[x_c] = K_h[x_c] ^ x_c*delta_h`,
/// `M_h[y_c]`, its own key `K_c[y_h]` and its own delta the cheater can recompute `u` from a
/// correct `delta_h` up to the unknown bit `y_h`; a wrong candidate fails except with
/// probability ~2^-127 per triple.
fn cheater_side_check(run: &Run, cand: u128) -> usize {
    let u_msgs = View::all(&run.cheater_view.recvd, "flaand");
    assert_eq!(u_msgs.len(), 1);
    let e_u: Vec<(bool, u128)> = deserialize(u_msgs[0]).unwrap();
    let lprime = run.lprime;
    assert_eq!(e_u.len(), lprime);
    let (xs, rest) = run.cheater.xyr_shares.split_at(lprime);
    let (ys, _rs) = rest.split_at(lprime);
    let mut ok = 0;
    for ll in 0..lprime {
        let (m_x, _) = xs[ll].1.0[HONEST]; // MAC on the cheater's x bit under the honest key
        let (m_y, k_y) = ys[ll].1.0[HONEST]; // MAC on the cheater's y bit, key for the honest y bit
        let y_c = ys[ll].0 as u128;
        let t = e_u[ll].1 ^ hash128(m_x.0) ^ hash128(m_x.0 ^ cand) ^ m_y.0 ^ (y_c * cand) ^ k_y.0;
        if t == 0 || t == (run.delta_cheater.0 ^ cand) {
            ok += 1;
        }
    }
    ok
}

fn print_flaand_tail(log: &[Event]) {
    let start = log
        .iter()
        .position(|e| e.phase == "haand")
        .unwrap_or(log.len());
    println!("  message sequence from Pi_HaAND on (party, direction, peer, phase, bytes):");
    for e in &log[start..] {
        println!(
            "    P{} {} P{}  {:<14} {:>6} B",
            e.party, e.dir, e.peer, e.phase, e.len
        );
    }
    println!("    -- end of log: no further message is sent by either party --");
}

/// Control: without tampering both parties finish Ok and H_honest ^ H_cheater == 0 everywhere.
#[tokio::test]
async fn fx14_control_honest_run_opens_nothing() {
    let r = run(Flip::None, 2).await;
    assert!(r.honest.result.is_ok(), "honest: {:?}", r.honest.result);
    assert!(r.cheater.result.is_ok(), "peer: {:?}", r.cheater.result);
    let cands = candidates(&r.cheater_view);
    assert_eq!(cands.len(), r.lprime);
    assert!(cands.iter().all(|c| *c == 0));
    println!(
        "[control] honest run: both parties Ok, H_0 ^ H_1 == 0 at all {} positions",
        cands.len()
    );
}

/// The leak: flip every e bit -> every position of the opened "flaand hash" is offset by the
/// honest party's delta.
#[tokio::test]
async fn fx14_flipped_e_bits_make_honest_party_open_its_delta() {
    let r = run(Flip::All, 2).await;
    let cands = candidates(&r.cheater_view);
    println!("[attack: all e bits flipped] l' = {} leaky triples", r.lprime);
    println!("  honest party's real delta      = {:032x}", r.delta_honest.0);
    for (ll, c) in cands.iter().enumerate() {
        println!("  H_honest[{ll}] ^ H_cheater[{ll}]   = {c:032x}");
    }
    println!("  honest party returns  : {:?}", r.honest.result.as_ref().map(|v| v.len()));
    println!("  cheating party returns: {:?}", r.cheater.result.as_ref().map(|v| v.len()));
    print_flaand_tail(&r.log);

    // 1. the same non-zero 128-bit value at every position
    assert_eq!(cands.len(), r.lprime);
    let cand = cands[0];
    assert_ne!(cand, 0);
    assert!(cands.iter().all(|c| *c == cand), "candidate differs between positions");
    // 2. it verifies against relations the cheater holds (cheater's view only)
    let ok = cheater_side_check(&r, cand);
    println!("  cheater-side verification of the candidate (u_ij relation): {ok}/{} triples", r.lprime);
    assert_eq!(ok, r.lprime);
    // ... while an unrelated value does not verify
    assert_eq!(cheater_side_check(&r, cand ^ 1), 0);
    // 3. it IS the honest party's global key (test-only knowledge of delta)
    assert_eq!(cand, r.delta_honest.0, "candidate is not the honest party's delta");
    // 4. the honest party notices only after having opened the value
    assert!(matches!(r.honest.result, Err(faand::Error::LaANDXorNotZero)));
    assert!(matches!(r.cheater.result, Err(faand::Error::LaANDXorNotZero)));
    // the honest party's last sent message is the opened H ("flaand hash"); nothing follows
    let last_honest_send = r
        .log
        .iter()
        .rev()
        .find(|e| e.party == HONEST && e.dir == "send->")
        .unwrap();
    assert_eq!(last_honest_send.phase, "flaand hash");
    println!("  => honest party's delta recovered by the peer: {:032x}", cand);
}

/// One flipped bit is enough: only that position is offset by delta, all others XOR to zero.
#[tokio::test]
async fn fx14_single_flipped_e_bit_is_enough() {
    let idx = 3;
    let r = run(Flip::Only(idx), 2).await;
    let cands = candidates(&r.cheater_view);
    println!("[attack: only e[{idx}] flipped]");
    println!("  honest party's real delta      = {:032x}", r.delta_honest.0);
    for (ll, c) in cands.iter().enumerate() {
        println!("  H_honest[{ll}] ^ H_cheater[{ll}]   = {c:032x}");
    }
    for (ll, c) in cands.iter().enumerate() {
        if ll == idx {
            assert_eq!(*c, r.delta_honest.0);
        } else {
            assert_eq!(*c, 0);
        }
    }
    assert!(matches!(r.honest.result, Err(faand::Error::LaANDXorNotZero)));
    println!("  honest party returns: {:?}", r.honest.result.as_ref().map(|v| v.len()));
}
