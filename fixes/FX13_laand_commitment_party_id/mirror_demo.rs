//! NOT part of the SEED2 demo. Side observation on the UNMODIFIED tree (n = 2): the Pi_LaAND commitments
//! carry no party id, so a rushing peer can mirror the honest party's "flaand comm" message and later its
//! "flaand hash" message (H_P := H_honest, sum = 0). Combined with flipping (h0, h1) in "haand" the honest
//! evaluator returns Ok([true, true]) for out_i = x_i & y_i with x = 00.
//! Run: cp to tests/scratch_mirror.rs; cargo test --offline -p polytune --test scratch_mirror -- --nocapture
use std::collections::VecDeque;
use std::sync::Mutex;
use garble_lang::{circuit::{Circuit, Gate}, register_circuit::Circuit as RegisterCircuit};
use polytune::{channel::{AsyncRecvError, Channel, SimpleChannel}, mpc};

struct Mirror { inner: SimpleChannel, own: Mutex<VecDeque<Vec<u8>>>, ready: Mutex<usize> }
fn is_m(p: &str) -> bool { p == "flaand comm" || p == "flaand hash" }
impl Channel for Mirror {
    type SendError = tokio::sync::mpsc::error::SendError<Vec<u8>>;
    type RecvError = AsyncRecvError;
    async fn send_bytes_to(&self, party: usize, mut data: Vec<u8>, phase: &str) -> Result<(), Self::SendError> {
        if phase == "haand" { data[8..].iter_mut().for_each(|b| *b ^= 1); }
        if is_m(phase) {
            let theirs = self.inner.recv_bytes_from(party, phase).await.unwrap();
            self.own.lock().unwrap().push_back(data);
            *self.ready.lock().unwrap() += 1;
            data = theirs;
        }
        self.inner.send_bytes_to(party, data, phase).await
    }
    async fn recv_bytes_from(&self, party: usize, phase: &str) -> Result<Vec<u8>, Self::RecvError> {
        if is_m(phase) {
            loop {
                if let Some(m) = self.own.lock().unwrap().pop_front() { return Ok(m); }
                tokio::task::yield_now().await;
            }
        }
        self.inner.recv_bytes_from(party, phase).await
    }
}
#[test]
fn mirror() {
    let circuit = Circuit { input_gates: vec![2, 2], gates: vec![Gate::And(0, 2), Gate::And(1, 3)], output_gates: vec![4, 5] };
    let circuit: RegisterCircuit = circuit.into();
    let rt = tokio::runtime::Builder::new_current_thread().enable_time().build().unwrap();
    let r = rt.block_on(async {
        let mut chans = SimpleChannel::channels(2);
        let ch1 = Mirror { inner: chans.pop().unwrap(), own: Mutex::new(VecDeque::new()), ready: Mutex::new(0) };
        let ch0 = chans.pop().unwrap();
        let (c0, c1) = (circuit.clone(), circuit.clone());
        let h = async move { let r = mpc(&ch0, &c0, &[false, false], 0, 0, &[0], None).await; drop(ch0); r };
        let c = async move { let r = mpc(&ch1, &c1, &[true, true], 0, 1, &[0], None).await; drop(ch1); r };
        tokio::join!(h, c)
    });
    println!("MIRROR RESULT: honest={:?} corrupted={:?}", r.0, r.1);
    // x = 00, so out_i = x_i & y_i can only be [false, false]
    assert!(!matches!(r.0, Ok(ref out) if out != &[false, false]), "the honest evaluator accepted an impossible output");
}
