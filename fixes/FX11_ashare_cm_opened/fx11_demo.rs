//! Demonstration of the defect repaired by the `fix:` commit "open the commitment to the aShare MAC
//! decommitment" (known finding R2.1c|fashare comm|component-2, property C04).
//!
//! Party 1 runs the honest code over a channel that replaces the third commitment `cm` of every
//! check position in its first "fashare comm" message by garbage, i.e. it does not commit to the
//! decommitment (bit, MACs) that it reveals afterwards in "fashare ver" and is free to choose it
//! after having seen the other parties' decommitments.
//! Before the fix nobody opens `cm`: both parties finish with Ok. After the fix the honest party
//! returns Err(PreprocessingError(CommitmentCouldNotBeOpened)).
use std::sync::atomic::{AtomicBool, Ordering};
use std::time::Duration;

use garble_lang::{
    circuit::{Circuit, Gate},
    register_circuit::Circuit as RegisterCircuit,
};
use polytune::{
    channel::{Channel, SimpleChannel},
    mpc,
};

struct CorruptedChannel {
    inner: SimpleChannel,
    done: AtomicBool,
}

impl Channel for CorruptedChannel {
    type SendError = <SimpleChannel as Channel>::SendError;
    type RecvError = <SimpleChannel as Channel>::RecvError;

    async fn send_bytes_to(&self, party: usize, mut data: Vec<u8>, phase: &str) -> Result<(), Self::SendError> {
        if phase == "fashare comm" && !self.done.swap(true, Ordering::SeqCst) {
            // Vec<(Commitment, Commitment, Commitment)> in bincode legacy: u64 length + 96 bytes each
            let len = u64::from_le_bytes(data[..8].try_into().unwrap()) as usize;
            assert_eq!(data.len(), 8 + len * 96);
            for r in 0..len {
                for b in &mut data[8 + r * 96 + 64..8 + (r + 1) * 96] {
                    *b ^= 0x5a;
                }
            }
        }
        self.inner.send_bytes_to(party, data, phase).await
    }

    async fn recv_bytes_from(&self, party: usize, phase: &str) -> Result<Vec<u8>, Self::RecvError> {
        self.inner.recv_bytes_from(party, phase).await
    }
}

#[test]
fn decommitment_that_was_never_committed_to_must_be_rejected() {
    let circuit = Circuit {
        input_gates: vec![1, 1],
        gates: vec![Gate::And(0, 1)],
        output_gates: vec![2],
    };
    let circuit: RegisterCircuit = circuit.into();
    let rt = tokio::runtime::Builder::new_current_thread().enable_time().build().unwrap();
    let mut channels = SimpleChannel::channels(2);
    let corrupted_channel = CorruptedChannel { inner: channels.pop().unwrap(), done: AtomicBool::new(false) };
    let honest_channel = channels.pop().unwrap();
    let p_out = [0, 1];
    let (res_honest, res_corrupted) = rt.block_on(async {
        let honest = tokio::time::timeout(Duration::from_secs(60), mpc(&honest_channel, &circuit, &[true], 0, 0, &p_out, None));
        let corrupted = tokio::time::timeout(Duration::from_secs(60), mpc(&corrupted_channel, &circuit, &[true], 0, 1, &p_out, None));
        tokio::join!(honest, corrupted)
    });
    println!("honest party 0:    {res_honest:?}");
    println!("corrupted party 1: {res_corrupted:?}");
    assert!(corrupted_channel.done.load(Ordering::SeqCst), "the message was not tampered with");
    assert!(
        matches!(res_honest, Ok(Err(_))),
        "the honest party accepted a MAC decommitment that does not open the commitment it received"
    );
}
