//! polyscan-driver: rustc_private fact extractor.
//!
//! Used as RUSTC_WORKSPACE_WRAPPER under `cargo +nightly check`. For every workspace crate it
//! writes one JSON fact file `$POLYSCAN_OUT/<crate>.<pid>.json` containing, for every local MIR
//! body, the *built* MIR (pre borrowck, pre coroutine transform: `Yield` terminators intact),
//! with resolved callees, types, user variable names and call-site spans; plus ADT layouts and
//! trait impls. No verdicts are computed here: the rule layer (Python) does that.
#![feature(rustc_private)]
extern crate rustc_abi;
extern crate rustc_data_structures;
extern crate rustc_driver;
extern crate rustc_hir;
extern crate rustc_interface;
extern crate rustc_middle;
extern crate rustc_session;
extern crate rustc_span;

use rustc_data_structures::steal::Steal;
use rustc_driver::Compilation;
use rustc_hir::def::DefKind;
use rustc_hir::def_id::{DefId, LOCAL_CRATE};
use rustc_middle::mir::{
    self, AggregateKind, BasicBlock, Body, Const, ConstValue, Operand, Place, ProjectionElem,
    Rvalue, StatementKind, TerminatorKind,
};
use rustc_middle::ty::print::{with_no_trimmed_paths, with_no_visible_paths};
use rustc_middle::ty::{self, GenericArgKind, Ty, TyCtxt};
use rustc_span::def_id::LocalDefId;
use rustc_span::{ExpnKind, Span};
use std::fmt::Write as _;
use std::sync::Mutex;

struct Stash(Vec<(LocalDefId, Body<'static>)>);
unsafe impl Send for Stash {}
static BODIES: Mutex<Stash> = Mutex::new(Stash(Vec::new()));
type Prov = for<'tcx> fn(TyCtxt<'tcx>, LocalDefId) -> &'tcx Steal<Body<'tcx>>;
static ORIG: Mutex<Option<Prov>> = Mutex::new(None);

fn my_mir_built<'tcx>(tcx: TyCtxt<'tcx>, ldid: LocalDefId) -> &'tcx Steal<Body<'tcx>> {
    let orig = ORIG.lock().unwrap().unwrap();
    let res = orig(tcx, ldid);
    {
        let body = res.borrow();
        let cloned: Body<'tcx> = (*body).clone();
        // SAFETY: everything a Body refers to lives in the tcx arena, which outlives
        // `after_analysis`, where the stash is drained while `tcx` is still alive.
        let cloned: Body<'static> = unsafe { std::mem::transmute(cloned) };
        BODIES.lock().unwrap().0.push((ldid, cloned));
    }
    res
}

// ---------------------------------------------------------------- JSON helpers
fn js(s: &str) -> String {
    let mut o = String::with_capacity(s.len() + 2);
    o.push('"');
    for c in s.chars() {
        match c {
            '"' => o.push_str("\\\""),
            '\\' => o.push_str("\\\\"),
            '\n' => o.push_str("\\n"),
            '\r' => o.push_str("\\r"),
            '\t' => o.push_str("\\t"),
            c if (c as u32) < 0x20 => {
                let _ = write!(o, "\\u{:04x}", c as u32);
            }
            c => o.push(c),
        }
    }
    o.push('"');
    o
}
fn jarr(v: &[String]) -> String {
    format!("[{}]", v.join(","))
}

// ---------------------------------------------------------------- printing
fn dpath(tcx: TyCtxt<'_>, did: DefId) -> String {
    let p = with_no_visible_paths!(with_no_trimmed_paths!(tcx.def_path_str(did)));
    if did.is_local() {
        format!("{}::{}", tcx.crate_name(LOCAL_CRATE), p)
    } else {
        p
    }
}

fn ty_str<'tcx>(tcx: TyCtxt<'tcx>, ty: Ty<'tcx>) -> String {
    match ty.kind() {
        ty::Adt(def, args) => {
            let mut s = dpath(tcx, def.did());
            let targs: Vec<String> = args
                .iter()
                .filter_map(|a| match a.kind() {
                    GenericArgKind::Type(t) => Some(ty_str(tcx, t)),
                    GenericArgKind::Const(c) => Some(format!("{}", c)),
                    GenericArgKind::Lifetime(_) => None,
                })
                .collect();
            if !targs.is_empty() {
                s.push('<');
                s.push_str(&targs.join(", "));
                s.push('>');
            }
            s
        }
        ty::Ref(_, t, m) => {
            if m.is_mut() {
                format!("&mut {}", ty_str(tcx, *t))
            } else {
                format!("&{}", ty_str(tcx, *t))
            }
        }
        ty::RawPtr(t, m) => {
            if m.is_mut() {
                format!("*mut {}", ty_str(tcx, *t))
            } else {
                format!("*const {}", ty_str(tcx, *t))
            }
        }
        ty::Slice(t) => format!("[{}]", ty_str(tcx, *t)),
        ty::Array(t, n) => format!("[{}; {}]", ty_str(tcx, *t), n),
        ty::Tuple(ts) => {
            let v: Vec<String> = ts.iter().map(|t| ty_str(tcx, t)).collect();
            format!("({})", v.join(", "))
        }
        ty::Closure(def, _) => format!("{{closure:{}}}", dpath(tcx, *def)),
        ty::Coroutine(def, _) => format!("{{coroutine:{}}}", dpath(tcx, *def)),
        ty::CoroutineClosure(def, _) => format!("{{coroutine_closure:{}}}", dpath(tcx, *def)),
        ty::FnDef(def, args) => {
            let targs: Vec<String> = args
                .iter()
                .filter_map(|a| match a.kind() {
                    GenericArgKind::Type(t) => Some(ty_str(tcx, t)),
                    _ => None,
                })
                .collect();
            format!("fn:{}<{}>", dpath(tcx, *def), targs.join(", "))
        }
        ty::Alias(alias) if matches!(alias.kind, ty::AliasTyKind::Opaque { .. }) => {
            // reveal the hidden type (we run after analysis)
            let hidden = tcx.type_of(alias.kind.def_id()).instantiate(tcx, alias.args).skip_norm_wip();
            if hidden == ty {
                return with_no_visible_paths!(with_no_trimmed_paths!(format!("{}", ty)));
            }
            format!("opaque<{}>", ty_str(tcx, hidden))
        }
        _ => with_no_visible_paths!(with_no_trimmed_paths!(format!("{}", ty))),
    }
}

fn span_str(tcx: TyCtxt<'_>, sp: Span) -> String {
    let sm = tcx.sess.source_map();
    let cs = sp.source_callsite();
    let loc = sm.lookup_char_pos(cs.lo());
    let file = match &loc.file.name {
        rustc_span::FileName::Real(r) => match r.local_path() {
            Some(p) => p.to_string_lossy().to_string(),
            None => format!("{:?}", loc.file.name),
        },
        other => format!("{:?}", other),
    };
    let mut s = format!("{}:{}:{}", file, loc.line, loc.col.0 + 1);
    if sp.from_expansion() {
        let mut ms: Vec<String> = Vec::new();
        for e in sp.macro_backtrace() {
            match e.kind {
                ExpnKind::Macro(_, name) => ms.push(format!("m:{}", name)),
                ExpnKind::Desugaring(d) => ms.push(format!("d:{:?}", d)),
                ExpnKind::AstPass(p) => ms.push(format!("a:{:?}", p)),
                ExpnKind::Root => {}
            }
        }
        s.push('|');
        s.push_str(&ms.join(">"));
    }
    s
}

struct Cx<'a, 'tcx> {
    tcx: TyCtxt<'tcx>,
    body: &'a Body<'tcx>,
    def: DefId,
}

impl<'a, 'tcx> Cx<'a, 'tcx> {
    fn place(&self, p: &Place<'tcx>) -> String {
        let tcx = self.tcx;
        let mut pty = mir::PlaceTy::from_ty(self.body.local_decls[p.local].ty);
        let mut prs: Vec<String> = Vec::new();
        for elem in p.projection.iter() {
            let s = match elem {
                ProjectionElem::Deref => "\"*\"".to_string(),
                ProjectionElem::Field(f, fty) => {
                    let mut name: Option<String> = None;
                    let mut base: Option<String> = None;
                    match pty.ty.kind() {
                        ty::Adt(adt, _) => {
                            base = Some(dpath(tcx, adt.did()));
                            let v = match pty.variant_index {
                                Some(v) => Some(v),
                                None => {
                                    if adt.is_enum() {
                                        None
                                    } else {
                                        Some(rustc_abi::FIRST_VARIANT)
                                    }
                                }
                            };
                            if let Some(v) = v {
                                if let Some(fd) = adt.variant(v).fields.get(f) {
                                    name = Some(fd.name.to_string());
                                }
                            }
                        }
                        ty::Closure(did, _) | ty::Coroutine(did, _) | ty::CoroutineClosure(did, _) => {
                            if let Some(ld) = did.as_local() {
                                let names = tcx.closure_saved_names_of_captured_variables(ld);
                                if let Some(n) = names.get(f) {
                                    name = Some(n.to_string());
                                }
                            }
                        }
                        _ => {}
                    }
                    format!(
                        "{{\"f\":{},\"n\":{},\"a\":{},\"ty\":{}}}",
                        f.as_usize(),
                        name.map(|n| js(&n)).unwrap_or("null".into()),
                        base.map(|n| js(&n)).unwrap_or("null".into()),
                        js(&ty_str(tcx, fty))
                    )
                }
                ProjectionElem::Index(l) => format!("{{\"i\":{}}}", l.as_usize()),
                ProjectionElem::ConstantIndex { offset, from_end, .. } => {
                    format!("{{\"ci\":{},\"fe\":{}}}", offset, from_end)
                }
                ProjectionElem::Subslice { from, to, from_end } => {
                    format!("{{\"sub\":[{},{}],\"fe\":{}}}", from, to, from_end)
                }
                ProjectionElem::Downcast(name, idx) => format!(
                    "{{\"dc\":{},\"vi\":{}}}",
                    name.map(|n| js(n.as_str())).unwrap_or("null".into()),
                    idx.as_usize()
                ),
                ProjectionElem::OpaqueCast(_) => "\"opaque\"".to_string(),
                ProjectionElem::UnwrapUnsafeBinder(_) => "\"unbinder\"".to_string(),
            };
            prs.push(s);
            pty = pty.projection_ty(tcx, elem);
        }
        format!("{{\"l\":{},\"pr\":{},\"ty\":{}}}", p.local.as_usize(), jarr(&prs), js(&ty_str(tcx, pty.ty)))
    }

    fn fn_ref(&self, did: DefId, args: ty::GenericArgsRef<'tcx>) -> String {
        let tcx = self.tcx;
        let targs: Vec<String> = args
            .iter()
            .filter_map(|a| match a.kind() {
                GenericArgKind::Type(t) => Some(js(&ty_str(tcx, t))),
                _ => None,
            })
            .collect();
        let mut s = format!(
            "{{\"def\":{},\"krate\":{},\"targs\":{}",
            js(&dpath(tcx, did)),
            js(tcx.crate_name(did.krate).as_str()),
            jarr(&targs)
        );
        if matches!(tcx.def_kind(did), DefKind::AssocFn) {
            if let Some(tr) = tcx.trait_of_assoc(did) {
                let _ = write!(s, ",\"trait\":{}", js(&dpath(tcx, tr)));
                // try to resolve to the impl method
                let env = ty::TypingEnv::post_analysis(tcx, self.def);
                if let Ok(Some(inst)) = ty::Instance::try_resolve(tcx, env, did, args) {
                    let rd = inst.def_id();
                    if rd != did {
                        let _ = write!(
                            s,
                            ",\"res\":{},\"res_krate\":{}",
                            js(&dpath(tcx, rd)),
                            js(tcx.crate_name(rd.krate).as_str())
                        );
                    }
                }
            } else if let Some(imp) = tcx.impl_of_assoc(did) {
                let st = tcx.type_of(imp).instantiate_identity().skip_norm_wip();
                let _ = write!(s, ",\"self_ty\":{}", js(&ty_str(tcx, st)));
            }
        }
        s.push('}');
        s
    }

    fn constant(&self, c: &mir::ConstOperand<'tcx>) -> String {
        let tcx = self.tcx;
        let ty = c.const_.ty();
        let mut s = format!("{{\"k\":\"const\",\"ty\":{}", js(&ty_str(tcx, ty)));
        match ty.kind() {
            ty::FnDef(did, args) => {
                let _ = write!(s, ",\"fn\":{}", self.fn_ref(*did, args));
            }
            _ => {
                let mut val: Option<String> = None;
                if let Const::Val(cv, _) = c.const_ {
                    match cv {
                        ConstValue::Slice { .. } => {
                            if let ty::Ref(_, inner, _) = ty.kind() {
                                if inner.is_str() {
                                    if let Some(b) = cv.try_get_slice_bytes_for_diagnostics(tcx) {
                                        let _ = write!(s, ",\"str\":{}", js(&String::from_utf8_lossy(b)));
                                    }
                                }
                            }
                        }
                        ConstValue::Scalar(sc) => {
                            if let Ok(si) = sc.try_to_scalar_int() {
                                val = Some(format!("{}", si.to_bits_unchecked()));
                            }
                        }
                        ConstValue::ZeroSized => val = Some("zst".into()),
                        _ => {}
                    }
                } else if let Const::Ty(_, tc) = c.const_ {
                    if let Some(v) = tc.try_to_value() {
                        if let Some(si) = v.try_to_leaf() {
                            val = Some(format!("{}", si.to_bits_unchecked()));
                        }
                    }
                } else if let Const::Unevaluated(u, _) = c.const_ {
                    let _ = write!(s, ",\"uneval\":{}", js(&dpath(tcx, u.def)));
                    // named constants without generic parameters (`const LABEL_BYTES: usize = ..`): their value
                    if u.args.is_empty() && u.promoted.is_none() {
                        if let Ok(ConstValue::Scalar(sc)) = c.const_.eval(tcx, ty::TypingEnv::fully_monomorphized(), c.span) {
                            if let Ok(si) = sc.try_to_scalar_int() {
                                val = Some(format!("{}", si.to_bits_unchecked()));
                            }
                        }
                    }
                }
                if let Some(v) = val {
                    let _ = write!(s, ",\"v\":{}", js(&v));
                }
            }
        }
        s.push('}');
        s
    }

    fn operand(&self, o: &Operand<'tcx>) -> String {
        match o {
            Operand::Copy(p) => format!("{{\"k\":\"copy\",\"p\":{}}}", self.place(p)),
            Operand::Move(p) => format!("{{\"k\":\"move\",\"p\":{}}}", self.place(p)),
            Operand::Constant(c) => self.constant(c),
            _ => "{\"k\":\"const\",\"ty\":\"runtime_checks\"}".to_string(),
        }
    }

    fn rvalue(&self, r: &Rvalue<'tcx>) -> String {
        let tcx = self.tcx;
        match r {
            Rvalue::Use(o, ..) => format!("{{\"k\":\"use\",\"o\":{}}}", self.operand(o)),
            Rvalue::Repeat(o, n) => format!("{{\"k\":\"repeat\",\"o\":{},\"n\":{}}}", self.operand(o), js(&format!("{}", n))),
            Rvalue::Ref(_, bk, p) => {
                let m = match bk {
                    mir::BorrowKind::Shared => "shared",
                    mir::BorrowKind::Fake(_) => "fake",
                    mir::BorrowKind::Mut { .. } => "mut",
                };
                format!("{{\"k\":\"ref\",\"m\":\"{}\",\"p\":{}}}", m, self.place(p))
            }
            Rvalue::RawPtr(_, p) => format!("{{\"k\":\"rawptr\",\"p\":{}}}", self.place(p)),
            Rvalue::Cast(ck, o, t) => format!(
                "{{\"k\":\"cast\",\"ck\":{},\"o\":{},\"ty\":{}}}",
                js(&format!("{:?}", ck)),
                self.operand(o),
                js(&ty_str(tcx, *t))
            ),
            Rvalue::BinaryOp(op, ab) => format!(
                "{{\"k\":\"bin\",\"op\":\"{:?}\",\"a\":{},\"b\":{}}}",
                op,
                self.operand(&ab.0),
                self.operand(&ab.1)
            ),
            Rvalue::UnaryOp(op, a) => format!("{{\"k\":\"un\",\"op\":\"{:?}\",\"a\":{}}}", op, self.operand(a)),
            Rvalue::Discriminant(p) => format!("{{\"k\":\"discr\",\"p\":{}}}", self.place(p)),
            Rvalue::Aggregate(ak, ops) => {
                let opv: Vec<String> = ops.iter().map(|o| self.operand(o)).collect();
                let head = match &**ak {
                    AggregateKind::Array(t) => format!("\"ak\":\"array\",\"ety\":{}", js(&ty_str(tcx, *t))),
                    AggregateKind::Tuple => "\"ak\":\"tuple\"".to_string(),
                    AggregateKind::Adt(did, vi, _, _, _) => {
                        let adt = tcx.adt_def(*did);
                        let v = adt.variant(*vi);
                        let fnames: Vec<String> = v.fields.iter().map(|f| js(f.name.as_str())).collect();
                        format!(
                            "\"ak\":\"adt\",\"adt\":{},\"variant\":{},\"vi\":{},\"fields\":{}",
                            js(&dpath(tcx, *did)),
                            js(v.name.as_str()),
                            vi.as_usize(),
                            jarr(&fnames)
                        )
                    }
                    AggregateKind::Closure(did, _) => format!("\"ak\":\"closure\",\"def\":{}", js(&dpath(tcx, *did))),
                    AggregateKind::Coroutine(did, _) => format!("\"ak\":\"coroutine\",\"def\":{}", js(&dpath(tcx, *did))),
                    AggregateKind::CoroutineClosure(did, _) => {
                        format!("\"ak\":\"coroutine_closure\",\"def\":{}", js(&dpath(tcx, *did)))
                    }
                    AggregateKind::RawPtr(..) => "\"ak\":\"rawptr\"".to_string(),
                };
                format!("{{\"k\":\"agg\",{},\"ops\":{}}}", head, jarr(&opv))
            }
            Rvalue::CopyForDeref(p) => format!("{{\"k\":\"use\",\"o\":{{\"k\":\"copy\",\"p\":{}}}}}", self.place(p)),
            Rvalue::ThreadLocalRef(d) => format!("{{\"k\":\"tls\",\"def\":{}}}", js(&dpath(tcx, *d))),
            other => format!("{{\"k\":\"other\",\"d\":{}}}", js(&format!("{:?}", other))),
        }
    }

    fn bb(&self, b: BasicBlock) -> usize {
        b.as_usize()
    }

    fn emit(&self) -> String {
        let tcx = self.tcx;
        let body = self.body;
        let did = self.def;
        let mut out = String::new();
        let kind = tcx.def_kind(did);
        let root = tcx.typeck_root_def_id(did);
        let _ = write!(
            out,
            "{{\"id\":{},\"kind\":{},\"owner\":{},\"span\":{}",
            js(&dpath(tcx, did)),
            js(&format!("{:?}", kind)),
            js(&dpath(tcx, root)),
            js(&span_str(tcx, body.span))
        );
        if did != root {
            let parent = tcx.parent(did);
            let _ = write!(out, ",\"parent\":{}", js(&dpath(tcx, parent)));
        }
        if let Some(ck) = tcx.coroutine_kind(did) {
            let _ = write!(out, ",\"coroutine\":{}", js(&format!("{:?}", ck)));
        }
        if matches!(kind, DefKind::Fn | DefKind::AssocFn) {
            let asy = tcx.asyncness(did).is_async();
            let _ = write!(out, ",\"async\":{}", asy);
            let vis = tcx.visibility(did);
            let _ = write!(out, ",\"vis\":{}", js(&format!("{:?}", vis)));
            if let Some(imp) = tcx.impl_of_assoc(did) {
                let st = tcx.type_of(imp).instantiate_identity().skip_norm_wip();
                let _ = write!(out, ",\"impl_self\":{}", js(&ty_str(tcx, st)));
                if let Some(tr) = tcx.impl_opt_trait_ref(imp) {
                    let tr = tr.instantiate_identity().skip_norm_wip();
                    let _ = write!(out, ",\"impl_trait\":{}", js(&dpath(tcx, tr.def_id)));
                }
            }
        }
        if matches!(kind, DefKind::Closure) {
            if let Some(ld) = did.as_local() {
                let names: Vec<String> = tcx
                    .closure_saved_names_of_captured_variables(ld)
                    .iter()
                    .map(|n| js(n.as_str()))
                    .collect();
                let _ = write!(out, ",\"upvars\":{}", jarr(&names));
            }
        }
        let _ = write!(out, ",\"argc\":{}", body.arg_count);
        // locals
        let mut names: Vec<Option<String>> = vec![None; body.local_decls.len()];
        let mut dbg: Vec<String> = Vec::new();
        for vdi in &body.var_debug_info {
            if let mir::VarDebugInfoContents::Place(p) = &vdi.value {
                if p.projection.is_empty() {
                    names[p.local.as_usize()] = Some(vdi.name.to_string());
                }
                dbg.push(format!("{{\"name\":{},\"p\":{}}}", js(vdi.name.as_str()), self.place(p)));
            }
        }
        let mut locs: Vec<String> = Vec::new();
        for (i, ld) in body.local_decls.iter_enumerated() {
            let nm = names[i.as_usize()].as_ref().map(|n| js(n)).unwrap_or("null".into());
            locs.push(format!(
                "{{\"ty\":{},\"name\":{},\"user\":{}}}",
                js(&ty_str(tcx, ld.ty)),
                nm,
                ld.is_user_variable()
            ));
        }
        let _ = write!(out, ",\"locals\":{},\"debug\":{}", jarr(&locs), jarr(&dbg));
        // blocks
        let mut blocks: Vec<String> = Vec::new();
        for (_bbi, bbd) in body.basic_blocks.iter_enumerated() {
            let mut stmts: Vec<String> = Vec::new();
            for st in &bbd.statements {
                let sp = js(&span_str(tcx, st.source_info.span));
                match &st.kind {
                    StatementKind::Assign(pr) => {
                        let (p, r) = &**pr;
                        stmts.push(format!("{{\"k\":\"assign\",\"p\":{},\"r\":{},\"sp\":{}}}", self.place(p), self.rvalue(r), sp));
                    }
                    StatementKind::SetDiscriminant { place, variant_index } => {
                        stmts.push(format!(
                            "{{\"k\":\"setdiscr\",\"p\":{},\"vi\":{},\"sp\":{}}}",
                            self.place(place),
                            variant_index.as_usize(),
                            sp
                        ));
                    }
                    StatementKind::StorageDead(l) => {
                        stmts.push(format!("{{\"k\":\"dead\",\"l\":{}}}", l.as_usize()));
                    }
                    _ => {}
                }
            }
            let term = bbd.terminator();
            let sp = js(&span_str(tcx, term.source_info.span));
            let t = match &term.kind {
                TerminatorKind::Goto { target } => format!("{{\"k\":\"goto\",\"t\":{}}}", self.bb(*target)),
                TerminatorKind::SwitchInt { discr, targets } => {
                    let tv: Vec<String> = targets.iter().map(|(v, b)| format!("[{},{}]", js(&v.to_string()), self.bb(b))).collect();
                    format!(
                        "{{\"k\":\"switch\",\"o\":{},\"ts\":{},\"else\":{},\"sp\":{}}}",
                        self.operand(discr),
                        jarr(&tv),
                        self.bb(targets.otherwise()),
                        sp
                    )
                }
                TerminatorKind::Return => format!("{{\"k\":\"return\",\"sp\":{}}}", sp),
                TerminatorKind::Unreachable => "{\"k\":\"unreachable\"}".to_string(),
                TerminatorKind::UnwindResume => "{\"k\":\"resume\"}".to_string(),
                TerminatorKind::UnwindTerminate(_) => "{\"k\":\"terminate\"}".to_string(),
                TerminatorKind::Drop { place, target, .. } => {
                    format!("{{\"k\":\"drop\",\"p\":{},\"t\":{},\"sp\":{}}}", self.place(place), self.bb(*target), sp)
                }
                TerminatorKind::Call { func, args, destination, target, fn_span, .. } => {
                    let av: Vec<String> = args.iter().map(|a| self.operand(&a.node)).collect();
                    let _ = fn_span;
                    format!(
                        "{{\"k\":\"call\",\"f\":{},\"args\":{},\"d\":{},\"t\":{},\"sp\":{}}}",
                        self.operand(func),
                        jarr(&av),
                        self.place(destination),
                        target.map(|t| self.bb(t).to_string()).unwrap_or("null".into()),
                        sp
                    )
                }
                TerminatorKind::TailCall { func, args, .. } => {
                    let av: Vec<String> = args.iter().map(|a| self.operand(&a.node)).collect();
                    format!("{{\"k\":\"tailcall\",\"f\":{},\"args\":{},\"sp\":{}}}", self.operand(func), jarr(&av), sp)
                }
                TerminatorKind::Assert { cond, expected, msg, target, .. } => {
                    let (mk, mops): (&str, Vec<String>) = match &**msg {
                        mir::AssertKind::BoundsCheck { len, index } => ("BoundsCheck", vec![self.operand(len), self.operand(index)]),
                        mir::AssertKind::Overflow(_, a, b) => ("Overflow", vec![self.operand(a), self.operand(b)]),
                        mir::AssertKind::OverflowNeg(a) => ("OverflowNeg", vec![self.operand(a)]),
                        mir::AssertKind::DivisionByZero(a) => ("DivisionByZero", vec![self.operand(a)]),
                        mir::AssertKind::RemainderByZero(a) => ("RemainderByZero", vec![self.operand(a)]),
                        _ => ("Other", vec![]),
                    };
                    format!(
                        "{{\"k\":\"assert\",\"c\":{},\"exp\":{},\"mk\":\"{}\",\"mops\":{},\"t\":{},\"sp\":{}}}",
                        self.operand(cond),
                        expected,
                        mk,
                        jarr(&mops),
                        self.bb(*target),
                        sp
                    )
                }
                TerminatorKind::Yield { value, resume, resume_arg, drop } => format!(
                    "{{\"k\":\"yield\",\"v\":{},\"t\":{},\"ra\":{},\"drop\":{},\"sp\":{}}}",
                    self.operand(value),
                    self.bb(*resume),
                    self.place(resume_arg),
                    drop.map(|d| self.bb(d).to_string()).unwrap_or("null".into()),
                    sp
                ),
                TerminatorKind::CoroutineDrop => "{\"k\":\"cordrop\"}".to_string(),
                TerminatorKind::FalseEdge { real_target, .. } => format!("{{\"k\":\"goto\",\"t\":{},\"false\":true}}", self.bb(*real_target)),
                TerminatorKind::FalseUnwind { real_target, .. } => format!("{{\"k\":\"goto\",\"t\":{},\"false\":true}}", self.bb(*real_target)),
                TerminatorKind::InlineAsm { .. } => "{\"k\":\"asm\"}".to_string(),
            };
            blocks.push(format!("{{\"s\":{},\"t\":{},\"cleanup\":{}}}", jarr(&stmts), t, bbd.is_cleanup));
        }
        let _ = write!(out, ",\"blocks\":{}}}", jarr(&blocks));
        out
    }
}

fn emit_adts(tcx: TyCtxt<'_>) -> Vec<String> {
    let mut v = Vec::new();
    for ld in tcx.hir_crate_items(()).definitions() {
        let did = ld.to_def_id();
        let k = tcx.def_kind(did);
        if !matches!(k, DefKind::Struct | DefKind::Enum | DefKind::Union) {
            continue;
        }
        let adt = tcx.adt_def(did);
        let mut vars = Vec::new();
        for var in adt.variants() {
            let fs: Vec<String> = var
                .fields
                .iter()
                .map(|f| {
                    let t = tcx.type_of(f.did).instantiate_identity().skip_norm_wip();
                    format!("{{\"name\":{},\"ty\":{}}}", js(f.name.as_str()), js(&ty_str(tcx, t)))
                })
                .collect();
            vars.push(format!("{{\"name\":{},\"fields\":{}}}", js(var.name.as_str()), jarr(&fs)));
        }
        v.push(format!(
            "{{\"path\":{},\"kind\":{},\"variants\":{},\"span\":{}}}",
            js(&dpath(tcx, did)),
            js(&format!("{:?}", k)),
            jarr(&vars),
            js(&span_str(tcx, tcx.def_span(did)))
        ));
    }
    v
}

fn emit_impls(tcx: TyCtxt<'_>) -> Vec<String> {
    let mut v = Vec::new();
    for ld in tcx.hir_crate_items(()).definitions() {
        let did = ld.to_def_id();
        if !matches!(tcx.def_kind(did), DefKind::Impl { .. }) {
            continue;
        }
        let st = tcx.type_of(did).instantiate_identity().skip_norm_wip();
        let tr = tcx.impl_opt_trait_ref(did).map(|t| dpath(tcx, t.instantiate_identity().skip_norm_wip().def_id));
        let ms: Vec<String> = tcx.associated_item_def_ids(did).iter().map(|d| js(&dpath(tcx, *d))).collect();
        v.push(format!(
            "{{\"self_ty\":{},\"trait\":{},\"items\":{},\"span\":{}}}",
            js(&ty_str(tcx, st)),
            tr.map(|t| js(&t)).unwrap_or("null".into()),
            jarr(&ms),
            js(&span_str(tcx, tcx.def_span(did)))
        ));
    }
    v
}

struct Cb;
impl rustc_driver::Callbacks for Cb {
    fn config(&mut self, config: &mut rustc_interface::interface::Config) {
        config.override_queries = Some(|_sess, providers| {
            *ORIG.lock().unwrap() = Some(providers.queries.mir_built);
            providers.queries.mir_built = my_mir_built;
        });
    }
    fn after_analysis<'tcx>(&mut self, _c: &rustc_interface::interface::Compiler, tcx: TyCtxt<'tcx>) -> Compilation {
        let Ok(outdir) = std::env::var("POLYSCAN_OUT") else {
            return Compilation::Continue;
        };
        // make sure every body has been built (and therefore stashed)
        for ldid in tcx.hir_body_owners() {
            if !tcx.is_typeck_child(ldid.to_def_id()) {
                let _ = tcx.ensure_ok().mir_borrowck(ldid);
            }
        }
        let krate = tcx.crate_name(LOCAL_CRATE).to_string();
        let stash = std::mem::take(&mut BODIES.lock().unwrap().0);
        let mut bodies: Vec<String> = Vec::new();
        let mut seen = std::collections::HashSet::new();
        for (ldid, body) in stash.iter() {
            if !seen.insert(*ldid) {
                continue;
            }
            let did = ldid.to_def_id();
            let kind = tcx.def_kind(did);
            if !matches!(kind, DefKind::Fn | DefKind::AssocFn | DefKind::Closure | DefKind::SyntheticCoroutineBody) {
                continue;
            }
            // SAFETY: see my_mir_built
            let body: &Body<'tcx> = unsafe { std::mem::transmute::<&Body<'static>, &Body<'tcx>>(body) };
            let cx = Cx { tcx, body, def: did };
            bodies.push(cx.emit());
        }
        let adts = emit_adts(tcx);
        let impls = emit_impls(tcx);
        let ctypes: Vec<String> = tcx.crate_types().iter().map(|c| js(&format!("{:?}", c))).collect();
        let doc = format!(
            "{{\"crate\":{},\"crate_types\":{},\"bodies\":{},\"adts\":{},\"impls\":{}}}\n",
            js(&krate),
            jarr(&ctypes),
            jarr(&bodies),
            jarr(&adts),
            jarr(&impls)
        );
        let path = format!("{}/{}.{}.json", outdir, krate, std::process::id());
        std::fs::write(&path, doc).expect("write facts");
        Compilation::Continue
    }
}

fn main() {
    let mut args: Vec<String> = std::env::args().collect();
    // RUSTC_WORKSPACE_WRAPPER passes the real rustc as argv[1]
    args.remove(1);
    rustc_driver::run_compiler(&args, &mut Cb);
}
