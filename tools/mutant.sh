#!/bin/sh
# usage: tools/mutant.sh <patch> <PROP> [<PROP>...]
# Applies the patch to a scratch copy of /repo (outside /repo and /verif), runs the named checks on it,
# removes the copy. Prints one line per (patch, property): CAUGHT / MISSED / BROKEN.
set -u
patch="$1"; shift
scr=$(mktemp -d /tmp/polyscan_mut.XXXXXX)
cd /repo && git ls-files -z | tar --null -T - -cf - | tar -xf - -C "$scr"
if ! (cd "$scr" && patch -p1 -s < "$patch"); then echo "PATCH-FAILED $patch"; rm -rf "$scr"; exit 3; fi
plist=$(echo "$@" | tr ' ' ',')
out=$(cd /verif && POLYSCAN_REPO="$scr" ./check "$plist" 2>&1); rc=$?
case $rc in
  1) echo "CAUGHT  $(basename $patch) [$(echo "$out" | grep '^VIOLATION' | sed 's/.*property=\([A-Z0-9]*\).*/\1/' | sort -u | tr '\n' ' ')]"; echo "$out" | grep -A3 '^VIOLATION' | grep -v '^--' | sed "s#$scr/##" | head -${MUT_LINES:-12} ;;
  0) echo "MISSED  $(basename $patch) $plist" ;;
  *) echo "BROKEN  $(basename $patch) $plist rc=$rc"; echo "$out" | tail -15 ;;
esac
rm -rf "$scr"
