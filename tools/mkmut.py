#!/usr/bin/env python3
"""mkmut.py NAME FILE OLD NEW [FILE OLD NEW ...]  -> writes /verif/mutants/NAME.patch
(OLD must occur exactly once in FILE of /repo HEAD; strings are taken literally)."""
import sys, difflib, subprocess, os
name = sys.argv[1]
trip = sys.argv[2:]
out = []
files = {}
orig = {}
for i in range(0, len(trip), 3):
    f, old, new = trip[i], trip[i + 1], trip[i + 2]
    if f not in files:
        orig[f] = files[f] = subprocess.check_output(["git", "-C", "/repo", "show", "HEAD:" + f], text=True)
    src = files[f]
    if src.count(old) != 1:
        sys.exit("OLD occurs %d times in %s" % (src.count(old), f))
    files[f] = src.replace(old, new)
for f in files:
    out += list(difflib.unified_diff(orig[f].splitlines(True), files[f].splitlines(True), "a/" + f, "b/" + f))
d = "/verif/mutants"
if os.environ.get("MUT_DIR"):
    d = os.environ["MUT_DIR"]
open(os.path.join(d, name + ".patch"), "w").write("".join(out))
print("wrote", name)
