#!/usr/bin/env python3
"""Writes the `history` (first verdict and what was done) of the wave-3 / wave-4 changes into their meta.json, and the
`disposition` of the refactors that are still reported."""
import json, os
H = {
 "C01c_2": "missed at first; check strengthened: C01.g (a vector looked up by party number is filled by party number)",
 "C02c_2": "first reported only by C01.b, for a wrong reason (a bounds pre-check taken for a flush test: corrected); decided by R2.4 (the None edge of a share slot inside an Option-returning closure drops the element)",
 "C04c_2": "missed at first; check strengthened: R2.10 (every comparison of a compound abort condition rejects on its own); benign twin B34",
 "C06c_1": "NOT reported by any check and not decidable by the rules of C06: the AES-CTR generator restarts its counter per chunk, a value-level property of the generator (C20, not applicable to this technique family, DESIGN section 5). Documented miss, like C06b_2.",
 "C07c_2": "reported from the start by R2.key, which only C02/C03/C08 ran; C07 runs it as well now (one label per wire and garbler)",
 "C09c_2": "missed by C09 at first (C02/C03/C08 only); R7.2 now follows a slot value built in a temporary (`v[i] = secret.then_some(x)`) through the index_mut store to the payload",
 "C15c_2": "missed at first; check strengthened: R9.cancel notify_waiters (both directions of the handshake must use notify_one)",
 "C18c_2": "missed by C18 at first (C06 only, for a side effect); check strengthened: R10.slice; benign twin B35",
 "C02d_2": "missed by C02 at first (C08 only); check strengthened: R2.11 (the conflicting-mask test inspects the table of the own masked inputs)",
 "C04d_2": "missed at first; the claimed-bit rule (shared by C04 and C07) now demands that the claimed MACs are compared with the value that is opened afterwards",
 "C08d_1": "missed at first; check strengthened: R1.serde (no hand-written byte-buffer decoding of wire types)",
 "C18d_2": "missed at first (the slice sits in a new Context method and reaches the circuit through ctx.circ); R10.slice recognises the circuit vector by its element type",
 "C04e_1": "missed at first; check strengthened: R2.8 whole-value (a compared word must not XOR distinct parts of the received message together); benign twin B37",
 "C08e_1": "missed at first; check strengthened: R1.len (the length of a peer-sized vector bounds a slice of another container); benign twin B38",
 "C08e_2": "missed at first; R1.len also treats the ciphertext handed to garble::decrypt as a vector whose length the garbler chooses (`row.len() - TAG_LEN`)",
 "C19e_1": "missed at first (the lazy flag is read through mem::take, which the rule took for an unconditional seek); R19.drop follows the flag through take/replace and reborrows, and a condition it cannot tie to a writer flag is a violation; benign twin B39",
 "C07e_2": "missed at first; R6.4 no longer counts a Label pad as private when its provenance contains a Label built from a literal (a `vec![Label(0); n]` table entry); benign twin B40",
 "C14e_1": "missed at first; check strengthened: R9.queue queues|open (no per-peer byte queue is closed or dropped by the server core)",
 "C03e_2": "reported from the start by R2.6 all-pairs, which only C04 ran; C02 and C03 run the rules of the echo layer as well now",
 "C05e_2": "missed by C05 at first (C01.d only): the slot rule did not see `a..=b` (a RangeInclusive::new call, not an aggregate) as an integer range",
 "C17e_2": "reported from the start by R9.handle, which only C14 ran; C17 runs the handle life-cycle rules as well now",
 "C07g_1": "reported at first only by C02/C04 (R3.bind-id, for a side effect of the reordering), not by C07; R2.8 now also matches a difference of message values that is XOR-accumulated over the check positions (a loop whose counter indexes the received data below the per-party level) and tested once behind the loop",
}
D = {
 "C18d_2": "reported at first (recognition limit of R10.field); resolved: Iterator::find/any/all/position are modelled as the loops they abbreviate inside the validators and Option facts are threaded through tuple slots (DESIGN 12.7); silent now",
}
BH = {
 "C01e_1": "reported at first (C01.a could not type the stream of a `next` inside a generic helper `fn next_random_share(it: &mut impl Iterator<..>, w)` spliced into the walkers); corrected: the stream is the variable the parameter is bound to",
 "C02e_2": "reported at first (R2.1 counted comparison sites, so one comparison of a tuple of both Beaver MACs was `1 of 2`; R2.5 did not see a length test stored in a tuple of flags); corrected: MAC components are counted, stored length comparisons are followed",
 "C04e_1": "reported at first (R2.1 bit-range only knew `b > 1`); corrected: a `match byte { 0 => .., 1 => .., _ => Err }` whose arms enumerate 0..=m is the range test",
 "C04e_3": "reported at first (R2.7 took the position counter of `.enumerate()` over a received vector for message content, so `if k == i { continue }` looked like a peer-controlled skip); corrected",
 "C05e_1": "reported at first (R5.slot / R6.5 lost the payload vector when its builder was moved into a helper function that returns it); corrected: the named local is followed to the vector the spliced builder filled",
 "C06e_2": "reported at first (R6.2 lost the input bit across `inputs.get(i).ok_or(..)?`); corrected: aggregate edges of the modelled adaptor are followed",
 "C07e_3": "reported at first (claimed-bit rule: the verified value is pushed into the opened vector after the check instead of being stored before); corrected: scalars stored or pushed into the opened vector count, up to the variable that receives the selected one of d0 / d1",
 "C18e_2": "reported at first (validate rewritten as `iter().enumerate().find(..)` plus one match on a tuple of facts: R10.field / R10.dup could not see the tests); corrected: find/any/all/position are modelled as loops inside the validators, Option facts are threaded through tuple slots",
}
BH.update({
 "C02e_3": "silent at first sight; reported for a while by a rule added later in the same round (R2.8 whole-value took `*d ^= *d_p`, an own share zipped with a received bit, for two parts of the message) - the rule now only counts parts whose non-bool type occurs in the message",
 "C04e_3": "silent at first sight; reported for a while by R6.6 when it was added (`hi.iter().map(|h| commit(..)).collect()`: the adaptor's summary edge bypassed the hash inside the closure) - adaptor calls with a closure are followed through the closure only",
 "C08g_3": "reported at first (R1.i: `qs.chunks_exact_mut(n).zip(&uvec)` - the own buffer travels in one tuple with the peer's rows and the value-flow graph does not keep the two slots of a zip item apart; the own chunk then reached `split_at_mut(len / 16 * 16)` in AesRng::fill_bytes); corrected for this sink: a position that is the largest multiple of a constant below the container's own length is in range by construction. The slot-insensitivity of zip items remains a limit of the component analysis",
 "C16g_1": "reported at first (the validate fan-out and its join moved into a new `async fn validate_followers`: R9.compat picked the join of the run fan-out instead, R9.fanout did not see `other_parties()`); corrected: the join is chosen by dominance order, events of a spliced async helper remember where they really sit, the handler's test of the helper's Result counts when the helper cannot turn a failed join into Ok (control C16__validate_helper_swallows_join_error)",
 "C18g_1": "reported at first (validate split into `Context::expected_inputs_of(p)` / `check_output_parties()`: the receiver `self.circ.input_regs` is a nested place and the flow graph named only its outer field); corrected: a nested place denotes its innermost field",
 "C18g_2": "reported at first (tuple match with or-pattern on `(input_regs.get(p_own), p_eval < p_max)`, `find(..)`, slice pattern `[]`); corrected: discriminants read from tuple slots, every branch on a flag of an or-pattern must reject, `len == 0` as the emptiness test, raw pointers through a deref do not make the tuple escape",
})
for sid, h in BH.items():
    p = "/verif/benign_seeded/%s/meta.json" % sid
    if os.path.exists(p):
        m = json.load(open(p)); m["history"] = h; json.dump(m, open(p, "w"), indent=1)
for sid, h in H.items():
    p = "/verif/seeded/%s/meta.json" % sid
    if os.path.exists(p):
        m = json.load(open(p)); m["history"] = h; json.dump(m, open(p, "w"), indent=1)
for sid, d in D.items():
    p = "/verif/benign_seeded/%s/meta.json" % sid
    if os.path.exists(p):
        m = json.load(open(p)); m["disposition"] = d; json.dump(m, open(p, "w"), indent=1)
print("annotated")
