#!/usr/bin/env python3
"""Writes the `history` (first verdict and what was done) of the wave-3 / wave-4 changes into their meta.json, and the
`disposition` of the refactors that are still reported."""
import json, os
H = {
 "C01c_2": "missed at first; check strengthened: C01.g (a vector looked up by party number is filled by party number)",
 "C02c_2": "first reported only by C01.b, for a wrong reason (a bounds pre-check taken for a flush test: corrected); decided by R2.4 (the None edge of a share slot inside an Option-returning closure drops the element)",
 "C04c_2": "missed at first; check strengthened: R2.10 (every comparison of a compound abort condition rejects on its own); benign twin B34",
 "C06c_1": "NOT reported by any check and not decidable by the rules of C06: the AES-CTR generator restarts its counter per chunk, a value-level property of the generator (C20, not applicable to this technique family, DESIGN section 5). Documented miss, like C06b_2.",
 "C07c_2": "reported from the start by R2.key, which only C02/C03/C08 ran; C07 runs it as well now (one label per wire and garbler)",
 "C09c_2": "missed by C09 at first (C02/C03/C08 only); R7.2 now follows a slot value built in a temporary (`v[i] = secret.then_some(x)`) through the index_mut store to the payload",
 "C15c_2": "missed at first; check strengthened: R9.cancel notify_waiters (both directions of the handshake must use notify_one)",
 "C18c_2": "missed by C18 at first (C06 only, for a side effect); check strengthened: R10.slice; benign twin B35",
 "C02d_2": "missed by C02 at first (C08 only); check strengthened: R2.11 (the conflicting-mask test inspects the table of the own masked inputs)",
 "C04d_2": "missed at first; the claimed-bit rule (shared by C04 and C07) now demands that the claimed MACs are compared with the value that is opened afterwards",
 "C08d_1": "missed at first; check strengthened: R1.serde (no hand-written byte-buffer decoding of wire types)",
 "C18d_2": "missed at first (the slice sits in a new Context method and reaches the circuit through ctx.circ); R10.slice recognises the circuit vector by its element type",
}
D = {
 "C18d_2": "recognition limit, not a finding: the evaluator range test is written inside the closure of Option::filter (`get(p_own).filter(|_| p_eval < p_max)`) and the remaining checks as a match on a tuple of flags with map_or; R10.field cannot locate the tests and fails closed (DESIGN 12.5)",
}
for sid, h in H.items():
    p = "/verif/seeded/%s/meta.json" % sid
    if os.path.exists(p):
        m = json.load(open(p)); m["history"] = h; json.dump(m, open(p, "w"), indent=1)
for sid, d in D.items():
    p = "/verif/benign_seeded/%s/meta.json" % sid
    if os.path.exists(p):
        m = json.load(open(p)); m["disposition"] = d; json.dump(m, open(p, "w"), indent=1)
print("annotated")
