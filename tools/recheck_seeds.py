#!/usr/bin/env python3
"""recheck_seeds.py [ids...]: re-run every claimed check against each stored seed (scratch copy of /repo
with seeded/<id>/patch.diff applied) and refresh the `checks` section of its meta.json.  The
confirmation section (demo / suite results at the time the seed was accepted) is left as is."""
import sys, os, subprocess, json, shutil, tempfile, re
root = "/verif/seeded"
ids = sys.argv[1:] or sorted(d for d in os.listdir(root) if os.path.isdir(os.path.join(root, d)))
props = [c["property_id"] for c in json.load(open("/verif/MANIFEST.json"))["checks"]]
for sid in ids:
    out = os.path.join(root, sid)
    meta = json.load(open(out + "/meta.json"))
    scr = tempfile.mkdtemp(prefix="polyscan_seed.")
    subprocess.run("cd /repo && git ls-files -z | tar --null -T - -cf - | tar -xf - -C %s" % scr, shell=True)
    ap = subprocess.run(["patch", "-p1", "-s", "--dry-run", "-i", out + "/patch.diff"], cwd=scr, stdout=subprocess.PIPE, stderr=subprocess.STDOUT, text=True)
    used = "patch.diff"
    ported = sorted(f_ for f_ in os.listdir(out) if f_.startswith("ported") and f_.endswith(".diff"))
    if ap.returncode != 0 and ported:
        used = ported[-1]
    ap = subprocess.run(["patch", "-p1", "-s", "-i", out + "/" + used], cwd=scr, stdout=subprocess.PIPE, stderr=subprocess.STDOUT, text=True)
    env = dict(os.environ, POLYSCAN_REPO=scr)
    c = subprocess.run(["/verif/check", ",".join(props)], cwd="/verif", env=env, stdout=subprocess.PIPE, stderr=subprocess.STDOUT, text=True)
    shutil.rmtree(scr, ignore_errors=True)
    caught = sorted(set(re.findall(r"^VIOLATION property=(\w+)", c.stdout, re.M)))
    rules = sorted(set(re.findall(r"^  rule=(\S+) instance=(.*)$", c.stdout, re.M)))
    prop = meta.get("property") or sid.split("_")[0]
    meta["checks"] = {"patch_used": used, "patch_applies_to_current_repo": ap.returncode == 0, "exit_code": c.returncode, "caught_by": caught,
                      "rules": ["%s[%s]" % r_ for r_ in rules][:8], "target_property_caught": prop in caught}
    json.dump(meta, open(out + "/meta.json", "w"), indent=1)
    print(sid, "applies=%s" % (ap.returncode == 0), "caught_by=%s" % caught, "target=%s" % (prop in caught), [r_[0] for r_ in rules][:5], flush=True)
