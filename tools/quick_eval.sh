#!/bin/sh
# tools/quick_eval.sh <dir with patch.diff> : run all checks on scratch copy with patch; print verdict line
d=$1
scr=$(mktemp -d /tmp/polyscan_qe.XXXXXX)
(cd /repo && git ls-files -z | tar --null -T - -cf - | tar -xf - -C "$scr")
if ! (cd "$scr" && patch -p1 -s < "$d/patch.diff" >/dev/null 2>&1); then echo "$d PATCH-FAILED"; rm -rf "$scr"; exit; fi
props=$(python3 -c "import json;print(','.join(c['property_id'] for c in json.load(open('/verif/MANIFEST.json'))['checks']))")
o=$(cd /verif && POLYSCAN_REPO="$scr" ./check "$props" 2>&1); rc=$?
rm -rf "$scr"
ps=$(echo "$o" | grep '^VIOLATION' | sed 's/.*property=\([A-Z0-9]*\).*/\1/' | sort -u | tr '\n' ' ')
rs=$(echo "$o" | grep '^  rule=' | sed 's/^  rule=\([^ ]*\) instance=\(.*\)$/\1[\2]/' | sort -u | head -5 | tr '\n' ';')
mf=$(echo "$o" | grep -c '^MACHINERY')
echo "$d rc=$rc props=[$ps] mf=$mf rules=$rs"
[ $rc -ge 2 ] && echo "$o" | grep -B2 -A8 'MACHINERY\|Traceback' | head -30
