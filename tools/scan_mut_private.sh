#!/bin/sh
# (private target dir: safe to run while a ./check is running; tools/scan_mut.sh is not - it clears fingerprints of the shared cache)
# usage: tools/scan_mut.sh <patch>  -> facts of the mutated tree in /verif/.work/mut
scr=$(mktemp -d /tmp/polyscan_dbg.XXXX); cd /repo && git ls-files -z | tar --null -T - -cf - | tar -xf - -C $scr
cd $scr && patch -p1 -s < "$1" || { rm -rf $scr; exit 3; }
rm -rf /verif/.work/mut && mkdir -p /verif/.work/mut
rm -rf /verif/.cache/target_dbg/debug/.fingerprint/polytune*
cd $scr && env LD_LIBRARY_PATH=$(rustc +nightly --print sysroot)/lib CARGO_INCREMENTAL=0 RUSTFLAGS="-Zmir-opt-level=0 -Awarnings" RUSTC_WORKSPACE_WRAPPER=/verif/driver/target/release/polyscan-driver POLYSCAN_OUT=/verif/.work/mut CARGO_TARGET_DIR=/verif/.cache/target_dbg cargo +nightly check --offline -p polytune -p polytune-server-core -p polytune-http-server 2>&1 | tail -1
rm -rf $scr
