#!/usr/bin/env python3
"""Regenerates benign_seeded/README.md from the meta.json files."""
import json, os
root = "/verif/benign_seeded"
rows = []
for d in sorted(os.listdir(root)):
    p = os.path.join(root, d, "meta.json")
    if not os.path.exists(p):
        continue
    m = json.load(open(p))
    c = m.get("checks", {})
    conf = m.get("confirmation", {})
    rows.append((d, m.get("style", ""), (m.get("summary", "") or "").split(". ")[0][:260].replace("|", "/").replace("\n", " "),
                 "yes" if conf.get("suite_rc") == 0 else ("-" if "suite_rc" not in conf else "no"),
                 "silent" if c.get("silent") else "reported by " + ", ".join(c.get("flagged_by", [])), m.get("disposition", "")))
out = ["# Behaviour-preserving refactors written by independent sub-agents", "",
       "Each directory holds one refactor produced by a fresh sub-agent that was given only the text of one property and a scratch",
       "worktree (nothing from /verif) and asked for a realistic clean-up of the code the property is anchored in that does not change",
       "behaviour. `patch.diff`, `meta.json` (the agent's description and argument, my own confirmation that the stable suite passes with",
       "it, and the verdict of every claimed check on a scratch copy with the patch applied). A refactor that preserves behaviour must be",
       "silent; `tools/recheck_benign_seeded.py` re-runs the checks and fails if one without a recorded `disposition` is reported.",
       "Directory names: `<Cxx><wave>_<n>`; `_B<n>` style entries of wave 3 are stored as `<Cxx>c_<n>`.", "",
       "| refactor | style | change (first sentence of the agent's summary) | suite passes | checks | disposition |",
       "|---|---|---|---|---|---|"]
for r in rows:
    out.append("| " + " | ".join(r) + " |")
open(os.path.join(root, "README.md"), "w").write("\n".join(out) + "\n")
print(len(rows), "refactors")
