#!/usr/bin/env python3
"""keep_benign.py <wtname> <n> [--no-suite]: take the behaviour-preserving refactor /tmp/wt/<wtname>/BENIGN<n>
written by a sub-agent, confirm that it builds and passes the stable tests (in the agent's worktree),
run every claimed check on a scratch copy of /repo with the patch applied and store patch + verdicts under
/verif/benign_seeded/<wtname>_<n>/.  A refactor that really preserves behaviour must stay silent."""
import sys, os, subprocess, json, shutil, tempfile, re
wtname, n = sys.argv[1], sys.argv[2]
suite = "--no-suite" not in sys.argv
wt = "/tmp/wt/%s" % wtname
src = "%s/BENIGN%s" % (wt, n)
out = "/verif/benign_seeded/%s_%s" % (wtname, n)
os.makedirs(out, exist_ok=True)
shutil.copy(src + "/patch.diff", out + "/patch.diff")
try:
    meta = json.load(open(src + "/meta.json"))
except Exception:
    meta = {}
conf = {}
if suite:
    env = dict(os.environ, CARGO_TARGET_DIR=os.path.join(wt, "target"), CARGO_NET_OFFLINE="true", CARGO_INCREMENTAL="0", CARGO_PROFILE_DEV_DEBUG="0", CARGO_PROFILE_TEST_DEBUG="0")
    def run(c):
        if c and c[0] == "cargo":
            c = ["unshare", "-n", "sh", "-c", "ip link set lo up; exec \"$@\"", "sh"] + list(c)
        r = subprocess.run(c, cwd=wt, env=env, stdout=subprocess.PIPE, stderr=subprocess.STDOUT, text=True)
        return r.returncode, r.stdout
    run(["git", "checkout", "--", "."])
    rc, o = run(["git", "apply", src + "/patch.diff"]); conf["apply_rc"] = rc
    rc, o = run(["cargo", "nextest", "run", "--offline", "--workspace", "--no-fail-fast", "-E",
                 "not test(eval_mixed_circuits) and not test(eval_garble_prg_3pc) and not test(simulate)"])
    conf["suite_rc"] = rc
    m = re.search(r"Summary.*", o); conf["suite_summary"] = m.group(0) if m else o[-300:]
    run(["git", "checkout", "--", "."])
props = [c["property_id"] for c in json.load(open("/verif/MANIFEST.json"))["checks"]]
scr = tempfile.mkdtemp(prefix="polyscan_benign.")
subprocess.run("cd /repo && git ls-files -z | tar --null -T - -cf - | tar -xf - -C %s" % scr, shell=True)
ap = subprocess.run(["patch", "-p1", "-s", "-i", out + "/patch.diff"], cwd=scr, stdout=subprocess.PIPE, stderr=subprocess.STDOUT, text=True)
env = dict(os.environ, POLYSCAN_REPO=scr)
c = subprocess.run(["/verif/check", ",".join(props)], cwd="/verif", env=env, stdout=subprocess.PIPE, stderr=subprocess.STDOUT, text=True)
shutil.rmtree(scr, ignore_errors=True)
flagged = sorted(set(re.findall(r"^VIOLATION property=(\w+)", c.stdout, re.M)))
rules = sorted(set(re.findall(r"^  rule=(\S+) instance=(.*)$", c.stdout, re.M)))
fails = re.findall(r"^MACHINERY-FAILURE.*$", c.stdout, re.M)
meta["confirmation"] = conf
meta["checks"] = {"patch_applies_to_current_repo": ap.returncode == 0, "exit_code": c.returncode, "flagged_by": flagged,
                  "rules": ["%s[%s]" % r_ for r_ in rules][:12], "machinery_failures": fails[:6], "silent": c.returncode == 0}
json.dump(meta, open(out + "/meta.json", "w"), indent=1)
print(wtname, "BENIGN" + n, "applies=%s" % (ap.returncode == 0), "suite=%s" % conf.get("suite_rc"), "exit=%d" % c.returncode, "flagged_by=%s" % flagged,
      ["%s[%s]" % r_ for r_ in rules][:6], fails[:3])
