#!/usr/bin/env python3
"""confirm_seed.py <worktree> <SEEDdir> <dest-relative-path-for-demo> <test command...>
Confirms a seeded change independently: demo passes on the clean worktree, fails with the patch,
the patched tree builds and passes the existing (stable) tests. Prints a JSON verdict."""
import sys, os, subprocess, shutil, json, glob
wt, seed, dest = sys.argv[1], sys.argv[2], sys.argv[3]
cmd = sys.argv[4:]
env = dict(os.environ, CARGO_TARGET_DIR=os.path.join(wt, "target"), CARGO_NET_OFFLINE="true", CARGO_INCREMENTAL="0", CARGO_PROFILE_DEV_DEBUG="0", CARGO_PROFILE_TEST_DEBUG="0")
def run(c, **kw):
    if c and c[0] == "cargo":
        # private network namespace: the server tests bind fixed ports and collide with other scratch worktrees
        c = ["unshare", "-n", "sh", "-c", "ip link set lo up; exec \"$@\"", "sh"] + list(c)
    r = subprocess.run(c, cwd=wt, env=env, stdout=subprocess.PIPE, stderr=subprocess.STDOUT, text=True, **kw)
    return r.returncode, r.stdout
run(["git", "checkout", "--", "."])
copied = []
for f in glob.glob(os.path.join(seed, "demo", "*.rs")):
    d = os.path.join(wt, dest, os.path.basename(f)) if not dest.endswith(".rs") else os.path.join(wt, dest)
    os.makedirs(os.path.dirname(d), exist_ok=True)
    shutil.copy(f, d); copied.append(d)
reg = os.path.join(seed, "demo", "register.diff")
def apply_reg():
    if os.path.exists(reg):
        return run(["git", "apply", reg])
    return 0, ""
out = {}
apply_reg()
rc, o = run(cmd); out["demo_clean_rc"] = rc; out["demo_clean_tail"] = o[-600:]
run(["git", "checkout", "--", "."])
rc, o = run(["git", "apply", os.path.join(seed, "patch.diff")]); out["apply_rc"] = rc
apply_reg()
rc, o = run(cmd); out["demo_patched_rc"] = rc; out["demo_patched_tail"] = o[-900:]
# existing tests with the patch (demo files removed so they do not count)
for c in copied:
    os.remove(c)
run(["git", "checkout", "--", "."])
run(["git", "apply", os.path.join(seed, "patch.diff")])
rc, o = run(["cargo", "nextest", "run", "--offline", "--workspace", "--no-fail-fast", "-E", "not test(eval_mixed_circuits) and not test(eval_garble_prg_3pc) and not test(simulate)"])
out["suite_rc"] = rc
import re
m = re.search(r"Summary.*", o); out["suite_summary"] = m.group(0) if m else o[-300:]
run(["git", "checkout", "--", "."])
out["confirmed"] = out["demo_clean_rc"] == 0 and out["demo_patched_rc"] != 0 and out["apply_rc"] == 0 and out["suite_rc"] == 0
print(json.dumps(out, indent=1))
