#!/usr/bin/env python3
"""Regenerates rules/known_fns.txt from a whole-workspace scan of /repo (run ./scan_dev.sh first).
Only to be run on a *reviewed* tree: functions listed there keep their call boundary in the analysis."""
import sys
sys.path.insert(0, "/verif/rules")
from mir import Program
P = Program("/verif/.work/dev", inline=False)
ids = sorted({b.id for b in P.bodies.values() if b.kind in ("Fn", "AssocFn")})
head = ("# every fn / associated fn of the reviewed tree (all workspace crates); functions not listed here are new\n"
        "# helpers and are inlined into their callers by rules/inline.py.  Regenerate with tools/gen_known_fns.py only\n"
        "# after reviewing the new functions.\n")
open("/verif/rules/known_fns.txt", "w").write(head + "\n".join(ids) + "\n")
print(len(ids), "functions")
