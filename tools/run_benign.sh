#!/bin/sh
# Runs every mutants/*.patch against every claimed check (one scan per mutant) and writes
# benign/RESULTS.tsv: <patch> <CAUGHT|MISSED|BROKEN> <properties that raised a violation> <rules>
cd "$(dirname "$0")/.."
[ -x driver/target/release/polyscan-driver ] || ./setup >/dev/null 2>&1
out=benign/RESULTS.tsv
: > $out
props=$(python3 -c "import json;print(','.join(c['property_id'] for c in json.load(open('MANIFEST.json'))['checks']))")
for m in benign/*.patch; do
  scr=$(mktemp -d /tmp/polyscan_mut.XXXXXX)
  (cd /repo && git ls-files -z | tar --null -T - -cf - | tar -xf - -C "$scr")
  if ! (cd "$scr" && patch -p1 -s < "$OLDPWD/$m" 2>/dev/null); then echo "$(basename $m)	PATCH-FAILED		" >> $out; rm -rf "$scr"; continue; fi
  o=$(POLYSCAN_REPO="$scr" ./check "$props" 2>&1); rc=$?
  rm -rf "$scr"
  ps=$(echo "$o" | grep '^VIOLATION' | sed 's/.*property=\([A-Z0-9]*\).*/\1/' | sort -u | tr '\n' ' ')
  rs=$(echo "$o" | grep '^  rule=' | sed 's/^  rule=\([^ ]*\) instance=\(.*\)$/\1[\2]/' | sort -u | head -4 | tr '\n' ';')
  case $rc in 1) st=CAUGHT;; 0) st=MISSED;; *) st=BROKEN;; esac
  echo "$(basename $m)	$st	$ps	$rs" >> $out
done
echo done: $(grep -c CAUGHT $out) caught, $(grep -c MISSED $out) missed, $(grep -c BROKEN $out) broken, $(grep -c PATCH-FAILED $out) patch-failed
