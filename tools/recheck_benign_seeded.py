#!/usr/bin/env python3
"""recheck_benign_seeded.py [ids...]: re-run every claimed check against each independently written refactor under
benign_seeded/ (scratch copy of /repo with its patch applied) and refresh the `checks` section of its meta.json.
Exit status 1 if a refactor that is not marked `not_benign` is reported."""
import sys, os, subprocess, json, shutil, tempfile, re
root = "/verif/benign_seeded"
ids = sys.argv[1:] or sorted(d for d in os.listdir(root) if os.path.isdir(os.path.join(root, d)))
props = [c["property_id"] for c in json.load(open("/verif/MANIFEST.json"))["checks"]]
bad = 0
for sid in ids:
    out = os.path.join(root, sid)
    meta = json.load(open(out + "/meta.json"))
    scr = tempfile.mkdtemp(prefix="polyscan_benign.")
    subprocess.run("cd /repo && git ls-files -z | tar --null -T - -cf - | tar -xf - -C %s" % scr, shell=True)
    ap = subprocess.run(["patch", "-p1", "-s", "-i", out + "/patch.diff"], cwd=scr, stdout=subprocess.PIPE, stderr=subprocess.STDOUT, text=True)
    env = dict(os.environ, POLYSCAN_REPO=scr)
    c = subprocess.run(["/verif/check", ",".join(props)], cwd="/verif", env=env, stdout=subprocess.PIPE, stderr=subprocess.STDOUT, text=True)
    shutil.rmtree(scr, ignore_errors=True)
    flagged = sorted(set(re.findall(r"^VIOLATION property=(\w+)", c.stdout, re.M)))
    rules = sorted(set(re.findall(r"^  rule=(\S+) instance=(.*)$", c.stdout, re.M)))
    fails = re.findall(r"^MACHINERY-FAILURE.*$", c.stdout, re.M)
    meta["checks"] = {"patch_applies_to_current_repo": ap.returncode == 0, "exit_code": c.returncode, "flagged_by": flagged,
                      "rules": ["%s[%s]" % r_ for r_ in rules][:12], "machinery_failures": fails[:4], "silent": c.returncode == 0}
    json.dump(meta, open(out + "/meta.json", "w"), indent=1)
    tag = "" if c.returncode == 0 else ("  (documented: %s)" % meta.get("disposition", "?") if meta.get("disposition") else "  <-- REPORTED")
    if c.returncode != 0 and not meta.get("disposition"):
        bad += 1
    print(sid, "applies=%s" % (ap.returncode == 0), "exit=%d" % c.returncode, flagged, [r_[0] for r_ in rules][:4], tag, flush=True)
sys.exit(1 if bad else 0)
