#!/usr/bin/env python3
"""Regenerates /verif/MANIFEST.json from the table below (kept next to the rule modules)."""
import json, os
V = "/verif"
CLAIMED = {
    "C05": dict(
        technique="who-may-send analysis: resolved call graph + backward value-flow slices of recipient / slot-index operands + CFG edge dominance (rustc MIR via rustc_private driver)",
        text="Structural decision, for all output sets / evaluators / circuits at once: every channel send reachable after input_processing addresses only members of Context.p_out (minus self), fills only slots indexed by Circuit.output_regs, every receive and every push into the returned vector is dominated by the true edge of p_out.contains(&p_own), evaluate is channel-free. Necessary-and-structural form of the property; not a behavioural test.",
        note="Trusted: rustc type checker / MIR construction (nightly), over-approximate value flow (extern calls propagate all args), Channel implementations deliver only to the addressee. Does not decide inference from preprocessing traffic.",
        ref="DESIGN.md §3 R5, §4 C05"),
}
CLAIMED["C18"] = dict(
    technique="CFG dominance of validate(ctx)? over all engine calls + range-check recognition with fail-closed edge analysis in validate (rustc MIR)",
    text="For every argument value at once: the successful `validate(ctx)?` dominates every engine call of _mpc (no traffic, RNG draw or temp file before it), mpc() only builds the Context, and inside validate each caller-supplied index (p_own, p_eval, every p_out element), the input length, emptiness and duplicates of p_out and circuit.validate() reach a test whose rejecting edge can only construct Err. No panicking index by the position of an instruction, by Input.party / Input.input, and no range slice of a circuit vector with a bound from other counters. Structural necessary conditions.",
    note="Trusted: rustc MIR, garble_lang::Circuit::validate as the circuit validator. 'fail-closed' = no Ok(..) construction reachable from the rejecting edge.",
    ref="DESIGN.md §4 C18")
CLAIMED["C19"] = dict(
    technique="who-may-call (file-creating APIs), must-precede by dominance (flush -> rewind -> reader), Drop/sibling agreement, codec agreement, forward value-flow slice of Context.tmp_dir (rustc MIR)",
    text="Necessary structural conditions of file/memory equivalence that hold for all operation histories because they are facts of every CFG path: only anonymous temp files are created; flush()? and rewind()? dominate every reader; both iterators restore the shared offset to End(0) on drop; TrackWrite::flush forwards; every method handles both variants and both iterators treat EOF alike; writer and readers share one bincode config; tmp_dir reaches nothing but FileOrMemBuf::new; writer flush bound and chunks(..) argument come from the same Context method with the `>=` idiom. Does not decide item-sequence equality itself.",
    note="Trusted: tempfile_in is anonymous; std BufReader/BufWriter/Seek semantics.",
    ref="DESIGN.md §4 C19")
_SRV_T = "state-machine extraction from rustc MIR of state.rs (events per basic block, per PolicyStateKind arm) + path/dominance queries (every-path-hits, fail-closed edges)"
_SRV_N = "Trusted: rustc MIR (normalised: new local helpers spliced into their callers, std adaptor models, variant threading - DESIGN.md 12.2); tokio Semaphore/Notify/mpsc/oneshot contracts; events of closures/async blocks attributed to their construction block. Structural: shows which transitions/replies/effects exist on which CFG paths for every interleaving, not liveness of the distributed run."
CLAIMED["C13"] = dict(technique=_SRV_T, note=_SRV_N, ref="DESIGN.md §3 R9, §4 C13, Appendix C",
    text="The extracted (command x state) relation must contain every edge a compatible run needs, with replies and effects in dominance order on every successful path: leader chain validate-all -> reply Ok -> acquire -> run-all -> Validated -> self Run; both rendezvous arms reach Validated and answer both deferred replies Ok; constants accepted in Validated/SendingConsts/SendingConstsCompleted; check_consts dichotomy; all commands dispatched and handler Breaks propagated; the MPC task delivers at most one output per path, only after mpc, and sends Stop on every path; the permit lives in the MPC future. A missing/rerouted edge, dropped reply or second output alarms; supersets do not.")
CLAIMED["C14"] = dict(technique=_SRV_T + "; reviewed panic table; command-scalar index rule", note=_SRV_N, ref="DESIGN.md §4 C14",
    text="For every command kind and every state at once: fallback arms reply an error, restore the state, continue and have no side effect; no actor mutation lies on any CFG path before (or after) an InvalidState*/UnknownSender reply; the state test dominates the type check in schedule; no command-supplied scalar indexes a container unchecked; every panic-capable call in the actor is in a reviewed table; every command is accepted in exactly the reviewed set of states; a peer queue is selected by the unmodified party id; an HTTP handle leaves the routing table only after its state machine ended; the panic arm of internal_consts_sent is unreachable by the extracted relation.")
CLAIMED["C15"] = dict(technique=_SRV_T + "; Notify direction discipline", note=_SRV_N, ref="DESIGN.md §4 C15",
    text="For cancel at any state: handle_cmd breaks after cancel on every path; cancel consumes the actor; every arm answers on every path; client-owning arms call send_cancel exactly once before an Ok reply, Init/ValidateRequested never, Executing delegates to the task whose cancel branch calls send_cancel once; the two-Notify handshake is directional (the task waits on the Notify cancel() signals and signals the Notify cancel() awaits on every path to its end, after everything it sends; no body signals and awaits the same Notify); cancel never builds a second client and awaits the client back from the consts task; the Cancel arm does not touch the actor before cancel(); the HTTP cancel_all loop ends only when every cancel request finished.")
CLAIMED["C16"] = dict(technique=_SRV_T + "; fail-closed comparison edges", note=_SRV_N, ref="DESIGN.md §4 C16",
    text="All four leader/hash comparison edges, the leader's joined validate results and garble_lang::check are fail-closed with respect to Validated and every Ok reply (mismatch edge: error reply to the validate caller + Break; good edge dominates Validated); check dominates every effect of schedule; polytune::mpc is started only from run x Running and the states leading there are entered only from their predecessors.")
CLAIMED["C17"] = dict(technique=_SRV_T + "; permit typestate by dominance", note=_SRV_N + " The numeric bound itself is the tokio semaphore's contract.", ref="DESIGN.md §4 C17",
    text="Permit typestate along the extracted relation: the only acquire_owned is in the leader branch of schedule and its completed await dominates run fan-out / Validated / self Run; the permit is taken exactly in run x Running before the spawn and bound inside the future that awaits polytune::mpc with no drop before the call; the Err edge of every joined RPC fan-out (validate, run, consts) ends the policy on every path, notifies the destination if present and never advances the state; an HTTP handle leaves the routing table only after its state machine ended (an orphaned machine would keep its permit).")
_R2_T = "abort-check discovery over rustc MIR: message components by structure-preserving value flow from each receive label, branch conditions classified by ingredients (received bit/MAC, Delta, key, open_commitment, clmul, literals), fail-closed edge analysis, dominance of uses, loop-bypass analysis; obligation table per label"
_R2_N = "Trusted: rustc MIR (normalised: new local helpers spliced into their callers, std adaptor models, variant threading - DESIGN.md 12.2); component = value reached from a receive result through structure-preserving edges inside the receiving function; abort check = one branch edge cannot reach Ok(..). Not decided: cryptographic sufficiency of the checks, forgery probability, weakened-but-still-keyed comparisons."
CLAIMED["C02"] = dict(technique=_R2_T, note=_R2_N, ref="DESIGN.md §3 R2, §4 C02, Appendix B",
    text="For every protocol message that can influence an output bit, on every CFG path (= for every adversarial message, index, party): the demanded fail-closed checks exist with the right ingredients (R2.1), received bits are used only behind their MAC check (R2.3), absent shares are errors (R2.4), MAC-check loops cannot be shortened by peer-sized vectors (R2.5), no iteration bypasses a check except own-party skips (R2.7), equivocation-sensitive labels use verified broadcast (R2.6), every comparison of a compound abort condition rejects on its own (R2.10), a check written with any / all rejects in the direction its predicate demands (R2.12), the conflicting-mask test inspects the own masked inputs (R2.11), no equality test is applied to a fold over a received vector (R2.8), the AEAD row key binds all GarblingKey fields (R2.key), symmetric commit/reveal folds bind the committer id (R3.bind-id). Structural necessary conditions of integrity.")
CLAIMED["C03"] = dict(technique=_R2_T + "; decrypt result propagation", note=_R2_N, ref="DESIGN.md §4 C03",
    text="(The echo round behind the verified broadcast is checked here as well: comparison fail-closed, all (echoing party, sender) pairs.) Per authenticated field of each online-phase message the consuming party has a fail-closed abort check (exists, right ingredients, dominates the use, every element and sender, absent => Err), masked inputs use the verified broadcast with conflict rejection, and AEAD failure of garble::decrypt is returned as Err.")
CLAIMED["C04"] = dict(technique=_R2_T + "; must-precede across awaits by Ready-edge dominance; enumeration of shared-generator draws/clones", note=_R2_N + " Known findings (5, all challenge-generator timing/cloning) recorded in known_findings.json.", ref="DESIGN.md §3 R2/R3/R4, §4 C04",
    text="Preprocessing: every verification step named by the property has a fail-closed check reached by the corresponding receive (coin toss, aBit, aShare, LaAND, buckets, Beaver, KOS, Ristretto, echo broadcast), every received commitment component is opened, commit rounds complete (await Ready edge) before the reveal exchange is created and the revealed local is the committed one, and every draw from / clone of a shared challenge generator is enumerated. Genuine protocol-level defects of the pinned tree are recorded as known findings.")
CLAIMED["C08"] = dict(
    technique="type-resolved enumeration of panic-capable sinks on message components (index/slice/unwrap/alloc, lengths of peer-sized vectors used as bounds or minuends) with validated-nesting-level and dominating length-guard analysis; Result-drop analysis; await/guard analysis (rustc MIR)",
    text="For every receive reachable from mpc and every malformed message at once: no index/slice/copy_from_slice on a vector of a received message below the nesting level validated on receipt unless behind a fail-closed length test on exactly that vector (or a whole-collection test); no unwrap/expect on message-derived values (AEAD plaintext, decrypt Result, popped elements) except fixed-size conversion of length-validated vectors; no received integer reaches an index, bound, divisor or allocation size; wire types are decoded by derived serde implementations only (no byte-buffer decoding that allocates a claimed length); index sinks on own data under a peer-chosen optional slot are enumerated against a reviewed table; no Result of channel/protocol error types is discarded; every await polls engine futures only and no std MutexGuard lives across a yield.",
    note="Trusted: rustc MIR; bincode/serde capped pre-allocation; a user-supplied Channel errors when the peer is gone (SimpleChannel test double excluded). Time bounds and the dealer path (unreachable from mpc) are not decided.",
    ref="DESIGN.md §3 R1/R-ERR, §4 C08")
CLAIMED["C06"] = dict(
    technique="entropy-provenance and value-flow rules over rustc MIR (secret constructions, generator seeds, input-to-payload flow through the own-share XOR, recipient selection of mask shares)",
    text="Structural necessary conditions of input privacy for every execution: each secret (Delta, labels, aBit string, HaAND pads, coin-toss contributions, KOS padding, base-OT scalars, OT session generators) is built from private entropy and never from a constant; every generator seed derives from entropy / OT output / generator output / a coin toss with own contribution; Context.inputs is read only in validate and input_processing and reaches a payload only through `input ^ own_share`; a mask share is stored only for the wire's owner and never for the own party. Statistical clauses are not decided.",
    note="Trusted: rand::random / ThreadRng / Scalar::random are cryptographically secure; distributional claims (balance, uniqueness across runs) need execution and are declined.",
    ref="DESIGN.md §3 R6.1-R6.3, §4 C06")
CLAIMED["C07"] = dict(
    technique="declassification analysis: per-function forward flow from Delta-typed / label sources to send payloads with sanitizers (hash, AEAD, OT sender, XOR with own key/label pad); claimed-bit MAC rule; peer-selected Delta offset rule (control dependence on received bits)",
    text="Every flow of the global key Delta to a message payload passes through a hash, garble::encrypt, the correlated-OT sender, or an XOR with an own Key/Label-derived value that is not a message component (Delta combined only with public or peer-held values alarms); own wire labels reach a payload only inside AEAD rows / key derivation or through the select Label ^ Delta; the claimed bits of aShare are MAC-checked, before the key sum is opened and against the value that is opened (repaired defect, rule kept); the AEAD row key binds both input labels (one label per wire and garbler); no equality test is applied to a fold over a received vector; no send computed from a message precedes the checks demanded for it; Delta, labels and OT session generators are seeded from private randomness and no private generator is cloned. Combination leaks across several legitimate messages are value-level and not decided.",
    note="Trusted: one-wayness of blake3 / AES hashes / AEAD / OT sender for Delta. Per-function flow with call summaries (result depends on arguments). Known finding (1): R6.6 flaand hash - the unauthenticated e bit of the leaky AND selects a Delta offset of the opened H_i (recorded in known_findings.json, demo under fixes/FX14_flaand_e_bit_delta_leak). Also R6.6: a Delta-carrying value hidden only by own keys whose presence of Delta is decided by a received bit reaches a send only after a MAC check of that bit; a Label pad with a literal in its provenance does not count as a pad.",
    ref="DESIGN.md §3 R6.4, §4 C07")
CLAIMED["C09"] = dict(
    technique="codec who-may-construct rule + secret value-taint over the whole-program flow graph with control-dependence regions of secret-conditioned branches (rustc MIR)",
    text="For every input and coin at once: the fixed-width bincode configuration is the only one constructed and the wire codec goes through utils::serde; no branch whose condition is value-dependent on an own secret (other than abort checks) controls a channel operation, an await, a length-changing container operation, the Some/None pattern of a message slot or a filter-like adaptor; expected-length arguments are secret-free. Byte-exact sizes and timing are not decided.",
    note="Trusted: bincode legacy = fixed-width; lengths / Option discriminants / iterator exhaustion are treated as public shape.",
    ref="DESIGN.md §3 R7, §4 C09")
CLAIMED["C12"] = dict(
    technique="channel-effect analysis at join combinators (per-branch addressed peer / direction), await Ready-edge dominance between channel operations, label pairing and prior-label agreement across role branches (rustc MIR + resolved call graph)",
    text="The property's second sentence, for every schedule and buffer size: at every try_join_all the per-element future addresses only the element of an iteration over pairwise distinct peers; try_join / try_join! branches are direction-disjoint; outside joins each channel operation is awaited before the next is created; every label has a sender and a receiver and both roles run it after the same earlier labels; the pairwise OT sessions run in mirrored order chosen by an order comparison of party indices. Deadlock-freedom/termination with the correct result additionally needs equal chunk counts and a fair Channel (not decided).",
    note="Trusted: channels are per-pair FIFO; distinctness of p_out is enforced by validate() (C18).",
    ref="DESIGN.md §3 R8, §4 C12")
CLAIMED["C01"] = dict(
    technique="sibling agreement of the instruction walkers (per-Op stream consumption counted on the CFG), register-machine discipline of the walks (store at inst.out, operand reads, read-before-store, operand dependence), batch-size provenance and flush-idiom rules, accumulate-once rule, per-party table layout rule, no spontaneous abort on own values, literal-party-index rule (rustc MIR)",
    text="Necessary conditions for all parties staying in step for every circuit, role assignment and batch count: the four loops over circ.insts consume the preprocessing streams identically per Op variant (random-share stream exactly once for Input/And, AND-share/table-share/garbled-gate streams only for And); batch-size methods read only num_inputs/num_and_ops, every flush comparison is `len >= bound` with a bound from these methods and every chunk_size_iter/chunks argument comes from them; every store into a register-indexed table inside a walk goes to inst.out, Xor/And arms read the table at both operand registers and Not at its operand, for Xor/Not the stored value is computed from those reads, and no operand read follows the store within an iteration (register reuse); a register slot accumulated from its own value is visited once per register; a vector looked up by party number is filled by party number (not by push in visiting order); no fail-closed branch compares own secret values without a message component; no literal is used as a party index. Functional correctness of garbling/evaluation is value-level and not decided.",
    note="Trusted: rustc MIR; garble_lang Op variant order. Value-level correctness (XOR/AES/AEAD algebra) needs execution or proof and is declined.",
    ref="DESIGN.md §4 C01")
NA = {
    "C10": "algebraic identity between runtime values held by different parties (MAC = key xor bit*Delta, AND-triple relation) for every index of every batch: no clause is a shape of the code; needs execution or a symbolic proof of the OT/XOR arithmetic (different technique family). The structural fragments (MAC checks exist and are fail-closed) are decided under C04.",
    "C11": "value equality (x_b = x_0 xor b*delta) plus length arithmetic across two files (next_multiple_of(8), +128+SSP, byte/bit conversion, 128-row transpose): deciding the 'stay in step' clause needs integer reasoning through helper functions (symbolic execution), not static shape; declined rather than approximated by expression-text comparison.",
    "C20": "numerical equality with mathematical definitions (bit-matrix transpose, carry-less multiplication, AES-based hashes and counter-mode keystream) over all inputs including SIMD intrinsics; a dependence check (e.g. 'the tweak reaches the output') would be a proxy far weaker than the statement and is not registered.",
}

def main():
    props = [json.loads(l) for l in open(os.path.join(V, "properties.jsonl"))]
    checks = []
    for p in props:
        pid = p["id"]
        if pid in CLAIMED:
            c = CLAIMED[pid]
            checks.append({
                "property_id": pid,
                "quick_cmd": "./check %s --tier quick" % pid,
                "thorough_cmd": "./check %s --tier thorough" % pid,
                "evidence_file": "evidence/%s.json" % pid,
                "replay_cmd_template": "./check --explain {path}",
                "engine": "polyscan",
                "level_claimed": {"category": c.get("category", "other"), "text": c["text"], "design_ref": c["ref"]},
                "level_note": c["note"],
                "technique": c["technique"],
            })
    na = []
    for p in props:
        if p["id"] not in CLAIMED:
            na.append({"property_id": p["id"], "reason": NA.get(p["id"], "check not built yet in this round (static rules planned in DESIGN.md §4); not claimed until the rule module exists")})
    m = {
        "version": 1,
        "setup_cmd": "./setup",
        "hooks": {
            "guard": "polytune_verif",
            "enable": "none needed: static analysis reads the type-checked MIR of the unmodified sources (guard name reserved, unused)",
            "baseline_off_cmd": "cd /repo && cargo test --workspace --no-fail-fast --offline",
            "source_commits": [],
            "add_only": True,
        },
        "engines": [{
            "name": "polyscan",
            "path": "/verif/check",
            "serves_properties": sorted(CLAIMED),
            "kind_free_text": "static analysis: rustc_private MIR fact extractor (driver/) + Python rule engine (rules/): call graph, dominators, value-flow slices, channel-site inventory, state-machine extraction",
        }],
        "checks": checks,
        "not_applicable": na,
        "notes": "All checks are static (no execution of polytune). exit 2 = machinery failure (analysis build failed / discovery floor not met).",
    }
    json.dump(m, open(os.path.join(V, "MANIFEST.json"), "w"), indent=1)
    print("MANIFEST: %d checks, %d not_applicable" % (len(checks), len(na)))

if __name__ == "__main__":
    main()
