#!/usr/bin/env python3
"""Regenerates /verif/MANIFEST.json from the table below (kept next to the rule modules)."""
import json, os
V = "/verif"
CLAIMED = {
    "C05": dict(
        technique="who-may-send analysis: resolved call graph + backward value-flow slices of recipient / slot-index operands + CFG edge dominance (rustc MIR via rustc_private driver)",
        text="Structural decision, for all output sets / evaluators / circuits at once: every channel send reachable after input_processing addresses only members of Context.p_out (minus self), fills only slots indexed by Circuit.output_regs, every receive and every push into the returned vector is dominated by the true edge of p_out.contains(&p_own), evaluate is channel-free. Necessary-and-structural form of the property; not a behavioural test.",
        note="Trusted: rustc type checker / MIR construction (nightly), over-approximate value flow (extern calls propagate all args), Channel implementations deliver only to the addressee. Does not decide inference from preprocessing traffic.",
        ref="DESIGN.md §3 R5, §4 C05"),
}
CLAIMED["C18"] = dict(
    technique="CFG dominance of validate(ctx)? over all engine calls + range-check recognition with fail-closed edge analysis in validate (rustc MIR)",
    text="For every argument value at once: the successful `validate(ctx)?` dominates every engine call of _mpc (no traffic, RNG draw or temp file before it), mpc() only builds the Context, and inside validate each caller-supplied index (p_own, p_eval, every p_out element), the input length, emptiness and duplicates of p_out and circuit.validate() reach a test whose rejecting edge can only construct Err. Structural necessary conditions; circuit-shape panics are handled by the C08/C18 index rules.",
    note="Trusted: rustc MIR, garble_lang::Circuit::validate as the circuit validator. 'fail-closed' = no Ok(..) construction reachable from the rejecting edge.",
    ref="DESIGN.md §4 C18")
CLAIMED["C19"] = dict(
    technique="who-may-call (file-creating APIs), must-precede by dominance (flush -> rewind -> reader), Drop/sibling agreement, codec agreement, forward value-flow slice of Context.tmp_dir (rustc MIR)",
    text="Necessary structural conditions of file/memory equivalence that hold for all operation histories because they are facts of every CFG path: only anonymous temp files are created; flush()? and rewind()? dominate every reader; both iterators restore the shared offset to End(0) on drop; TrackWrite::flush forwards; every method handles both variants and both iterators treat EOF alike; writer and readers share one bincode config; tmp_dir reaches nothing but FileOrMemBuf::new; writer flush bound and chunks(..) argument come from the same Context method with the `>=` idiom. Does not decide item-sequence equality itself.",
    note="Trusted: tempfile_in is anonymous; std BufReader/BufWriter/Seek semantics.",
    ref="DESIGN.md §4 C19")
NA = {}

def main():
    props = [json.loads(l) for l in open(os.path.join(V, "properties.jsonl"))]
    checks = []
    for p in props:
        pid = p["id"]
        if pid in CLAIMED:
            c = CLAIMED[pid]
            checks.append({
                "property_id": pid,
                "quick_cmd": "./check %s --tier quick" % pid,
                "thorough_cmd": "./check %s --tier thorough" % pid,
                "evidence_file": "evidence/%s.json" % pid,
                "replay_cmd_template": "./check --explain {path}",
                "engine": "polyscan",
                "level_claimed": {"category": c.get("category", "other"), "text": c["text"], "design_ref": c["ref"]},
                "level_note": c["note"],
                "technique": c["technique"],
            })
    na = []
    for p in props:
        if p["id"] not in CLAIMED:
            na.append({"property_id": p["id"], "reason": NA.get(p["id"], "check not built yet in this round (static rules planned in DESIGN.md §4); not claimed until the rule module exists")})
    m = {
        "version": 1,
        "setup_cmd": "./setup",
        "hooks": {
            "guard": "polytune_verif",
            "enable": "none needed: static analysis reads the type-checked MIR of the unmodified sources (guard name reserved, unused)",
            "baseline_off_cmd": "cd /repo && cargo test --workspace --no-fail-fast --offline",
            "source_commits": [],
            "add_only": True,
        },
        "engines": [{
            "name": "polyscan",
            "path": "/verif/check",
            "serves_properties": sorted(CLAIMED),
            "kind_free_text": "static analysis: rustc_private MIR fact extractor (driver/) + Python rule engine (rules/): call graph, dominators, value-flow slices, channel-site inventory, state-machine extraction",
        }],
        "checks": checks,
        "not_applicable": na,
        "notes": "All checks are static (no execution of polytune). exit 2 = machinery failure (analysis build failed / discovery floor not met).",
    }
    json.dump(m, open(os.path.join(V, "MANIFEST.json"), "w"), indent=1)
    print("MANIFEST: %d checks, %d not_applicable" % (len(checks), len(na)))

if __name__ == "__main__":
    main()
