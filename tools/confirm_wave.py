#!/usr/bin/env python3
"""confirm_wave.py <suffix> [ids...]: confirm + keep every /tmp/wt/<Cxx><suffix>/SEED<n> (keep_seed.py) and every
BENIGN<n> (keep_benign.py), two at a time.  Demo destination / command are read from the agent's meta.json."""
import sys, os, json, shlex, subprocess, glob
from concurrent.futures import ThreadPoolExecutor
suffix = sys.argv[1]
only = set(sys.argv[2:])
jobs = []
for d in sorted(glob.glob("/tmp/wt/C??%s/SEED*" % suffix)):
    wt = d.split("/")[3]
    n = d.rsplit("SEED", 1)[1]
    if only and ("%s_%s" % (wt, n)) not in only:
        continue
    try:
        m = json.load(open(d + "/meta.json"))
    except Exception:
        continue
    cmd = m.get("demo_command") or ""
    if "&&" in cmd:
        cmd = cmd.split("&&", 1)[1]
    toks = shlex.split(cmd)
    while toks and "=" in toks[0] and not toks[0].startswith("cargo"):
        toks.pop(0)
    toks = [t for t in toks if t not in ("--nocapture", "--no-capture")]
    if toks and toks[-1] == "--":
        toks.pop()
    jobs.append(["/verif/tools/keep_seed.py", wt, n, m.get("demo_destination") or "tests"] + toks)
for d in sorted(glob.glob("/tmp/wt/C??%s/BENIGN*" % suffix)):
    wt = d.split("/")[3]
    n = d.rsplit("BENIGN", 1)[1]
    if only and ("%s_B%s" % (wt, n)) not in only:
        continue
    if os.path.exists(d + "/patch.diff"):
        jobs.append(["/verif/tools/keep_benign.py", wt, n])
def run(j):
    r = subprocess.run(j, stdout=subprocess.PIPE, stderr=subprocess.STDOUT, text=True)
    print(r.stdout.strip()[-600:], flush=True)
# one job per worktree at a time (they share the target dir): group by worktree
by_wt = {}
for j in jobs:
    by_wt.setdefault(j[1], []).append(j)
def run_wt(js):
    for j in js:
        run(j)
with ThreadPoolExecutor(max_workers=4) as ex:
    list(ex.map(run_wt, by_wt.values()))
