#!/usr/bin/env python3
"""Regenerates seeded/README.md from the meta.json files."""
import json, os
root = "/verif/seeded"
rows = []
for d in sorted(os.listdir(root)):
    p = os.path.join(root, d, "meta.json")
    if not os.path.exists(p):
        continue
    m = json.load(open(p))
    c = m.get("checks", {})
    conf = m.get("confirmation", {})
    hist = m.get("history", "")
    rows.append((d, m.get("property", d.split("_")[0]), m.get("summary", "").split(". ")[0][:230].replace("|", "/").replace("\n", " "),
                 "yes" if conf.get("confirmed") else "no", ", ".join(c.get("caught_by", [])) or "-", "yes" if c.get("target_property_caught") else "no",
                 "; ".join(r.split("[")[0] for r in c.get("rules", [])[:4]), hist))
out = ["# Changes written by independent sub-agents", "",
       "Each directory holds one change produced by a fresh sub-agent that was given only the text of one property and a scratch",
       "worktree of the repository (nothing from /verif): `patch.diff` (source change), `demo/` (a test that fails with the change and",
       "passes without it, plus DEMO.md), `meta.json` (the agent's description, what the change needs to manifest, my own confirmation:",
       "demo passes on the clean tree / fails with the patch / the existing suite still passes, and the result of every claimed check",
       "on a scratch copy with the patch applied). `tools/recheck_seeds.py` refreshes the `checks` part; `tools/seed_readme.py` this file.",
       "None of these patches is ever applied to /repo.", "",
       "Waves: `Cxx_n` (1), `Cxxb_n` (2), `Cxxc_n` (3), `Cxxd_n` (4); DESIGN.md sections 11 and 12. `history` says what the checks did",
       "on first sight and which rule was added or corrected.", "",
       "| seed | property | change (first sentence of the agent's summary) | confirmed | caught by | target property caught | rules (first) | history |",
       "|---|---|---|---|---|---|---|---|"]
for r in rows:
    out.append("| " + " | ".join(r) + " |")
open(os.path.join(root, "README.md"), "w").write("\n".join(out) + "\n")
print(len(rows), "seeds")
