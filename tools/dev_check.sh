#!/bin/sh
# run property modules against dev facts: tools/dev_check.sh C01 [factsdir]
cd /verif && python3 - "$@" <<'PY'
import sys, importlib
sys.path.insert(0,'/verif'); sys.path.insert(0,'/verif/rules')
from importlib.machinery import SourceFileLoader
chk = SourceFileLoader("chk", "/verif/check").load_module()
from mir import Program
from common import Result
pid=sys.argv[1]; facts=sys.argv[2] if len(sys.argv)>2 else '/verif/.work/dev'
ctx=chk.Ctx(Program(facts),'quick',facts)
mod=importlib.import_module('props.'+pid.lower())
res=Result(pid); mod.run(ctx,res)
for i in res.instances:
    if len(sys.argv)>3 and not i['rule'].startswith(sys.argv[3]): continue
    print(i["verdict"], i["rule"], i["id"], "|", i["where"], "|", i["detail"][:int(__import__("os").environ.get("W","200"))])
print(res.counts); print(res.failures)
PY
