#!/usr/bin/env python3
"""keep_seed.py <PROP> <n> <demo-dest> <test cmd...>: confirm /tmp/wt/<PROP>/SEED<n>, run all checks on
a scratch copy with the patch, store everything under /verif/seeded/<PROP>_<n>/."""
import sys, os, subprocess, json, shutil, tempfile, re
prop, n, dest = sys.argv[1], sys.argv[2], sys.argv[3]
cmd = sys.argv[4:]
wt = "/tmp/wt/%s" % prop
seed = "%s/SEED%s" % (wt, n)
out = "/verif/seeded/%s_%s" % (prop, n)
r = subprocess.run(["/verif/tools/confirm_seed.py", wt, seed, dest] + cmd, stdout=subprocess.PIPE, text=True)
conf = json.loads(r.stdout)
os.makedirs(out, exist_ok=True)
shutil.copy(seed + "/patch.diff", out + "/patch.diff")
if os.path.exists(out + "/demo"):
    shutil.rmtree(out + "/demo")
shutil.copytree(seed + "/demo", out + "/demo")
meta = json.load(open(seed + "/meta.json"))
props = [c["property_id"] for c in json.load(open("/verif/MANIFEST.json"))["checks"]]
scr = tempfile.mkdtemp(prefix="polyscan_seed.")
subprocess.run("cd /repo && git ls-files -z | tar --null -T - -cf - | tar -xf - -C %s" % scr, shell=True)
ap = subprocess.run(["git", "apply", "--3way", out + "/patch.diff"], cwd=scr, stdout=subprocess.PIPE, stderr=subprocess.STDOUT, text=True)
if ap.returncode != 0:
    ap = subprocess.run(["patch", "-p1", "-s", "-i", out + "/patch.diff"], cwd=scr, stdout=subprocess.PIPE, stderr=subprocess.STDOUT, text=True)
env = dict(os.environ, POLYSCAN_REPO=scr)
c = subprocess.run(["/verif/check", ",".join(props)], cwd="/verif", env=env, stdout=subprocess.PIPE, stderr=subprocess.STDOUT, text=True)
shutil.rmtree(scr, ignore_errors=True)
caught = sorted(set(re.findall(r"^VIOLATION property=(\w+)", c.stdout, re.M)))
rules = sorted(set(re.findall(r"^  rule=(\S+) instance=(.*)$", c.stdout, re.M)))
meta["confirmation"] = {k: conf[k] for k in ("demo_clean_rc", "demo_patched_rc", "apply_rc", "suite_rc", "suite_summary", "confirmed")}
meta["confirmation"]["demo_command"] = " ".join(cmd)
meta["confirmation"]["demo_destination"] = dest
target = meta.get("property") or prop[:3]
meta["checks"] = {"patch_applies_to_current_repo": ap.returncode == 0, "exit_code": c.returncode, "caught_by": caught, "rules": ["%s[%s]" % r_ for r_ in rules][:8], "target_property_caught": target in caught}
meta["base_commit"] = subprocess.run(["git", "-C", wt, "rev-parse", "--short", "HEAD"], stdout=subprocess.PIPE, text=True).stdout.strip()
json.dump(meta, open(out + "/meta.json", "w"), indent=1)
print(prop, n, "confirmed=%s" % conf["confirmed"], "caught_by=%s" % caught, "target=%s" % (target in caught), [r_[0] + "[" + r_[1] + "]" for r_ in rules][:4])
