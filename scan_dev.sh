#!/bin/sh
# developer helper: refresh facts into .work/dev (whole workspace)
rm -rf /verif/.work/dev && mkdir -p /verif/.work/dev
rm -rf /verif/.cache/target/debug/.fingerprint/polytune*
cd ${1:-/repo} && env LD_LIBRARY_PATH=$(rustc +nightly --print sysroot)/lib CARGO_INCREMENTAL=0 RUSTFLAGS="-Zmir-opt-level=0 -Awarnings" RUSTC_WORKSPACE_WRAPPER=/verif/driver/target/release/polyscan-driver POLYSCAN_OUT=/verif/.work/dev CARGO_TARGET_DIR=/verif/.cache/target cargo +nightly check --offline --workspace 2>&1 | tail -3
